use std::{sync::Arc, time::Duration};
use iroh::{Endpoint, endpoint::{BindOpts, presets}, protocol::{Router, ProtocolHandler, AcceptError}};

#[tokio::test]
async fn probe_c20() {
    let a = || Endpoint::builder(presets::Minimal).clear_ip_transports();
    // default first, then non-default
    let r1 = a().bind_addr_with_opts("127.0.0.1:0", BindOpts::default())
        .and_then(|b| b.bind_addr_with_opts("127.0.0.1:0", BindOpts::default().set_prefix_len(24)));
    let r2 = a().bind_addr_with_opts("127.0.0.1:0", BindOpts::default().set_prefix_len(24))
        .and_then(|b| b.bind_addr_with_opts("127.0.0.1:0", BindOpts::default()));
    println!("PROBE C20 [default, nondefault] ok={} ; [nondefault, default] ok={}", r1.is_ok(), r2.is_ok());
    // two defaults in either order
    let r3 = a().bind_addr_with_opts("127.0.0.1:0", BindOpts::default())
        .and_then(|b| b.bind_addr_with_opts("127.0.0.2:0", BindOpts::default()));
    println!("PROBE C20 [default, default] ok={}", r3.is_ok());
    // nondefault then two... 
    let r4 = a().bind_addr_with_opts("127.0.0.1:0", BindOpts::default().set_prefix_len(24))
        .and_then(|b| b.bind_addr_with_opts("127.0.0.2:0", BindOpts::default().set_prefix_len(8)));
    println!("PROBE C20 [nd, nd] ok={}", r4.is_ok());
}

#[derive(Debug, Clone)]
struct Slow(Arc<std::sync::atomic::AtomicBool>);
impl ProtocolHandler for Slow {
    async fn accept(&self, _c: iroh::endpoint::Connection) -> Result<(), AcceptError> { Ok(()) }
    async fn shutdown(&self) {
        tokio::time::sleep(Duration::from_millis(500)).await;
        self.0.store(true, std::sync::atomic::Ordering::SeqCst);
    }
}

#[tokio::test]
async fn probe_c41() {
    let done = Arc::new(std::sync::atomic::AtomicBool::new(false));
    let ep = Endpoint::bind(presets::Minimal).await.unwrap();
    let router = Router::builder(ep.clone()).accept(b"x", Slow(done.clone())).spawn();
    let r2 = router.clone();
    let d2 = done.clone();
    let h = tokio::spawn(async move { r2.shutdown().await.unwrap(); d2.load(std::sync::atomic::Ordering::SeqCst) });
    tokio::time::sleep(Duration::from_millis(50)).await;
    router.shutdown().await.unwrap();
    let second_saw_done = done.load(std::sync::atomic::Ordering::SeqCst);
    let first_saw_done = h.await.unwrap();
    println!("PROBE C41 first caller saw handler shutdown done={first_saw_done}; second (concurrent) caller saw done={second_saw_done} closed={}", ep.is_closed());
}
