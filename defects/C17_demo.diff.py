# generates the demonstration test for C17 (appended inside the tests module of iroh/src/socket/transports/relay.rs)
TEST = r'''
    /// C17 demonstration: a remote chooses a segment size larger than the receive buffer.
    #[tokio::test]
    async fn verif_c17_oversized_segment_does_not_wedge() {
        use std::num::NonZeroU16;
        use bytes::Bytes;
        let (tx, rx) = mpsc::channel(16);
        let (send_tx, _send_rx) = mpsc::channel(1);
        let (actor_tx, _actor_rx) = mpsc::channel(1);
        let mut t = RelayTransport {
            relay_datagram_recv_queue: rx,
            relay_datagram_send_channel: send_tx,
            pending_item: None,
            actor_sender: actor_tx,
            _actor_handle: AbortOnDropHandle::new(task::spawn(async {})),
            my_relay: Default::default(),
            my_endpoint_id: EndpointId::from_bytes(&[0u8; 32]).unwrap(),
        };
        let url = staging::default_na_east_relay().url;
        let src = EndpointId::from_bytes(&[0u8; 32]).unwrap();
        // batch of two 2000-byte datagrams, receive buffers are 1500 bytes
        tx.try_send(RelayRecvDatagram {
            url: url.clone(),
            src,
            datagrams: Datagrams { ecn: None, segment_size: NonZeroU16::new(2000), contents: Bytes::from(vec![7u8; 4000]) },
        }).unwrap();
        // followed by an ordinary small datagram that fits
        tx.try_send(RelayRecvDatagram { url: url.clone(), src, datagrams: Datagrams::from(&[1u8, 2, 3]) }).unwrap();

        let mut delivered: Vec<Vec<u8>> = Vec::new();
        let mut polls = 0;
        let mut empty_slots = 0;
        while polls < 50 && delivered.is_empty() {
            polls += 1;
            let mut b0 = vec![0u8; 1500];
            let mut b1 = vec![0u8; 1500];
            let mut bufs = [io::IoSliceMut::new(&mut b0), io::IoSliceMut::new(&mut b1)];
            let mut metas = [noq_udp::RecvMeta::default(), noq_udp::RecvMeta::default()];
            let mut infos = [RecvInfo::from_addr((url.clone(), src).into()), RecvInfo::from_addr((url.clone(), src).into())];
            let res = std::future::poll_fn(|cx| match t.poll_recv(cx, &mut bufs, &mut metas, &mut infos) {
                Poll::Ready(r) => Poll::Ready(Some(r)),
                Poll::Pending => Poll::Ready(None),
            }).await;
            if let Some(Ok(n)) = res {
                for j in 0..n {
                    if metas[j].len == 0 { empty_slots += 1; } else { delivered.push(bufs[j][..metas[j].len].to_vec()); }
                }
            }
        }
        assert_eq!(empty_slots, 0, "empty datagrams were handed to QUIC ({empty_slots} slots in {polls} polls)");
        assert_eq!(delivered, vec![vec![1u8, 2, 3]], "the datagram queued behind the oversized batch was never delivered");
    }
'''
import sys
p = sys.argv[1] + '/iroh/src/socket/transports/relay.rs'
s = open(p).read()
i = s.rindex('}')          # end of tests module
s = s[:i] + TEST + s[i:]
open(p, 'w').write(s)
