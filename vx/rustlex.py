"""Minimal Rust lexer + item slicer used by the VX extractor.

It does not parse expressions; it tokenises (so that braces inside strings,
chars, comments and lifetimes are never miscounted), matches delimiters and
finds *items* (fn / struct / enum / const / static / type / impl / mod / trait)
with their exact source spans.  Everything the extractor emits is a verbatim
slice of the source text between two token boundaries.
"""
import re

IDENT_START = re.compile(r'[A-Za-z_]')
IDENT = re.compile(r'[A-Za-z_][A-Za-z0-9_]*')
NUM = re.compile(r'[0-9][0-9A-Za-z_]*(\.[0-9][0-9A-Za-z_]*)?')


class Tok:
    __slots__ = ('kind', 'text', 'start', 'end', 'match')

    def __init__(self, kind, text, start, end):
        self.kind = kind      # ws comment doc str char lifetime ident num punct
        self.text = text
        self.start = start
        self.end = end
        self.match = -1       # index of the matching delimiter token

    def __repr__(self):
        return f'Tok({self.kind},{self.text!r},{self.start})'


class LexError(Exception):
    pass


def lex(src):
    toks = []
    i = 0
    n = len(src)
    while i < n:
        c = src[i]
        if c in ' \t\r\n':
            j = i + 1
            while j < n and src[j] in ' \t\r\n':
                j += 1
            toks.append(Tok('ws', src[i:j], i, j))
            i = j
            continue
        if src.startswith('//', i):
            j = src.find('\n', i)
            if j < 0:
                j = n
            text = src[i:j]
            kind = 'doc' if (text.startswith('///') and not text.startswith('////')) or text.startswith('//!') else 'comment'
            toks.append(Tok(kind, text, i, j))
            i = j
            continue
        if src.startswith('/*', i):
            depth = 1
            j = i + 2
            while j < n and depth > 0:
                if src.startswith('/*', j):
                    depth += 1
                    j += 2
                elif src.startswith('*/', j):
                    depth -= 1
                    j += 2
                else:
                    j += 1
            text = src[i:j]
            kind = 'doc' if (text.startswith('/**') and not text.startswith('/***') and len(text) > 4) or text.startswith('/*!') else 'comment'
            toks.append(Tok(kind, text, i, j))
            i = j
            continue
        # raw strings / byte strings / c strings
        m = re.match(r'(b|c)?r(#*)"', src[i:i + 40])
        if m:
            hashes = m.group(2)
            close = '"' + hashes
            j = src.find(close, i + m.end())
            if j < 0:
                raise LexError('unterminated raw string')
            j += len(close)
            toks.append(Tok('str', src[i:j], i, j))
            i = j
            continue
        if c == '"' or (c in 'bc' and i + 1 < n and src[i + 1] == '"'):
            j = i + (1 if c == '"' else 2)
            while j < n and src[j] != '"':
                if src[j] == '\\':
                    j += 2
                else:
                    j += 1
            j += 1
            toks.append(Tok('str', src[i:j], i, j))
            i = j
            continue
        if c == "'" or (c == 'b' and i + 1 < n and src[i + 1] == "'"):
            k = i + (1 if c == "'" else 2)
            # char literal or lifetime?
            if k < n and src[k] == '\\':
                j = k + 2
                while j < n and src[j] != "'":
                    j += 1
                j += 1
                toks.append(Tok('char', src[i:j], i, j))
                i = j
                continue
            if k + 1 < n and src[k + 1] == "'" and src[k] != "'":
                j = k + 2
                toks.append(Tok('char', src[i:j], i, j))
                i = j
                continue
            if c == "'":
                m = IDENT.match(src, k)
                if m:
                    toks.append(Tok('lifetime', src[i:m.end()], i, m.end()))
                    i = m.end()
                    continue
                # non-ascii char literal
                j = src.find("'", k)
                if j < 0:
                    raise LexError('bad quote')
                j += 1
                toks.append(Tok('char', src[i:j], i, j))
                i = j
                continue
        if IDENT_START.match(c):
            m = IDENT.match(src, i)
            # raw identifiers r#foo
            if m.group(0) == 'r' and src.startswith('#', m.end()) and IDENT_START.match(src[m.end() + 1:m.end() + 2] or ' '):
                m2 = IDENT.match(src, m.end() + 1)
                toks.append(Tok('ident', src[i:m2.end()], i, m2.end()))
                i = m2.end()
                continue
            toks.append(Tok('ident', m.group(0), i, m.end()))
            i = m.end()
            continue
        if c.isdigit():
            m = NUM.match(src, i)
            # avoid swallowing `1..2` or `1.method()`
            text = m.group(0)
            if '.' in text:
                dot = text.index('.')
                nxt = text[dot + 1:dot + 2]
                if not nxt.isdigit():
                    text = text[:dot]
            toks.append(Tok('num', text, i, i + len(text)))
            i += len(text)
            continue
        toks.append(Tok('punct', c, i, i + 1))
        i += 1
    # match delimiters
    stack = []
    pairs = {')': '(', ']': '[', '}': '{'}
    for idx, t in enumerate(toks):
        if t.kind != 'punct':
            continue
        if t.text in '([{':
            stack.append(idx)
        elif t.text in ')]}':
            if not stack or toks[stack[-1]].text != pairs[t.text]:
                raise LexError(f'unbalanced {t.text} at byte {t.start}')
            o = stack.pop()
            toks[o].match = idx
            t.match = o
    if stack:
        raise LexError(f'unclosed delimiter at byte {toks[stack[-1]].start}')
    return toks


def line_of(src, pos):
    return src.count('\n', 0, pos) + 1


class Item:
    def __init__(self):
        self.kind = None        # fn struct enum const static type impl mod trait use macro other
        self.name = None
        self.first = None       # first token index incl. attrs/docs
        self.head = None        # first token of visibility/keyword
        self.kw = None          # token index of the defining keyword
        self.open = None        # index of `{` of the body (if any)
        self.close = None
        self.last = None        # last token index (inclusive)
        self.header = None      # for impl: text between `impl` and `{`
        self.children = []
        self.attrs = []         # attribute texts
        self.mods = []
        self.parent = None

    def __repr__(self):
        return f'Item({self.kind} {self.name} {self.header!r})'


SIG = {'ws', 'comment', 'doc'}


def _skip_insig(toks, i, end):
    while i < end and toks[i].kind in SIG:
        i += 1
    return i


VERUS_MODE = False
VERUS_MODS = {'open', 'closed', 'spec', 'proof', 'exec', 'uninterp', 'broadcast', 'axiom', 'tracked', 'ghost'}
ITEM_KW = {'fn', 'struct', 'enum', 'union', 'trait', 'impl', 'mod', 'type', 'const', 'static', 'use', 'macro_rules', 'extern'}
MODIFIERS = {'pub', 'async', 'unsafe', 'default', 'const', 'extern', 'safe'}


def parse_items(toks, src, lo, hi, parent=None):
    """Parse the items between token indices [lo, hi)."""
    global VERUS_MODE
    items = []
    i = lo
    while True:
        i = _skip_ws_only(toks, i, hi)
        if i >= hi:
            break
        it = Item()
        it.parent = parent
        it.first = i
        # docs, comments and attributes preceding the item
        j = i
        while j < hi:
            t = toks[j]
            if t.kind in SIG:
                j += 1
                continue
            if t.kind == 'punct' and t.text == '#':
                k = _skip_insig(toks, j + 1, hi)
                if k < hi and toks[k].text == '!':
                    k = _skip_insig(toks, k + 1, hi)
                if k < hi and toks[k].text == '[':
                    it.attrs.append(src[t.start:toks[toks[k].match].end])
                    j = toks[k].match + 1
                    continue
            break
        if j >= hi:
            break
        it.head = j
        # modifiers
        k = j
        while k < hi:
            t = toks[k]
            if t.kind in SIG:
                k += 1
                continue
            if t.kind == 'ident' and t.text == 'pub':
                k2 = _skip_insig(toks, k + 1, hi)
                if k2 < hi and toks[k2].text == '(':
                    k = toks[k2].match + 1
                else:
                    k = k2
                continue
            if t.kind == 'ident' and t.text in ('async', 'unsafe', 'default', 'safe'):
                k += 1
                continue
            if VERUS_MODE and t.kind == 'ident' and t.text in VERUS_MODS:
                k2 = _skip_insig(toks, k + 1, hi)
                if k2 < hi and toks[k2].text == '(' and t.text in ('spec', 'open', 'closed'):
                    k = toks[k2].match + 1
                else:
                    k += 1
                continue
            if t.kind == 'ident' and t.text == 'const':
                k2 = _skip_insig(toks, k + 1, hi)
                if k2 < hi and toks[k2].kind == 'ident' and toks[k2].text in ('fn', 'unsafe', 'async', 'extern'):
                    k = k2
                    continue
                break
            if t.kind == 'ident' and t.text == 'extern':
                k2 = _skip_insig(toks, k + 1, hi)
                if k2 < hi and toks[k2].kind == 'str':
                    k3 = _skip_insig(toks, k2 + 1, hi)
                    if k3 < hi and toks[k3].text == 'fn':
                        k = k3
                        continue
                    if k3 < hi and toks[k3].text == '{':
                        it.kind = 'other'
                        it.kw = k
                        it.open = k3
                        it.close = toks[k3].match
                        it.last = it.close
                        break
                if k2 < hi and toks[k2].text == 'fn':
                    k = k2
                    continue
                break
            break
        if it.kind == 'other':
            items.append(it)
            i = it.last + 1
            continue
        if k >= hi:
            break
        t = toks[k]
        it.kw = k
        if t.kind == 'ident' and t.text == 'fn':
            it.kind = 'fn'
            it.mods = [toks[x].text for x in range(it.head, k) if toks[x].kind == 'ident']
            n = _skip_insig(toks, k + 1, hi)
            it.name = toks[n].text
            # find body `{` or `;` at depth 0
            m = n + 1
            while m < hi:
                tt = toks[m]
                if tt.kind == 'punct' and tt.text in '([':
                    m = tt.match + 1
                    continue
                if tt.kind == 'punct' and tt.text == '{':
                    if VERUS_MODE:
                        # a brace group inside a contract (`x matches P { .. } ==> ...`) is followed by an operator
                        # or a clause keyword; the body is followed by the next item / a closing brace
                        nx = _skip_insig(toks, tt.match + 1, hi)
                        # (`match x { .. }` / `if c { .. } else { .. }` as the LAST clause is followed directly by the body `{`)
                        if nx < hi and ((toks[nx].kind == 'punct' and toks[nx].text in '=&|,<>+-*/!?.{') or
                                        (toks[nx].kind == 'ident' and toks[nx].text in ('ensures', 'requires', 'decreases', 'recommends', 'returns', 'is', 'matches', 'as', 'opens_invariants', 'no_unwind', 'else'))):
                            m = tt.match + 1
                            continue
                    it.open = m
                    it.close = tt.match
                    it.last = tt.match
                    break
                if tt.kind == 'punct' and tt.text == ';':
                    it.last = m
                    break
                m += 1
        elif t.kind == 'ident' and t.text in ('struct', 'enum', 'union', 'trait', 'mod'):
            it.kind = t.text
            n = _skip_insig(toks, k + 1, hi)
            it.name = toks[n].text
            m = n + 1
            while m < hi:
                tt = toks[m]
                if tt.kind == 'punct' and tt.text in '([':
                    m = tt.match + 1
                    continue
                if tt.kind == 'punct' and tt.text == '{':
                    it.open = m
                    it.close = tt.match
                    it.last = tt.match
                    break
                if tt.kind == 'punct' and tt.text == ';':
                    it.last = m
                    break
                m += 1
            if it.kind in ('mod', 'trait') and it.open is not None:
                it.children = parse_items(toks, src, it.open + 1, it.close, it)
        elif t.kind == 'ident' and t.text == 'impl':
            it.kind = 'impl'
            m = k + 1
            while m < hi:
                tt = toks[m]
                if tt.kind == 'punct' and tt.text in '([':
                    m = tt.match + 1
                    continue
                if tt.kind == 'punct' and tt.text == '{':
                    it.open = m
                    it.close = tt.match
                    it.last = tt.match
                    break
                m += 1
            it.header = ' '.join(src[toks[k + 1].start:toks[it.open].start].split())
            it.name = it.header
            it.children = parse_items(toks, src, it.open + 1, it.close, it)
        elif t.kind == 'ident' and t.text in ('const', 'static', 'type', 'use'):
            it.kind = t.text
            n = _skip_insig(toks, k + 1, hi)
            if toks[n].kind == 'ident' and toks[n].text == 'mut':
                n = _skip_insig(toks, n + 1, hi)
            it.name = toks[n].text
            m = n
            seen_eq = False
            while m < hi:
                tt = toks[m]
                if tt.kind == 'punct' and tt.text == '=' and toks[m - 1].text not in ('=', '<', '>', '!') and toks[m + 1].text not in ('=', '>'):
                    seen_eq = True
                if tt.kind == 'punct' and tt.text == '{' and not seen_eq and VERUS_MODE and it.kind in ('const', 'static'):
                    # verus: `exec const X: T ensures .. { body }`
                    it.open = m
                    it.close = tt.match
                    it.last = tt.match
                    break
                if tt.kind == 'punct' and tt.text in '([{':
                    m = tt.match + 1
                    continue
                if tt.kind == 'punct' and tt.text == ';':
                    it.last = m
                    break
                m += 1
        else:
            # macro invocation or something else: skip to `;` or matching brace
            it.kind = 'other'
            m = k
            semi_only = t.kind == 'ident' and t.text == 'assume_specification'
            if semi_only:
                it.kind = 'assume_specification'
            while m < hi:
                tt = toks[m]
                if tt.kind == 'punct' and tt.text in '([':
                    m = tt.match + 1
                    continue
                if tt.kind == 'punct' and tt.text == '{' and semi_only:
                    m = tt.match + 1
                    continue
                if tt.kind == 'punct' and tt.text == '{':
                    it.open = m
                    it.close = tt.match
                    it.last = tt.match
                    # macro_rules! foo { } has no trailing `;`
                    break
                if tt.kind == 'punct' and tt.text == ';':
                    it.last = m
                    break
                m += 1
            if t.kind == 'ident' and t.text == 'macro_rules':
                it.kind = 'macro'
                n = _skip_insig(toks, k + 2, hi)
                it.name = toks[n].text if n < hi else None
            elif t.kind == 'ident' and t.text == 'verus' and it.open is not None:
                it.kind = 'verus'
                saved = VERUS_MODE
                VERUS_MODE = True
                try:
                    it.children = parse_items(toks, src, it.open + 1, it.close, it)
                finally:
                    VERUS_MODE = saved
        if it.last is None:
            raise LexError(f'could not find end of item starting at line {line_of(src, toks[it.head].start)}')
        items.append(it)
        i = it.last + 1
    return items


def _skip_ws_only(toks, i, hi):
    while i < hi and toks[i].kind == 'ws':
        i += 1
    return i


class Source:
    def __init__(self, path):
        self.path = path
        with open(path, encoding='utf-8') as f:
            self.src = f.read()
        self.toks = lex(self.src)
        self.items = parse_items(self.toks, self.src, 0, len(self.toks))

    def walk(self, items=None):
        for it in (self.items if items is None else items):
            yield it
            if it.children:
                yield from self.walk(it.children)

    def text(self, a, b):
        """source text from token a (inclusive) to token b (inclusive)"""
        return self.src[self.toks[a].start:self.toks[b].end]

    def is_cfg_test(self, it):
        p = it
        while p is not None:
            for a in p.attrs:
                aa = ''.join(a.split())
                if aa.startswith('#[cfg(test)]') or aa.startswith('#[cfg(all(test') or aa == '#[test]':
                    return True
            p = p.parent
        return False


def impl_parts(header):
    """Split an impl header into (trait or None, self type) with generics stripped
    down to the last path identifier."""
    h = header
    # drop leading generics `<...>`
    h = h.strip()
    if h.startswith('<'):
        depth = 0
        for idx, ch in enumerate(h):
            if ch == '<':
                depth += 1
            elif ch == '>':
                depth -= 1
                if depth == 0:
                    h = h[idx + 1:].strip()
                    break
    # drop where clause
    w = re.search(r'\bwhere\b', h)
    if w:
        h = h[:w.start()].strip()
    trait = None
    # split on top-level ` for `
    depth = 0
    idx = 0
    split_at = None
    while idx < len(h):
        ch = h[idx]
        if ch in '<(':
            depth += 1
        elif ch in '>)':
            depth -= 1
        elif depth == 0 and h.startswith(' for ', idx):
            split_at = idx
            break
        idx += 1
    if split_at is not None:
        trait = h[:split_at].strip()
        ty = h[split_at + 5:].strip()
    else:
        ty = h
    return trait, ty


def base_name(ty):
    """`foo::Bar<T>` -> `Bar`; `&'a [u8]` -> `&[u8]`-ish normalised text."""
    t = ty.strip()
    m = re.match(r'^(?:[A-Za-z_][A-Za-z0-9_]*::)*([A-Za-z_][A-Za-z0-9_]*)\s*(<.*>)?$', t)
    if m:
        return m.group(1)
    return ''.join(t.split())
