//@unit auth_token props=C12
// C12 — relay auth token extraction follows its documented rules.
use vstd::prelude::*;
use vstd::std_specs::cmp::OrdSpec;
verus! {
//@include shims/std_wide.rs

// ---- str primitives (std semantics, trusted): first-occurrence split, ASCII case-insensitive equality
pub open spec fn first_index(s: Seq<char>, c: char) -> Option<int>
    decreases s.len()
{
    if s.len() == 0 { None } else if s[0] == c { Some(0int) } else { match first_index(s.subrange(1, s.len() as int), c) { Some(i) => Some(i + 1), None => None } }
}
pub open spec fn split_once_spec(s: Seq<char>, c: char) -> Option<(Seq<char>, Seq<char>)> {
    match first_index(s, c) { Some(i) => Some((s.subrange(0, i), s.subrange(i + 1, s.len() as int))), None => None }
}
pub open spec fn lower(c: char) -> char { if 'A' <= c && c <= 'Z' { ((c as u8) + 32) as char } else { c } }
pub open spec fn eq_ic(a: Seq<char>, b: Seq<char>) -> bool { a.len() == b.len() && forall|i: int| 0 <= i < a.len() ==> lower(#[trigger] a[i]) == lower(b[i]) }
// rule R9: str methods Verus has no model of are redirected to these functions
#[verifier::external_body]
pub fn str_split_once<'a>(s: &'a str, c: char) -> (r: Option<(&'a str, &'a str)>)
    ensures match r { Some((a, b)) => split_once_spec(s@, c) == Some((a@, b@)), None => split_once_spec(s@, c) is None }
{ unimplemented!() }
#[verifier::external_body]
pub fn str_eq_ignore_ascii_case(a: &str, b: &str) -> (r: bool) ensures r == eq_ic(a@, b@) { unimplemented!() }
#[verifier::external_body]
pub fn str_to_string(s: &str) -> (r: String) ensures r@ == s@ { unimplemented!() }

// ---- trusted shims: http request parts, url form decoding
pub struct ToStrError;
pub struct HeaderValue { pub bytes: Seq<u8> }
pub uninterp spec fn text_of(b: Seq<u8>) -> Option<Seq<char>>;   // Some iff the value is visible ASCII text (http's to_str)
impl HeaderValue {
    #[verifier::external_body]
    pub fn to_str(&self) -> (r: Result<&str, ToStrError>)
        ensures match r { Ok(s) => text_of(self.bytes) == Some(s@), Err(_) => text_of(self.bytes) is None }
    { unimplemented!() }
}
pub struct HeaderName { pub id: u8 }
pub const AUTHORIZATION: HeaderName = HeaderName { id: 0 };
pub struct HeaderMap { pub id: int }
pub uninterp spec fn values_of(m: HeaderMap, n: HeaderName) -> Seq<HeaderValue>;   // the values of header `n`, in request order
impl HeaderMap {
    // rule R27: `get_all(name)` as a for-loop source is the list of that header's values in request order
    #[verifier::external_body]
    pub fn get_all_list(&self, n: HeaderName) -> (r: &Vec<HeaderValue>) ensures r@ == values_of(*self, n) { unimplemented!() }
}
pub struct Uri { pub id: int }
pub uninterp spec fn query_of(u: Uri) -> Option<Seq<char>>;
impl Uri {
    #[verifier::external_body]
    pub fn query(&self) -> (r: Option<&str>) ensures match r { Some(q) => query_of(*self) == Some(q@), None => query_of(*self) is None } { unimplemented!() }
}
pub mod http { pub mod request { pub struct Parts { pub headers: super::super::HeaderMap, pub uri: super::super::Uri } } }
// Cow<'_, str>
pub struct Cow<'a> { pub s: &'a str }
impl<'a> Cow<'a> {
    pub open spec fn view(&self) -> Seq<char> { self.s@ }
    #[verifier::external_body]
    pub fn into_owned(self) -> (r: String) ensures r@ == self@ { unimplemented!() }
}
// `Cow<str> == &str` (rule R11)
pub open spec fn cow_eq_spec(a: Seq<char>, b: Seq<char>) -> bool { a == b }
pub open spec fn cow_ne_spec(a: Seq<char>, b: Seq<char>) -> bool { a != b }
#[verifier::external_body]
pub fn cow_eq_str(a: &Cow<'_>, b: &str) -> (r: bool) ensures r == (a@ == b@) { unimplemented!() }
#[verifier::external_body]
pub fn cow_ne_str(a: &Cow<'_>, b: &str) -> (r: bool) ensures r == (a@ != b@) { unimplemented!() }
// the (name, value) pairs of an application/x-www-form-urlencoded string, percent-decoded, in order
pub uninterp spec fn form_pairs(q: Seq<char>) -> Seq<(Seq<char>, Seq<char>)>;
pub struct Parse<'a> { pub pairs: Vec<(Cow<'a>, Cow<'a>)> }
pub open spec fn pair_views(v: Seq<(Cow<'_>, Cow<'_>)>) -> Seq<(Seq<char>, Seq<char>)> { Seq::new(v.len(), |i: int| (v[i].0@, v[i].1@)) }
impl<'a> Parse<'a> {
    // Iterator::find: the first item the predicate accepts
    #[verifier::external_body]
    pub fn find<F: FnMut(&(Cow<'a>, Cow<'a>)) -> bool>(&mut self, f: F) -> (r: Option<(Cow<'a>, Cow<'a>)>)
        ensures match r {
            Some(p) => exists|i: int| 0 <= i < old(self).pairs@.len() && p == old(self).pairs@[i] && call_ensures(f, (&old(self).pairs@[i],), true)
                && forall|j: int| 0 <= j < i ==> call_ensures(f, (&#[trigger] old(self).pairs@[j],), false),
            None => forall|j: int| 0 <= j < old(self).pairs@.len() ==> call_ensures(f, (&#[trigger] old(self).pairs@[j],), false),
        }
    { unimplemented!() }
}
pub mod url { pub mod form_urlencoded {
    use vstd::prelude::*;
    #[verifier::external_body]
    pub fn parse<'a>(input: &'a str) -> (r: super::super::Parse<'a>) ensures super::super::pair_views(r.pairs@) == super::super::form_pairs(input@) { unimplemented!() }
} }

//@item iroh-relay/src/http.rs const AUTH_TOKEN_URL_QUERY_PARAM pub
//@item iroh-relay/src/server.rs struct ClientRequest keep=request pubfields

// ---- THE RULE of the property
pub open spec fn is_bearer(v: Seq<char>) -> Option<Seq<char>> {
    match split_once_spec(v, ' ') { Some((scheme, token)) => if eq_ic(scheme, "Bearer"@) { Some(token) } else { None }, None => None }
}
// scanning the Authorization headers from index i: Some(answer) if they decide the result, None if the search falls through
pub open spec fn header_scan(hs: Seq<HeaderValue>, i: int) -> Option<Option<Seq<char>>>
    decreases hs.len() - i
{
    if i < 0 || i >= hs.len() { None }
    else { match text_of(hs[i].bytes) {
        None => Some(None),                                   // malformed value: the search ends with no token
        Some(v) => match is_bearer(v) { Some(t) => Some(Some(t)), None => header_scan(hs, i + 1) },
    } }
}
// i is the first query pair named `token`
pub open spec fn is_first_token(qs: Seq<(Seq<char>, Seq<char>)>, i: int) -> bool {
    0 <= i < qs.len() && qs[i].0 == "token"@ && forall|j: int| 0 <= j < i ==> (#[trigger] qs[j]).0 != "token"@
}
pub open spec fn first_token_param(qs: Seq<(Seq<char>, Seq<char>)>) -> Option<Seq<char>> {
    if exists|i: int| is_first_token(qs, i) { Some(qs[choose|i: int| is_first_token(qs, i)].1) } else { None }
}
pub open spec fn token_rule(hs: Seq<HeaderValue>, query: Option<Seq<char>>) -> Option<Seq<char>> {
    match header_scan(hs, 0) {
        Some(answer) => answer,
        None => first_token_param(form_pairs(match query { Some(q) => q, None => ""@ })),
    }
}
pub open spec fn opt_view(o: Option<String>) -> Option<Seq<char>> { match o { Some(s) => Some(s@), None => None } }

// what Iterator::find with the predicate `name == "token"` returns is the first `token` pair
pub proof fn lemma_find_is_first(pairs: Seq<(Cow<'_>, Cow<'_>)>, r: Option<(Cow<'_>, Cow<'_>)>)
    requires match r {
        Some(p) => exists|i: int| 0 <= i < pairs.len() && p == pairs[i] && pairs[i].0@ == "token"@ && forall|j: int| 0 <= j < i ==> (#[trigger] pairs[j]).0@ != "token"@,
        None => forall|j: int| 0 <= j < pairs.len() ==> (#[trigger] pairs[j]).0@ != "token"@,
    }
    ensures (match r { Some(p) => Some(p.1@), None => None::<Seq<char>> }) == first_token_param(pair_views(pairs))
{
    let qs = pair_views(pairs);
    match r {
        Some(p) => {
            let i = choose|i: int| 0 <= i < pairs.len() && p == pairs[i] && pairs[i].0@ == "token"@ && forall|j: int| 0 <= j < i ==> (#[trigger] pairs[j]).0@ != "token"@;
            assert forall|j: int| 0 <= j < i implies (#[trigger] qs[j]).0 != "token"@ by { assert(pairs[j].0@ != "token"@); }
            assert(is_first_token(qs, i));
            let k = choose|k: int| is_first_token(qs, k);
            if k < i { assert(qs[k].0 != "token"@); } else if i < k { assert(qs[i].0 != "token"@); }
        }
        None => {
            assert forall|k: int| !is_first_token(qs, k) by { if 0 <= k < qs.len() { assert(pairs[k].0@ != "token"@); } }
        }
    }
}

impl ClientRequest {
//@fn iroh-relay/src/server.rs ClientRequest::query_pairs props=C12 ret=r
//@| ensures pair_views(r.pairs@) == form_pairs(match query_of(self.request.uri) { Some(q) => q, None => ""@ })
//@rw D5 1
//@- -> impl Iterator<Item = (Cow<'_, str>, Cow<'_, str>)>
//@+ -> Parse<'_>
//@rw R9 1
//@- url::form_urlencoded::parse(self.request.uri.query().unwrap_or("").as_bytes())
//@+ url::form_urlencoded::parse(self.request.uri.query().unwrap_or(""))
//@end

//@fn iroh-relay/src/server.rs ClientRequest::auth_token props=C12 ret=r letchains letelsecontinue bindtail=res_
//@| ensures opt_view(r) == token_rule(values_of(self.request.headers, AUTHORIZATION), query_of(self.request.uri))
//@rwx R27 1
//@- for (\w+) in self\.request\.headers\.get_all\(AUTHORIZATION\) \{
//@+ let hv_ = self.request.headers.get_all_list(AUTHORIZATION); for \1 in it: hv_.iter() {
//@loop 1
//@| invariant hv_@ == values_of(self.request.headers, AUTHORIZATION), header_scan(hv_@, 0) == header_scan(hv_@, it.index@ as int),
//@rwx R9 *
//@- (\w+)\.split_once\(('.')\)
//@+ str_split_once(\1, \2)
//@rwx R9 *
//@- (\w+)\.eq_ignore_ascii_case\(("[^"]*"|[A-Z_]+)\)
//@+ str_eq_ignore_ascii_case(\1, \2)
//@rwx R15 *
//@- \b(token|\w*token\w*)\.to_string\(\)
//@+ str_to_string(\1)
//@rwx R8 1
//@- self\.query_pairs\(\)\s*\.find\(
//@+ let mut qp_ = self.query_pairs(); let ghost qv_ = qp_.pairs@; let found_ = qp_.find(
//@rwx A3 *
//@- \.find\(\|\(name, _\)\| name (==|!=) ([A-Z_]+)\)
//@+ .find(|p_: &(Cow<'_>, Cow<'_>)| -> (b: bool) ensures b == cow_@OP(\1)_spec(p_.0@, \2@) { let name = &p_.0; cow_@OP(\1)_str(name, \2) })
//@rwx A3 *
//@- \)\s*\.map\(\|\(_, value\)\| (.+?)\)\n
//@+ ); proof { lemma_find_is_first(qv_, found_); } found_.map(|p_: (Cow<'_>, Cow<'_>)| -> (s: String) ensures s@ == p_.1@ { let value = p_.1; \1 })\n
//@atend
//@| proof {
//@|     let hs = values_of(self.request.headers, AUTHORIZATION);
//@|     let qs = form_pairs(match query_of(self.request.uri) { Some(q) => q, None => ""@ });
//@|     assert(header_scan(hs, 0) is None);
//@|     assert(opt_view(res_) == first_token_param(qs));
//@| }
//@end
}
} // verus!
fn main() {}
