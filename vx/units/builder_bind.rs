//@unit builder_bind props=C20
// C20 — the endpoint builder accepts bind addresses independent of order.
use vstd::prelude::*;
use vstd::std_specs::cmp::OrdSpec;
use vstd::std_specs::iter::IteratorSpec;
macro_rules! e {
    ($($err:tt)::+ { $($body:tt)* }) => { $($err)::+ { $($body)* } };
    ($($err:tt)::+) => { $($err)::+ {} };
}
macro_rules! bail { ($($t:tt)*) => { return Err(e!($($t)*)) }; }
// std's matches!
macro_rules! matches { ($e:expr, $p:pat) => { match $e { $p => true, _ => false } }; }
verus! {
//@include shims/std_wide.rs

// ---- Iterator::any over a slice iterator (design §2.1): assumed spec over an uninterpreted item sequence, tied to
// vstd's iterator model by one axiom (the only way around Verus' trait-cycle check that was found)
pub uninterp spec fn slice_iter_seq<'a, T>(it: core::slice::Iter<'a, T>) -> Seq<&'a T>;
pub assume_specification<'a, T, F: FnMut(&'a T) -> bool> [<core::slice::Iter<'a, T> as Iterator>::any] (it: &mut core::slice::Iter<'a, T>, f: F) -> (r: bool)
    where core::slice::Iter<'a, T>: Sized
    ensures
        r ==> exists|i: int| 0 <= i < slice_iter_seq(*old(it)).len() && call_ensures(f, (#[trigger] slice_iter_seq(*old(it))[i],), true),
        !r ==> forall|i: int| 0 <= i < slice_iter_seq(*old(it)).len() ==> call_ensures(f, (#[trigger] slice_iter_seq(*old(it))[i],), false);
#[verifier::external_body]
pub broadcast proof fn axiom_slice_iter_seq<'a, T>(it: core::slice::Iter<'a, T>)
    ensures #[trigger] slice_iter_seq(it) == it.remaining()
{}

// ---- std::net / ipnet shims
#[derive(Clone, Copy)]
pub struct Ipv4Addr { pub o: [u8; 4] }
#[derive(Clone, Copy)]
pub struct Ipv6Addr { pub o: [u8; 16] }
#[derive(Clone, Copy)]
pub struct SocketAddrV4 { pub ip: Ipv4Addr, pub port: u16 }
#[derive(Clone, Copy)]
pub struct SocketAddrV6 { pub ip: Ipv6Addr, pub port: u16, pub scope_id: u32 }
impl SocketAddrV4 {
    pub fn ip(&self) -> (r: &Ipv4Addr) ensures *r == self.ip { &self.ip }
    pub fn port(&self) -> (r: u16) ensures r == self.port { self.port }
}
impl SocketAddrV6 {
    pub fn ip(&self) -> (r: &Ipv6Addr) ensures *r == self.ip { &self.ip }
    pub fn port(&self) -> (r: u16) ensures r == self.port { self.port }
    pub fn scope_id(&self) -> (r: u32) ensures r == self.scope_id { self.scope_id }
}
#[derive(Clone, Copy)]
pub enum SocketAddr { V4(SocketAddrV4), V6(SocketAddrV6) }
pub struct PrefixLenError;
pub struct Ipv4Net { pub addr: Ipv4Addr, pub prefix_len: u8 }
pub struct Ipv6Net { pub addr: Ipv6Addr, pub prefix_len: u8 }
impl Ipv4Net {
    // ipnet: Err exactly when the prefix length exceeds 32
    #[verifier::external_body]
    pub fn new(ip: Ipv4Addr, prefix_len: u8) -> (r: Result<Ipv4Net, PrefixLenError>)
        ensures r is Ok <==> prefix_len <= 32, r matches Ok(n) ==> n.addr == ip && n.prefix_len == prefix_len
    { unimplemented!() }
}
impl Ipv6Net {
    #[verifier::external_body]
    pub fn new(ip: Ipv6Addr, prefix_len: u8) -> (r: Result<Ipv6Net, PrefixLenError>)
        ensures r is Ok <==> prefix_len <= 128, r matches Ok(n) ==> n.addr == ip && n.prefix_len == prefix_len
    { unimplemented!() }
}
pub trait ToSocketAddr {
    type Err;
    spec fn parses(&self) -> Option<SocketAddr>;
    fn to_socket_addr(&self) -> (r: Result<SocketAddr, Self::Err>)
        ensures r is Ok == self.parses() is Some, r matches Ok(a) ==> self.parses() == Some(a);
}
// the error enum of bind.rs without its foreign payloads (std::net::AddrParseError, Infallible)
pub enum InvalidSocketAddr { AddrParse, InvalidPrefixLength {}, Infallible, DuplicateDefaultAddr }
#[verifier::external_body]
pub fn into_invalid<E>(e: E) -> (r: InvalidSocketAddr) ensures r is AddrParse || r is Infallible { unimplemented!() }

//@item iroh/src/endpoint/bind.rs struct BindOpts pubfields derive=Clone
impl BindOpts {
//@fn iroh/src/endpoint/bind.rs BindOpts::prefix_len props=C20 ret=r
//@| ensures r == self.prefix_len
//@end
//@fn iroh/src/endpoint/bind.rs BindOpts::is_required props=C20 ret=r
//@| ensures r == self.is_required
//@end
//@fn iroh/src/endpoint/bind.rs BindOpts::is_default_route props=C20 ret=r
//@| ensures r == default_route(*self)
//@end
}
pub open spec fn default_route(o: BindOpts) -> bool {
    match o.is_default_route { Some(d) => d, None => o.prefix_len == 0 }
}

//@item iroh/src/socket/transports/ip.rs enum Config name=IpConfig
impl IpConfig {
//@fn iroh/src/socket/transports/ip.rs Config::is_ipv4 props=C20 ret=r
//@| ensures r == (*self is V4)
//@end
//@fn iroh/src/socket/transports/ip.rs Config::is_ipv6 props=C20 ret=r
//@| ensures r == (*self is V6)
//@end
//@fn iroh/src/socket/transports/ip.rs Config::is_default props=C20 ret=r
//@| ensures r == ip_is_default(*self)
//@end
}
pub open spec fn ip_is_default(c: IpConfig) -> bool {
    match c { IpConfig::V4 { is_default, .. } => is_default, IpConfig::V6 { is_default, .. } => is_default }
}
pub struct RelayMap; pub struct CustomTransport;
pub enum TransportConfig {
    Ip { config: IpConfig, is_user_defined: bool },
    Relay { relay_map: RelayMap, is_user_defined: bool },
    Custom(CustomTransport),
}
// a user-defined default-route socket of the given family
pub open spec fn user_default(t: TransportConfig, v4: bool) -> bool {
    t matches TransportConfig::Ip { config, is_user_defined } && is_user_defined && ip_is_default(config) && (config is V4) == v4
}
impl TransportConfig {
//@fn iroh/src/socket/transports.rs TransportConfig::is_ipv4_default props=C20 ret=r
//@| ensures r == (*self matches TransportConfig::Ip { config, .. } && ip_is_default(config) && config is V4)
//@end
//@fn iroh/src/socket/transports.rs TransportConfig::is_ipv6_default props=C20 ret=r
//@| ensures r == (*self matches TransportConfig::Ip { config, .. } && ip_is_default(config) && config is V6)
//@end
//@fn iroh/src/socket/transports.rs TransportConfig::is_user_defined props=C20 ret=r
//@| ensures r == (match *self { TransportConfig::Ip { is_user_defined, .. } => is_user_defined, TransportConfig::Relay { is_user_defined, .. } => is_user_defined, TransportConfig::Custom(_) => true })
//@end
}

//@item iroh/src/endpoint.rs struct Builder keep=transports pubfields

pub open spec fn has_user_default(ts: Seq<TransportConfig>, v4: bool) -> bool {
    exists|i: int| 0 <= i < ts.len() && user_default(#[trigger] ts[i], v4)
}
pub open spec fn prefix_ok(addr: SocketAddr, opts: BindOpts) -> bool {
    match addr { SocketAddr::V4(_) => opts.prefix_len <= 32, SocketAddr::V6(_) => opts.prefix_len <= 128 }
}
// THE RULE of the property: a bind address is rejected exactly when it would be the second default route of its
// family, or its prefix length is invalid (or the address does not parse)
pub open spec fn rejected(ts: Seq<TransportConfig>, addr: SocketAddr, opts: BindOpts) -> bool {
    (default_route(opts) && has_user_default(ts, addr is V4)) || !prefix_ok(addr, opts)
}
pub open spec fn new_config(addr: SocketAddr, opts: BindOpts, t: TransportConfig) -> bool {
    t matches TransportConfig::Ip { config, is_user_defined } && is_user_defined && ip_is_default(config) == default_route(opts)
        && (config is V4) == (addr is V4)
}

impl Builder {
//@fn iroh/src/endpoint.rs Builder::bind_addr_with_opts props=C20 ret=r mutself
//@| ensures
//@|     addr.parses() is None ==> r is Err,
//@|     addr.parses() matches Some(a) ==> (r is Err <==> rejected(self.transports@, a, opts)),
//@|     addr.parses() matches Some(a) ==> (r matches Ok(b) ==> b.transports@.len() == self.transports@.len() + 1
//@|         && b.transports@.subrange(0, self.transports@.len() as int) == self.transports@
//@|         && new_config(a, opts, b.transports@[self.transports@.len() as int])),
//@rw A3 1
//@- .map_err(Into::into)?;
//@+ .map_err(|e: <A as ToSocketAddr>::Err| -> (o: InvalidSocketAddr) { into_invalid(e) })?;
//@rwx D2 1
//@-     where\n\s*A: ToSocketAddr,\n\s*<A as ToSocketAddr>::Err: Into<InvalidSocketAddr>,\n
//@+     where A: ToSocketAddr,\n
//@rwx R8 1
//@- (SocketAddr::V4\(addr\) => \{\s*)if ((?:[^{;]*?&&\s*)?)self\s*\.transports\s*\.iter\(\)\s*\.any\(\|t\| ([^\n]*?)\)\s*\{
//@+ \1let ghost ts0 = self.transports@; let mut it4 = self.transports.iter(); let ghost s4 = it4.remaining(); let c4 = it4.any(|t: &TransportConfig| -> (b: bool) ensures b == user_default(*t, true) { \3 }); proof { any_hint(ts0, s4, c4, true); } if \2 c4 {
//@rwx R8 1
//@- (SocketAddr::V6\(addr\) => \{\s*)if ((?:[^{;]*?&&\s*)?)self\s*\.transports\s*\.iter\(\)\s*\.any\(\|t\| ([^\n]*?)\)\s*\{
//@+ \1let ghost ts0 = self.transports@; let mut it6 = self.transports.iter(); let ghost s6 = it6.remaining(); let c6 = it6.any(|t: &TransportConfig| -> (b: bool) ensures b == user_default(*t, false) { \3 }); proof { any_hint(ts0, s6, c6, false); } if \2 c6 {
//@rwx R1 *
//@- \.map_err\(\|_\| e!
//@+ .map_err(|_w| e!
//@ins before 1
//@- let addr = addr.to_socket_addr()
//@| broadcast use axiom_slice_iter_seq;
//@end
}

// connects the iterator's item sequence with the vector (hint used at the two `any` call sites)
pub proof fn any_hint(ts: Seq<TransportConfig>, s: Seq<&TransportConfig>, c: bool, v4: bool)
    requires
        s.len() == ts.len(),
        forall|i: int| 0 <= i < ts.len() ==> *(#[trigger] s[i]) == ts[i],
        c ==> exists|i: int| 0 <= i < s.len() && user_default(*(#[trigger] s[i]), v4),
        !c ==> forall|i: int| 0 <= i < s.len() ==> !user_default(*(#[trigger] s[i]), v4),
    ensures c == has_user_default(ts, v4)
{
    if c {
        let i = choose|i: int| 0 <= i < s.len() && user_default(*(#[trigger] s[i]), v4);
        assert(user_default(ts[i], v4));
    } else {
        assert forall|i: int| 0 <= i < ts.len() implies !user_default(#[trigger] ts[i], v4) by { assert(*s[i] == ts[i]); }
    }
}

// ---- order independence.  A set of (address, options) pairs is accepted, whatever the order of the calls, exactly
// when all prefixes are valid and at most one per family is a default route.
pub open spec fn count_defaults(items: Seq<(SocketAddr, BindOpts)>, v4: bool) -> nat
    decreases items.len()
{
    if items.len() == 0 { 0 } else {
        count_defaults(items.drop_last(), v4) + (if default_route(items.last().1) && (items.last().0 is V4) == v4 { 1nat } else { 0nat })
    }
}
pub open spec fn all_prefix_ok(items: Seq<(SocketAddr, BindOpts)>) -> bool {
    forall|i: int| 0 <= i < items.len() ==> prefix_ok((#[trigger] items[i]).0, items[i].1)
}
// abstract state after accepting a sequence, starting from a builder without user-defined defaults
pub open spec fn accepts(items: Seq<(SocketAddr, BindOpts)>) -> bool
    decreases items.len()
{
    if items.len() == 0 { true } else {
        accepts(items.drop_last())
            && !((default_route(items.last().1) && count_defaults(items.drop_last(), items.last().0 is V4) > 0) || !prefix_ok(items.last().0, items.last().1))
    }
}
pub proof fn lemma_accepts_characterisation(items: Seq<(SocketAddr, BindOpts)>)  // [C20]
    ensures accepts(items) <==> (all_prefix_ok(items) && count_defaults(items, true) <= 1 && count_defaults(items, false) <= 1)
    decreases items.len()
{
    if items.len() > 0 {
        lemma_accepts_characterisation(items.drop_last());
        let pre = items.drop_last();
        assert forall|i: int| 0 <= i < pre.len() implies prefix_ok((#[trigger] pre[i]).0, pre[i].1) == prefix_ok(items[i].0, items[i].1) by { assert(pre[i] == items[i]); }
        if all_prefix_ok(items) { assert forall|i: int| 0 <= i < pre.len() implies prefix_ok((#[trigger] pre[i]).0, pre[i].1) by { assert(pre[i] == items[i]); } }
        if all_prefix_ok(pre) && prefix_ok(items.last().0, items.last().1) {
            assert forall|i: int| 0 <= i < items.len() implies prefix_ok((#[trigger] items[i]).0, items[i].1) by { if i < pre.len() { assert(pre[i] == items[i]); } }
        }
    }
}
// the characterisation only counts: it is invariant under swapping two neighbours, hence under any permutation
pub proof fn lemma_count_swap(items: Seq<(SocketAddr, BindOpts)>, a: (SocketAddr, BindOpts), b: (SocketAddr, BindOpts), v4: bool)  // [C20]
    ensures count_defaults(items.push(a).push(b), v4) == count_defaults(items.push(b).push(a), v4)
{
    assert(items.push(a).push(b).drop_last() =~= items.push(a));
    assert(items.push(b).push(a).drop_last() =~= items.push(b));
    assert(items.push(a).drop_last() =~= items);
    assert(items.push(b).drop_last() =~= items);
    assert(items.push(a).push(b).last() == b && items.push(a).last() == a);
    assert(items.push(b).push(a).last() == a && items.push(b).last() == b);
    let d = |x: (SocketAddr, BindOpts)| -> nat { if default_route(x.1) && (x.0 is V4) == v4 { 1nat } else { 0nat } };
    assert(count_defaults(items.push(a), v4) == count_defaults(items, v4) + d(a));
    assert(count_defaults(items.push(b), v4) == count_defaults(items, v4) + d(b));
    assert(count_defaults(items.push(a).push(b), v4) == count_defaults(items.push(a), v4) + d(b));
    assert(count_defaults(items.push(b).push(a), v4) == count_defaults(items.push(b), v4) + d(a));
}
} // verus!
fn main() {}
