//@unit dns_zone props=C36,C37
// C36 — the DNS server serves a zone only from packets signed by its key.
use vstd::prelude::*;
use vstd::std_specs::cmp::OrdSpec;
macro_rules! trace { ($($t:tt)*) => {}; }
macro_rules! debug { ($($t:tt)*) => {}; }
macro_rules! info { ($($t:tt)*) => {}; }
macro_rules! warn { ($($t:tt)*) => {}; }
macro_rules! format { ($($t:tt)*) => { fmt_any() }; }
macro_rules! e {
    ($($err:tt)::+ { $($body:tt)* }) => { $($err)::+ { $($body)* } };
    ($($err:tt)::+) => { $($err)::+ {} };
}
// std's matches!
macro_rules! matches { ($e:expr, $p:pat) => { match $e { $p => true, _ => false } }; }
verus! {
//@include shims/std_wide.rs
use std::sync::Arc;
#[verifier::external_body] pub fn fmt_any() -> String { unimplemented!() }

// ---- property vocabulary: a signed packet (unit signed_packet, C32/C37) seen from outside
pub struct PublicKey { pub b: [u8; 32] }
pub struct KeyParsingError;
#[verifier::external] impl core::fmt::Display for KeyParsingError { fn fmt(&self, f: &mut core::fmt::Formatter<'_>) -> core::fmt::Result { Ok(()) } }
pub uninterp spec fn z32_decode(s: Seq<char>) -> Option<Seq<u8>>;
pub uninterp spec fn z32_of(k: Seq<u8>) -> Seq<char>;
impl PublicKey {
    #[verifier::external_body]
    pub fn from_z32(s: &str) -> (r: Result<PublicKey, KeyParsingError>)
        ensures match r { Ok(k) => z32_decode(s@) == Some(k.b@), Err(_) => true }
    { unimplemented!() }
    #[verifier::external_body]
    pub fn as_bytes(&self) -> (r: &[u8; 32]) ensures r@ == self.b@ { unimplemented!() }
    #[verifier::external_body]
    pub fn to_z32(&self) -> (r: String) ensures r@ == z32_of(self.b@) { unimplemented!() }
}
#[derive(Clone, Copy)]
pub struct Timestamp { pub t: u64 }
impl PartialEq for Timestamp { #[verifier::external_body] fn eq(&self, o: &Self) -> bool { unimplemented!() } }
impl vstd::std_specs::cmp::PartialEqSpecImpl for Timestamp {
    open spec fn obeys_eq_spec() -> bool { true }
    open spec fn eq_spec(&self, o: &Self) -> bool { self.t == o.t }
}
impl PartialOrd for Timestamp { #[verifier::external_body] fn partial_cmp(&self, o: &Self) -> Option<core::cmp::Ordering> { unimplemented!() } }
impl vstd::std_specs::cmp::PartialOrdSpecImpl for Timestamp {
    open spec fn obeys_partial_cmp_spec() -> bool { true }
    open spec fn partial_cmp_spec(&self, o: &Self) -> Option<core::cmp::Ordering> {
        if self.t < o.t { Some(core::cmp::Ordering::Less) } else if self.t == o.t { Some(core::cmp::Ordering::Equal) } else { Some(core::cmp::Ordering::Greater) }
    }
}
pub struct SignedPacketVerifyError;
#[verifier::external] impl core::fmt::Display for SignedPacketVerifyError { fn fmt(&self, f: &mut core::fmt::Formatter<'_>) -> core::fmt::Result { Ok(()) } }
// the packet: its key, whether its signature was VERIFIED for that key, timestamp, DNS payload
pub struct SignedPacket { pub key: [u8; 32], pub verified: bool, pub ts: Timestamp, pub payload: Seq<u8> }
pub struct Bytes { pub id: int }
impl SignedPacket {
    // contract proved in unit signed_packet (same source function): Ok only for a payload whose signature verifies under
    // the GIVEN key, and the packet then carries that key
    #[verifier::external_body]
    pub fn from_relay_payload(public_key: &PublicKey, payload: &Bytes) -> (r: Result<SignedPacket, SignedPacketVerifyError>)
        ensures r matches Ok(p) ==> p.key@ == public_key.b@ && p.verified
    { unimplemented!() }
    #[verifier::external_body]
    pub fn public_key(&self) -> (r: PublicKey) ensures r.b@ == self.key@ { unimplemented!() }
    #[verifier::external_body]
    pub fn timestamp(&self) -> (r: Timestamp) ensures r == self.ts { unimplemented!() }
}

// ---- trusted shims: http status / app error
pub struct StatusCode(pub u16);
impl StatusCode { pub const BAD_REQUEST: StatusCode = StatusCode(400); pub const NO_CONTENT: StatusCode = StatusCode(204); }
pub struct AppError { pub status: u16 }
impl AppError {
    #[verifier::external_body]
    pub fn new(status_code: StatusCode, message: Option<String>) -> (r: AppError) ensures r.status == status_code.0 { unimplemented!() }
}
pub struct AnyError;
impl From<AnyError> for AppError { #[verifier::external_body] fn from(e: AnyError) -> AppError { unimplemented!() } }
pub type Result<T, E = AnyError> = core::result::Result<T, E>;
pub struct ProtoError;
#[verifier::external_body] pub fn proto_to_any(e: ProtoError) -> AnyError { unimplemented!() }
// rule R9: `key.get(..10).unwrap_or(&key)` (a log label)
#[verifier::external_body] pub fn str_label(s: &String) -> String { unimplemented!() }

//@item iroh-dns-server/src/util.rs struct PublicKeyBytes derive=Clone,Copy pubfields pub
impl PublicKeyBytes {
//@fn iroh-dns-server/src/util.rs PublicKeyBytes::from_signed_packet props=C36 ret=r
//@| ensures r.0@ == packet.key@
//@end
    #[verifier::external_body] pub fn to_z32(self) -> String { unimplemented!() }
}

// ---- the persistent packet store (unit packet_store, C37): only VERIFIED packets may be handed to it, it files a packet
// under the packet's own key
pub struct SignedPacketStore { pub id: int }
// "p is the packet the store holds for its key" (the newest published one: unit packet_store proves the store keeps the
// maximum).  A fact about the moment the store answered; later publishes invalidate the cache themselves.
pub uninterp spec fn stored_newest(p: SignedPacket) -> bool;
impl SignedPacketStore {
    // Ok(true) exactly when the packet became the stored one (contract of the store actor's upsert arm, unit packet_store)
    #[verifier::external_body]
    pub async fn upsert(&self, packet: SignedPacket) -> (r: Result<bool>)
        requires packet.verified   // [C36] nothing unverified is ever stored
        ensures r matches Ok(true) ==> stored_newest(packet)
    { unimplemented!() }
    #[verifier::external_body]
    pub async fn get(&self, key: &PublicKeyBytes) -> (r: Result<Option<SignedPacket>>)
        ensures r matches Ok(Some(p)) ==> stored_newest(p) && p.key@ == key.0@ && p.verified
    { unimplemented!() }
}
impl Clone for SignedPacket { #[verifier::external_body] fn clone(&self) -> (r: SignedPacket) ensures r == *self { unimplemented!() } }
pub struct Counter;
impl Counter { #[verifier::external_body] pub fn inc(&self) -> u64 { unimplemented!() } }
pub struct Gauge;
impl Gauge { #[verifier::external_body] pub fn set(&self, v: i64) -> i64 { unimplemented!() } }
pub struct Metrics { pub pkarr_publish_update: Counter, pub pkarr_publish_noop: Counter, pub cache_zones: Gauge, pub cache_zones_dht: Gauge }
//@item iroh-dns-server/src/store.rs enum PacketSource

// ---- hickory types (opaque) and the zone built from a packet
pub struct Name { pub id: int }
#[derive(Clone, Copy)]
pub struct RecordType { pub id: u16 }
pub struct RecordSet { pub id: int }
pub struct RrKey { pub id: int }
pub struct Label { pub id: int }
// the records served for a packet: a function of the packet (computed by signed_packet_to_hickory_records_without_origin)
pub struct ZoneRecords { pub id: int }
pub uninterp spec fn records_of(p: SignedPacket) -> ZoneRecords;
impl ZoneRecords {
    #[verifier::external_body]
    pub fn get_cloned(&self, name: &Name, record_type: RecordType) -> Option<Arc<RecordSet>> { unimplemented!() }
}
// the zone/type filter of util.rs with the trivial record filter, as used by the cache
#[verifier::external_body]
pub fn signed_packet_to_hickory_records_without_origin_all(signed_packet: &SignedPacket) -> (r: core::result::Result<(Label, ZoneRecords), ProtoError>)
    ensures r matches Ok((_, z)) ==> z == records_of(*signed_packet)
{ unimplemented!() }
pub struct CachedZone { pub timestamp: Timestamp, pub records: ZoneRecords }
// a cached zone is "for key k" if it was built from a packet carrying key k
pub open spec fn zone_for(z: CachedZone, k: Seq<u8>) -> bool {
    exists|p: SignedPacket| p.key@ == k && #[trigger] records_of(p) == z.records && z.timestamp == p.ts
}

impl CachedZone {
//@fn iroh-dns-server/src/store.rs CachedZone::from_signed_packet props=C36 ret=r
//@| ensures r matches Ok(z) ==> z.records == records_of(*signed_packet) && z.timestamp == signed_packet.ts
//@rwx R9 1
//@- signed_packet_to_hickory_records_without_origin\(signed_packet, \|_\| true\)
//@+ signed_packet_to_hickory_records_without_origin_all(signed_packet)
//@end
//@fn iroh-dns-server/src/store.rs CachedZone::is_newer_than props=C36 ret=r
//@| ensures r == (self.timestamp.t > signed_packet.ts.t)
//@end
//@fn iroh-dns-server/src/store.rs CachedZone::resolve props=C36 ret=r
//@rw R9 1
//@- let key = RrKey::new(name.into(), record_type);
//@+
//@rw R9 1
//@- self.records.get(&key).cloned()
//@+ self.records.get_cloned(name, record_type)
//@end
}

// ---- lru / ttl caches viewed as maps from key bytes to zones
#[verifier::external_body]
#[verifier::reject_recursive_types(K)]
#[verifier::reject_recursive_types(V)]
pub struct LruCache<K, V> { _p: core::marker::PhantomData<(K, V)> }
impl LruCache<PublicKeyBytes, CachedZone> {
    pub uninterp spec fn view(&self) -> Map<Seq<u8>, CachedZone>;
    #[verifier::external_body]
    pub fn get(&mut self, k: &PublicKeyBytes) -> (r: Option<&CachedZone>)
        ensures final(self)@ == old(self)@, match r { Some(z) => old(self)@.contains_key(k.0@) && *z == old(self)@[k.0@], None => !old(self)@.contains_key(k.0@) }
    { unimplemented!() }
    #[verifier::external_body]
    pub fn peek(&self, k: &PublicKeyBytes) -> (r: Option<&CachedZone>)
        ensures match r { Some(z) => self@.contains_key(k.0@) && *z == self@[k.0@], None => !self@.contains_key(k.0@) }
    { unimplemented!() }
    // put may evict OTHER entries (capacity) but only ever adds the given one
    #[verifier::external_body]
    pub fn put(&mut self, k: PublicKeyBytes, v: CachedZone) -> (r: Option<CachedZone>)
        ensures final(self)@.contains_key(k.0@) && final(self)@[k.0@] == v,
                forall|o: Seq<u8>| o != k.0@ && #[trigger] final(self)@.contains_key(o) ==> old(self)@.contains_key(o) && final(self)@[o] == old(self)@[o]
    { unimplemented!() }
    #[verifier::external_body]
    pub fn pop(&mut self, k: &PublicKeyBytes) -> (r: Option<CachedZone>) ensures final(self)@ == old(self)@.remove(k.0@) { unimplemented!() }
    #[verifier::external_body]
    pub fn len(&self) -> usize { unimplemented!() }
}
#[verifier::external_body]
#[verifier::reject_recursive_types(K)]
#[verifier::reject_recursive_types(V)]
pub struct TtlCache<K, V> { _p: core::marker::PhantomData<(K, V)> }
pub struct Duration { pub s: u64 }
impl TtlCache<PublicKeyBytes, CachedZone> {
    pub uninterp spec fn view(&self) -> Map<Seq<u8>, CachedZone>;
    #[verifier::external_body]
    pub fn get(&self, k: &PublicKeyBytes) -> (r: Option<&CachedZone>)
        ensures match r { Some(z) => self@.contains_key(k.0@) && *z == self@[k.0@], None => true }   // (entries also expire)
    { unimplemented!() }
    #[verifier::external_body]
    pub fn insert(&mut self, k: PublicKeyBytes, v: CachedZone, ttl: Duration) -> (r: Option<CachedZone>)
        ensures final(self)@.contains_key(k.0@) && final(self)@[k.0@] == v,
                forall|o: Seq<u8>| o != k.0@ && #[trigger] final(self)@.contains_key(o) ==> old(self)@.contains_key(o) && final(self)@[o] == old(self)@[o]
    { unimplemented!() }
    #[verifier::external_body]
    pub fn remove(&mut self, k: &PublicKeyBytes) -> (r: Option<CachedZone>) ensures final(self)@ == old(self)@.remove(k.0@) { unimplemented!() }
    #[verifier::external_body]
    pub fn count(&self) -> usize { unimplemented!() }
}
pub exec const DHT_CACHE_TTL: Duration ensures true { Duration { s: 300 } }
//@item iroh-dns-server/src/store.rs struct ZoneCache pubfields pub

impl ZoneCache {
    // representation invariant: whatever is cached under key k was built from a packet carrying key k
    pub open spec fn wf(&self) -> bool {
        &&& forall|k: Seq<u8>| #[trigger] self.cache@.contains_key(k) ==> zone_for(self.cache@[k], k)
        &&& forall|k: Seq<u8>| #[trigger] self.dht_cache@.contains_key(k) ==> zone_for(self.dht_cache@[k], k)
    }
//@fn iroh-dns-server/src/store.rs ZoneCache::insert props=C36,C37 ret=r
//@| requires old(self).wf(),
//@|     stored_newest(*signed_packet),   // [C37] the answer cache is only ever filled with the packet the store currently holds
//@| ensures
//@|     final(self).wf(), final(self).dht_cache@ == old(self).dht_cache@,
//@|     // publishing/caching under K never touches what is cached for any other key
//@|     forall|o: Seq<u8>| o != signed_packet.key@ && #[trigger] final(self).cache@.contains_key(o) ==> old(self).cache@.contains_key(o) && final(self).cache@[o] == old(self).cache@[o],
//@rwx A3 1
//@- \.map\(\|old\| (.+?)\)\n
//@+ .map(|old: &CachedZone| -> (b: bool) { \1 })\n
//@rwx R8 1
//@- self\.cache\.put\(\s*pubkey,\s*CachedZone::from_signed_packet\(signed_packet\)\.anyerr\(\)\?,\s*\);
//@+ let zone_ = CachedZone::from_signed_packet(signed_packet).map_err(|e_: ProtoError| -> (o: AnyError) { proto_to_any(e_) })?; self.cache.put(pubkey, zone_);
//@end
//@fn iroh-dns-server/src/store.rs ZoneCache::remove props=C36
//@| requires old(self).wf()
//@| ensures final(self).wf(),
//@|     forall|o: Seq<u8>| o != pubkey.0@ ==> (#[trigger] final(self).cache@.contains_key(o) == old(self).cache@.contains_key(o) && (final(self).cache@.contains_key(o) ==> final(self).cache@[o] == old(self).cache@[o])),
//@rw R27 1
//@- .set(self.dht_cache.iter().count() as i64);
//@+ .set(self.dht_cache.count() as i64);
//@end
//@fn iroh-dns-server/src/store.rs ZoneCache::resolve props=C36 ret=r
//@| requires old(self).wf()
//@| ensures final(self).wf(), final(self).cache@ == old(self).cache@, final(self).dht_cache@ == old(self).dht_cache@,
//@end
//@fn iroh-dns-server/src/store.rs ZoneCache::insert_and_resolve props=C36,C37 ret=r
//@| requires old(self).wf(),
//@|     stored_newest(*signed_packet),   // [C37]
//@| ensures final(self).wf()
//@end
//@fn iroh-dns-server/src/store.rs ZoneCache::insert_and_resolve_dht props=C36 ret=r
//@| requires old(self).wf()
//@| ensures final(self).wf()
//@rwx R9 *
//@- CachedZone::from_signed_packet\(signed_packet\)\.anyerr\(\)\?
//@+ CachedZone::from_signed_packet(signed_packet).map_err(|e_: ProtoError| -> (o: AnyError) { proto_to_any(e_) })?
//@rw R27 1
//@- .set(self.dht_cache.iter().count() as i64);
//@+ .set(self.dht_cache.count() as i64);
//@end
}

// ---- tokio Mutex around the cache: what a critical section finds satisfies the invariant and must leave it so
pub struct Mutex<T> { pub t: T }
#[verifier::external_body]
pub struct CacheGuard<'a> { g: core::marker::PhantomData<&'a mut ZoneCache> }
impl<'a> CacheGuard<'a> { pub uninterp spec fn st(&self) -> ZoneCache; }
// the guard dereferences to the protected cache: every ZoneCache method called through it is checked against its contract
impl<'a> core::ops::Deref for CacheGuard<'a> {
    type Target = ZoneCache;
    #[verifier::external_body]
    fn deref(&self) -> (r: &ZoneCache) ensures *r == self.st() { unimplemented!() }
}
impl<'a> core::ops::DerefMut for CacheGuard<'a> {
    #[verifier::external_body]
    fn deref_mut(&mut self) -> (r: &mut ZoneCache) ensures *r == old(self).st(), final(self).st() == *final(r) { unimplemented!() }
}
impl Mutex<ZoneCache> {
    // what a critical section finds satisfies the cache invariant (every section is checked to leave it so: wf is a
    // postcondition of every &mut method of ZoneCache)
    #[verifier::external_body]
    pub async fn lock<'a>(&'a self) -> (r: CacheGuard<'a>) ensures r.st().wf() { unimplemented!() }
}
pub struct Dht;
//@item iroh-dns-server/src/store.rs struct ZoneStore pubfields pub
impl ZoneStore {
//@fn iroh-dns-server/src/store.rs ZoneStore::insert props=C36,C37 ret=r
//@| requires signed_packet.verified   // [C36] only verified packets are ever stored or served
//@end
}

// ---- the publish endpoint (http/pkarr.rs)
pub struct AppState { pub store: ZoneStore }
//@fn iroh-dns-server/src/http/pkarr.rs put props=C36 ret=r
//@| ensures
//@|     // a body is handed to the store only after its signature was verified for THE KEY IN THE REQUEST PATH; everything
//@|     // else is rejected with 400 before the store is touched (ZoneStore::insert requires a verified packet)
//@|     z32_decode(key@) is None ==> r is Err,
//@rw D5 1
//@- State(state): State<AppState>,
//@+ state: AppState,
//@rw D5 1
//@- Path(key): Path<String>,
//@+ key: String,
//@rw D5 1
//@- Result<impl IntoResponse, AppError>
//@+ core::result::Result<StatusCode, AppError>
//@rw R9 *
//@- key.get(..10).unwrap_or(&key)
//@+ str_label(&key)
//@end
} // verus!
fn main() {}
