//@unit base_keys props=C02
// C02 (reduced scope) — key parsing is total and public keys are only ever accepted if they are valid curve points.
use vstd::prelude::*;
use vstd::std_specs::cmp::OrdSpec;
macro_rules! e {
    ($($err:tt)::+ { $($body:tt)* }) => { $($err)::+ { $($body)* } };
    ($($err:tt)::+) => { $($err)::+ {} };
}
macro_rules! ensure { ($cond:expr, $($t:tt)*) => { if !$cond { return Err(e!($($t)*)); } }; }
verus! {
//@include shims/std_wide.rs
//@item iroh-base/src/key.rs enum KeyParsingError
pub struct SignatureError {}
impl SignatureError { #[verifier::external_body] pub fn new() -> SignatureError { unimplemented!() } }

// ---- trusted shim: the part of serde's data model the key (de)serializers use.  Deserializing a std type yields ANY
// value of that type (the adversary chooses the bytes); a deserializer error type can be built from any message.
pub mod serde {
    use vstd::prelude::*;
    pub mod de {
        pub trait Error: Sized { fn custom<T>(msg: T) -> Self; }
    }
    pub trait Deserializer<'de>: Sized {
        type Error: de::Error;
        fn is_human_readable(&self) -> bool;
    }
    pub trait Deserialize<'de>: Sized {
        fn deserialize<D: Deserializer<'de>>(deserializer: D) -> Result<Self, D::Error>;
    }
    impl<'de> Deserialize<'de> for String {
        #[verifier::external_body]
        fn deserialize<D: Deserializer<'de>>(deserializer: D) -> Result<Self, D::Error> { unimplemented!() }
    }
    impl<'de> Deserialize<'de> for [u8; 32] {
        #[verifier::external_body]
        fn deserialize<D: Deserializer<'de>>(deserializer: D) -> Result<Self, D::Error> { unimplemented!() }
    }
    // curve25519-dalek's own serde impl for CompressedEdwardsY reads 32 bytes and does NOT validate them
    impl<'de> Deserialize<'de> for super::CompressedEdwardsY {
        #[verifier::external_body]
        fn deserialize<D: Deserializer<'de>>(deserializer: D) -> Result<Self, D::Error> { unimplemented!() }
    }
    // ed25519-dalek's serde impl for VerifyingKey validates the point
    impl<'de> Deserialize<'de> for super::ed25519_dalek::VerifyingKey {
        #[verifier::external_body]
        fn deserialize<D: Deserializer<'de>>(deserializer: D) -> (r: Result<Self, D::Error>)
            ensures r matches Ok(k) ==> super::valid_point(k.b@)
        { unimplemented!() }
    }
}
use serde::Deserialize;
pub assume_specification<T, const N: usize> [<[T; N] as std::convert::AsRef<[T]>>::as_ref] (a: &[T; N]) -> (r: &[T]) ensures r@ == a@;

// ---- property-level predicates
pub uninterp spec fn valid_point(b: Seq<u8>) -> bool;                         // the 32 bytes decompress to a curve point
pub uninterp spec fn ed_valid(pk: Seq<u8>, msg: Seq<u8>, sig: Seq<u8>) -> bool;   // verify_strict accepts

// ---- trusted shims: ed25519_dalek / curve25519_dalek (same paths and names as the real crates)
// the secret seed; `pk_of` / `sig_of` are the (uninterpreted) public key derivation and signing functions
pub uninterp spec fn pk_of(seed: Seq<u8>) -> Seq<u8>;
pub uninterp spec fn sig_of(seed: Seq<u8>, msg: Seq<u8>) -> Seq<u8>;
// assumed about Ed25519 (dalek): derived public keys are valid points; an honest signature verifies (completeness)
pub broadcast axiom fn ed25519_axioms(seed: Seq<u8>, msg: Seq<u8>)
    ensures #[trigger] ed_valid(pk_of(seed), msg, sig_of(seed, msg)), valid_point(pk_of(seed));
pub mod ed25519_dalek {
    use vstd::prelude::*;
    use super::{valid_point, ed_valid, pk_of, sig_of};
    pub const PUBLIC_KEY_LENGTH: usize = 32;
    pub struct DalekError;
    #[verifier::external] impl core::fmt::Debug for DalekError { fn fmt(&self, f: &mut core::fmt::Formatter<'_>) -> core::fmt::Result { Ok(()) } }
    pub struct Signature { pub b: [u8; 64] }
    pub struct VerifyingKey { pub b: [u8; 32] }
    impl VerifyingKey {
        // the ONLY source of `valid_point` for untrusted bytes: dalek's point validation
        #[verifier::external_body]
        pub fn from_bytes(bytes: &[u8; 32]) -> (r: Result<VerifyingKey, DalekError>)
            ensures r is Ok <==> valid_point(bytes@), r matches Ok(k) ==> k.b@ == bytes@
        { unimplemented!() }
        #[verifier::external_body]
        pub fn try_from(bytes: &[u8]) -> (r: Result<VerifyingKey, DalekError>)
            ensures r is Ok <==> (bytes@.len() == 32 && valid_point(bytes@)), r matches Ok(k) ==> k.b@ == bytes@
        { unimplemented!() }
        #[verifier::external_body]
        pub fn to_bytes(&self) -> (r: [u8; 32]) ensures r@ == self.b@ { unimplemented!() }
        #[verifier::external_body]
        pub fn verify_strict(&self, message: &[u8], signature: &Signature) -> (r: Result<(), DalekError>)
            ensures r is Ok <==> ed_valid(self.b@, message@, signature.b@)
        { unimplemented!() }
        // the non-strict check accepts more (small-order / non-canonical encodings): it implies nothing about ed_valid
        #[verifier::external_body]
        pub fn verify(&self, message: &[u8], signature: &Signature) -> (r: Result<(), DalekError>) { unimplemented!() }
    }
    impl Signature {
        pub const BYTE_SIZE: usize = 64;
        #[verifier::external_body]
        pub fn from_slice(bytes: &[u8]) -> (r: Result<Signature, DalekError>)
            ensures r is Ok <==> bytes@.len() == 64, r matches Ok(s) ==> s.b@ == bytes@
        { unimplemented!() }
        #[verifier::external_body]
        pub fn from_bytes(bytes: &[u8; 64]) -> (r: Signature) ensures r.b@ == bytes@ { unimplemented!() }
        #[verifier::external_body]
        pub fn to_bytes(&self) -> (r: [u8; 64]) ensures r@ == self.b@ { unimplemented!() }
    }
    pub struct SigningKey { pub seed: [u8; 32] }
    impl SigningKey {
        #[verifier::external_body]
        pub fn from_bytes(bytes: &[u8; 32]) -> (r: SigningKey) ensures r.seed@ == bytes@ { unimplemented!() }
        #[verifier::external_body]
        pub fn to_bytes(&self) -> (r: [u8; 32]) ensures r@ == self.seed@ { unimplemented!() }
        #[verifier::external_body]
        pub fn verifying_key(&self) -> (r: VerifyingKey) ensures r.b@ == pk_of(self.seed@), valid_point(r.b@) { unimplemented!() }
        // ed25519_dalek::Signer::sign
        #[verifier::external_body]
        pub fn sign(&self, msg: &[u8]) -> (r: Signature) ensures r.b@ == sig_of(self.seed@, msg@) { unimplemented!() }
    }
}
use ed25519_dalek::{SigningKey, VerifyingKey};
pub struct CompressedEdwardsY(pub [u8; 32]);
impl CompressedEdwardsY {
    #[verifier::external_body]
    pub fn as_bytes(&self) -> (r: &[u8; 32]) ensures r@ == self.0@ { unimplemented!() }
}

//@item iroh-base/src/key.rs struct PublicKey pubfields
//@item iroh-base/src/key.rs struct SecretKey pubfields
//@item iroh-base/src/key.rs struct Signature pubfields
//@item iroh-base/src/key.rs struct SignatureParsingError
//@item iroh-base/src/key.rs struct PublicKeyShort pubfields pub

impl PublicKey {
//@item iroh-base/src/key.rs const PublicKey::LENGTH
    // type invariant of PublicKey: its bytes are a valid curve point (established by every constructor below)
    pub open spec fn wf(&self) -> bool { valid_point(self.0.0@) }

//@fn iroh-base/src/key.rs PublicKey::as_bytes props=C02 ret=r
//@| ensures r@ == self.0.0@
//@end
//@fn iroh-base/src/key.rs PublicKey::from_bytes props=C02 ret=r
//@| ensures r is Ok <==> valid_point(bytes@), r matches Ok(k) ==> k.wf() && k.0.0@ == bytes@
//@rwx R1 *
//@- \.map_err\(\|_\| e!
//@+ .map_err(|_w| e!
//@end
//@fn iroh-base/src/key.rs PublicKey::as_verifying_key props=C02 ret=r
//@| requires self.wf()     // discharges the expect("already verified")
//@| ensures r.b@ == self.0.0@
//@end
//@fn iroh-base/src/key.rs PublicKey::verify props=C02 ret=r
//@| requires self.wf()
//@| ensures r is Ok <==> ed_valid(self.0.0@, message@, signature.0.b@)
//@rwx R1 *
//@- \.map_err\(\|_\| SignatureError::new\(\)\)
//@+ .map_err(|_w| SignatureError::new())
//@end
//@fn iroh-base/src/key.rs PublicKey::from_verifying_key props=C02 ret=r
//@| requires valid_point(key.b@)
//@| ensures r.wf() && r.0.0@ == key.b@
//@end
//@fn iroh-base/src/key.rs TryFrom<&[u8]>@PublicKey::try_from props=C02 ret=r name=try_from_slice
//@| ensures r is Ok <==> (bytes@.len() == 32 && valid_point(bytes@)), r matches Ok(k) ==> k.wf() && k.0.0@ == bytes@
//@rw D5 1
//@- Result<Self, Self::Error>
//@+ Result<Self, KeyParsingError>
//@rwx R1 *
//@- \.map_err\(\|_\| e!
//@+ .map_err(|_w| e!
//@end
//@fn iroh-base/src/key.rs TryFrom<&[u8;32]>@PublicKey::try_from props=C02 ret=r name=try_from_array
//@| ensures r is Ok <==> valid_point(bytes@), r matches Ok(k) ==> k.wf() && k.0.0@ == bytes@
//@rw D5 1
//@- Result<Self, Self::Error>
//@+ Result<Self, KeyParsingError>
//@end
// FromStr for PublicKey: text -> bytes -> point validation
//@fn iroh-base/src/key.rs FromStr@PublicKey::from_str props=C02 ret=r
//@| ensures r matches Ok(k) ==> k.wf()
//@rw D5 1
//@- Result<Self, Self::Err>
//@+ Result<PublicKey, KeyParsingError>
//@end
// Deserialize for PublicKey (both the human-readable and the binary branch): whatever the deserializer produces, a
// key is accepted only through point validation
//@fn iroh-base/src/key.rs Deserialize@PublicKey::deserialize props=C02 ret=r
//@| ensures r matches Ok(k) ==> k.wf()
//@rw D5 1
//@- fn deserialize<D>(
//@+ fn deserialize<'de, D>(
//@rw D5 *
//@- Self::try_from(data.as_ref())
//@+ Self::try_from_slice(data.as_ref())
//@end
// z-base-32 text -> bytes -> point validation
//@fn iroh-base/src/key.rs PublicKey::from_z32 props=C02 ret=r
//@| ensures r matches Ok(k) ==> k.wf()
//@rw R9 1
//@- .decode(s.as_bytes())
//@+ .decode(str_as_bytes(s))
//@rwx R1 *
//@- \.map_err\(\|_\| e!
//@+ .map_err(|_w| e!
//@rw D5 *
//@- Self::try_from(bytes.as_slice())
//@+ Self::try_from_slice(bytes.as_slice())
//@end
// the 5-byte prefix used for short display: slice + array conversion never panic
//@fn iroh-base/src/key.rs PublicKey::fmt_short props=C02 ret=r
//@| ensures r.0@ == self.0.0@.subrange(0, 5)
//@rw D5 1
//@- -> impl Display + Copy + 'static
//@+ -> PublicKeyShort
//@rwx R12 1
//@- self\.0\.as_bytes\(\)\[0\.\.5\]\s*\.try_into\(\)
//@+ slice_try_into_arr::<5>(&self.0.as_bytes()[0..5])
//@end
}

impl SecretKey {
    pub open spec fn seed(&self) -> Seq<u8> { self.0.seed@ }
//@fn iroh-base/src/key.rs SecretKey::public props=C02 ret=r
//@| ensures r.wf(), r.0.0@ == pk_of(self.seed())
//@end
//@fn iroh-base/src/key.rs SecretKey::sign props=C02 ret=r
//@| ensures r.0.b@ == sig_of(self.seed(), msg@)
//@rw D1 1
//@- use ed25519_dalek::Signer;
//@+
//@end
//@fn iroh-base/src/key.rs SecretKey::to_bytes props=C02 ret=r
//@| ensures r@ == self.seed()
//@end
//@fn iroh-base/src/key.rs SecretKey::from_bytes props=C02 ret=r
//@| ensures r.seed() == bytes@
//@end
//@fn iroh-base/src/key.rs From<[u8;32]>@SecretKey::from props=C02 ret=r name=from_array
//@| ensures r.seed() == value@
//@end
//@fn iroh-base/src/key.rs TryFrom<&[u8]>@SecretKey::try_from props=C02 ret=r name=try_from_slice
//@| ensures r is Ok <==> bytes@.len() == 32, r matches Ok(k) ==> k.seed() == bytes@
//@rw D5 1
//@- Result<Self, Self::Error>
//@+ Result<Self, KeyParsingError>
//@rwx R12 1
//@- bytes\s*\.try_into\(\)
//@+ slice_try_into_arr::<32>(bytes)
//@rwx R1 *
//@- \.map_err\(\|_\| e!
//@+ .map_err(|_w| e!
//@end
//@fn iroh-base/src/key.rs FromStr@SecretKey::from_str props=C02 ret=r
//@| ensures true
//@rw D5 1
//@- Result<Self, Self::Err>
//@+ Result<SecretKey, KeyParsingError>
//@rw D5 *
//@- SecretKey::from(bytes)
//@+ SecretKey::from_array(bytes)
//@end
}

impl Signature {
//@item iroh-base/src/key.rs const Signature::LENGTH
//@fn iroh-base/src/key.rs Signature::to_bytes props=C02 ret=r
//@| ensures r@ == self.0.b@
//@end
//@fn iroh-base/src/key.rs Signature::from_bytes props=C02 ret=r
//@| ensures r.0.b@ == bytes@
//@end
//@fn iroh-base/src/key.rs TryFrom<&[u8]>@Signature::try_from props=C02 ret=r name=try_from_slice
//@| ensures r is Ok <==> bytes@.len() == 64, r matches Ok(s) ==> s.0.b@ == bytes@
//@rw D5 1
//@- Result<Self, Self::Error>
//@+ Result<Self, SignatureParsingError>
//@rwx R1 *
//@- \.map_err\(\|_\| e!
//@+ .map_err(|_w| e!
//@end
}

// ---- data_encoding (dependency contracts).  decode_mut PANICS unless the output length is exactly decode_len(input
// length): that documented panic condition is its precondition here.
pub mod data_encoding {
    use vstd::prelude::*;
    pub struct DecodeError;
    pub struct DecodePartial;
    pub enum Kind { Hex, Base32NoPad, ZBase32 }
    pub struct Encoding { pub kind: Kind }
    pub open spec fn decode_len_spec(kind: Kind, n: int) -> Option<int> {
        match kind {
            Kind::Hex => if n % 2 == 0 { Some(n / 2) } else { None },
            // unpadded base32: 8 chars per 5 bytes, trailing groups of 2,4,5,7 chars carry 1,2,3,4 bytes
            _ => if n % 8 == 0 || n % 8 == 2 || n % 8 == 4 || n % 8 == 5 || n % 8 == 7 { Some(n * 5 / 8) } else { None },
        }
    }
    pub const Z_BASE_32_SHIM: Encoding = Encoding { kind: Kind::ZBase32 };
    pub const HEXLOWER: Encoding = Encoding { kind: Kind::Hex };
    pub const BASE32_NOPAD: Encoding = Encoding { kind: Kind::Base32NoPad };
    impl Encoding {
        #[verifier::external_body]
        pub fn decode_mut(&self, input: &[u8], output: &mut [u8]) -> (r: Result<usize, DecodePartial>)
            requires decode_len_spec(self.kind, input@.len() as int) == Some(old(output)@.len() as int)   // documented panic otherwise
            ensures final(output)@.len() == old(output)@.len(), r matches Ok(n) ==> n == old(output)@.len()
        { unimplemented!() }
        // decode into a fresh Vec: any bytes, or an error
        #[verifier::external_body]
        pub fn decode(&self, input: &[u8]) -> (r: Result<Vec<u8>, DecodeError>) { unimplemented!() }
        // decode_len: the decoded length for an input length, Err for an impossible input length
        #[verifier::external_body]
        pub fn decode_len(&self, len: usize) -> (r: Result<usize, DecodeError>)
            ensures match decode_len_spec(self.kind, len as int) { Some(n) => r == Ok::<usize, DecodeError>(n as usize), None => r is Err }
        { unimplemented!() }
        // Result<usize, DecodeError> compared with `== Ok(n)` in the source: rule R11 redirects that comparison
        #[verifier::external_body]
        pub fn decode_len_is(&self, len: usize, expect: usize) -> (r: bool)
            ensures r == (decode_len_spec(self.kind, len as int) == Some(expect as int))
        { unimplemented!() }
    }
}
// `new_encoding!{ symbols: "ybndrfg8ejkmcpqxot1uwisza345h769" }` (z-base-32) is a proc macro of data-encoding-macro: shimmed
pub const Z_BASE_32: data_encoding::Encoding = data_encoding::Z_BASE_32_SHIM;
// rule R12: <[u8]>::try_into::<[u8; N]>() is Ok iff the lengths agree
pub struct TryFromSliceError;
#[verifier::external] impl core::fmt::Debug for TryFromSliceError { fn fmt(&self, f: &mut core::fmt::Formatter<'_>) -> core::fmt::Result { Ok(()) } }
#[verifier::external_body]
pub fn slice_try_into_arr<const N: usize>(s: &[u8]) -> (r: Result<[u8; N], TryFromSliceError>)
    ensures r is Ok <==> s@.len() == N, r matches Ok(a) ==> a@ == s@
{ unimplemented!() }
// str plumbing: byte length and ASCII upper-casing (length preserving)
#[verifier::external_body]
pub fn str_byte_len(s: &str) -> (r: usize) ensures r == str_bytes(s@).len(), r <= isize::MAX { unimplemented!() }
pub uninterp spec fn str_bytes(s: Seq<char>) -> Seq<u8>;
#[verifier::external_body]
pub fn str_as_bytes(s: &str) -> (r: &[u8]) ensures r@ == str_bytes(s@) { unimplemented!() }
#[verifier::external_body]
pub fn to_ascii_uppercase_bytes(s: &str) -> (r: Vec<u8>) ensures r@.len() == str_bytes(s@).len() { unimplemented!() }

//@fn iroh-base/src/key.rs decode_base32_hex props=C02 ret=r
//@| ensures
//@|     // total: no input makes it panic; Ok only for 64 hex characters or an unpadded base32 string of exactly 32 bytes
//@|     r is Ok ==> (str_bytes(s@).len() == 64 || data_encoding::decode_len_spec(data_encoding::Kind::Base32NoPad, str_bytes(s@).len() as int) == Some(32int)),
//@rwx R9 *
//@- \bs\.len\(\)
//@+ str_byte_len(s)
//@rw R9 *
//@- .decode_mut(s.as_bytes(), &mut bytes)
//@+ .decode_mut(str_as_bytes(s), &mut bytes)
//@rw R9 *
//@- let input = s.to_ascii_uppercase();
//@+ let input = to_ascii_uppercase_bytes(s);
//@rw R9 *
//@- let input = input.as_bytes();
//@+ let input = input.as_slice();
//@rw R11 *
//@- data_encoding::BASE32_NOPAD.decode_len(input.len()) == Ok(bytes.len()),
//@+ data_encoding::BASE32_NOPAD.decode_len_is(input.len(), bytes.len()),
//@rwx R1 *
//@- \.map_err\(\|_\| e!
//@+ .map_err(|_w| e!
//@end


// ---- property-level checks composed from the contracts only (callee bodies are not visible here)
// a signature made with a secret key verifies under its public key
pub fn check_sign_then_verify(sk: &SecretKey, msg: &[u8]) -> (r: Result<(), SignatureError>)   // [C02]
    ensures r is Ok
{
    broadcast use ed25519_axioms;
    let pk = sk.public();
    let sig = sk.sign(msg);
    pk.verify(msg, &sig)
}
// signature bytes round-trip: from_bytes(to_bytes(s)) carries the same 64 bytes, and parsing is total on slices
pub fn check_signature_roundtrip(s: &Signature) -> (r: Signature)   // [C02]
    ensures r.0.b@ == s.0.b@
{
    let b = s.to_bytes();
    Signature::from_bytes(&b)
}
// secret key bytes round-trip
pub fn check_secret_roundtrip(sk: &SecretKey) -> (r: SecretKey)   // [C02]
    ensures r.seed() == sk.seed()
{
    let b = sk.to_bytes();
    SecretKey::from_bytes(&b)
}
// public key bytes round-trip: the bytes of an accepted key are accepted again and give the same key
pub fn check_public_roundtrip(pk: &PublicKey) -> (r: Result<PublicKey, KeyParsingError>)   // [C02]
    requires pk.wf()
    ensures r matches Ok(k) && k.0.0@ == pk.0.0@
{
    PublicKey::from_bytes(pk.as_bytes())
}
} // verus!
fn main() {}
