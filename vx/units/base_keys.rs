//@unit base_keys props=C02
// C02 (reduced scope) — key parsing is total and public keys are only ever accepted if they are valid curve points.
use vstd::prelude::*;
use vstd::std_specs::cmp::OrdSpec;
macro_rules! e {
    ($($err:tt)::+ { $($body:tt)* }) => { $($err)::+ { $($body)* } };
    ($($err:tt)::+) => { $($err)::+ {} };
}
macro_rules! ensure { ($cond:expr, $($t:tt)*) => { if !$cond { return Err(e!($($t)*)); } }; }
verus! {
//@include shims/std_wide.rs
//@item iroh-base/src/key.rs enum KeyParsingError
pub struct SignatureError {}
impl SignatureError { #[verifier::external_body] pub fn new() -> SignatureError { unimplemented!() } }

// ---- property-level predicates
pub uninterp spec fn valid_point(b: Seq<u8>) -> bool;                         // the 32 bytes decompress to a curve point
pub uninterp spec fn ed_valid(pk: Seq<u8>, msg: Seq<u8>, sig: Seq<u8>) -> bool;   // verify_strict accepts

// ---- trusted shims: ed25519_dalek / curve25519_dalek
pub struct DalekError;
#[verifier::external] impl core::fmt::Debug for DalekError { fn fmt(&self, f: &mut core::fmt::Formatter<'_>) -> core::fmt::Result { Ok(()) } }
pub struct DalekSignature { pub b: [u8; 64] }
pub struct VerifyingKey { pub b: [u8; 32] }
impl VerifyingKey {
    // the ONLY source of `valid_point`: dalek's point validation
    #[verifier::external_body]
    pub fn from_bytes(bytes: &[u8; 32]) -> (r: Result<VerifyingKey, DalekError>)
        ensures r is Ok <==> valid_point(bytes@), r matches Ok(k) ==> k.b@ == bytes@
    { unimplemented!() }
    #[verifier::external_body]
    pub fn try_from(bytes: &[u8]) -> (r: Result<VerifyingKey, DalekError>)
        ensures r is Ok <==> (bytes@.len() == 32 && valid_point(bytes@)), r matches Ok(k) ==> k.b@ == bytes@
    { unimplemented!() }
    #[verifier::external_body]
    pub fn to_bytes(&self) -> (r: [u8; 32]) ensures r@ == self.b@ { unimplemented!() }
    #[verifier::external_body]
    pub fn verify_strict(&self, message: &[u8], signature: &DalekSignature) -> (r: Result<(), DalekError>)
        ensures r is Ok <==> ed_valid(self.b@, message@, signature.b@)
    { unimplemented!() }
}
pub struct CompressedEdwardsY(pub [u8; 32]);
impl CompressedEdwardsY {
    #[verifier::external_body]
    pub fn as_bytes(&self) -> (r: &[u8; 32]) ensures r@ == self.0@ { unimplemented!() }
}
pub struct Signature(pub DalekSignature);

//@item iroh-base/src/key.rs struct PublicKey pubfields

impl PublicKey {
    pub const LENGTH: usize = 32;
    // type invariant of PublicKey: its bytes are a valid curve point (established by every constructor below)
    pub open spec fn wf(&self) -> bool { valid_point(self.0.0@) }

//@fn iroh-base/src/key.rs PublicKey::as_bytes props=C02 ret=r
//@| ensures r@ == self.0.0@
//@end
//@fn iroh-base/src/key.rs PublicKey::from_bytes props=C02 ret=r
//@| ensures r is Ok <==> valid_point(bytes@), r matches Ok(k) ==> k.wf() && k.0.0@ == bytes@
//@rwx R1 1
//@- \.map_err\(\|_\| e!
//@+ .map_err(|_w| e!
//@end
//@fn iroh-base/src/key.rs PublicKey::as_verifying_key props=C02 ret=r
//@| requires self.wf()     // discharges the expect("already verified")
//@| ensures r.b@ == self.0.0@
//@end
//@fn iroh-base/src/key.rs PublicKey::verify props=C02 ret=r
//@| requires self.wf()
//@| ensures r is Ok <==> ed_valid(self.0.0@, message@, signature.0.b@)
//@rwx R1 1
//@- \.map_err\(\|_\| SignatureError::new\(\)\)
//@+ .map_err(|_w| SignatureError::new())
//@end
//@fn iroh-base/src/key.rs PublicKey::from_verifying_key props=C02 ret=r
//@| requires valid_point(key.b@)
//@| ensures r.wf() && r.0.0@ == key.b@
//@end
//@fn iroh-base/src/key.rs TryFrom<&[u8]>@PublicKey::try_from props=C02 ret=r name=try_from_slice
//@| ensures r is Ok <==> (bytes@.len() == 32 && valid_point(bytes@)), r matches Ok(k) ==> k.wf() && k.0.0@ == bytes@
//@rw D5 1
//@- Result<Self, Self::Error>
//@+ Result<Self, KeyParsingError>
//@rwx R1 1
//@- \.map_err\(\|_\| e!
//@+ .map_err(|_w| e!
//@end
//@fn iroh-base/src/key.rs TryFrom<&[u8;32]>@PublicKey::try_from props=C02 ret=r name=try_from_array
//@| ensures r is Ok <==> valid_point(bytes@), r matches Ok(k) ==> k.wf() && k.0.0@ == bytes@
//@rw D5 1
//@- Result<Self, Self::Error>
//@+ Result<Self, KeyParsingError>
//@end
}

// ---- data_encoding (dependency contracts).  decode_mut PANICS unless the output length is exactly decode_len(input
// length): that documented panic condition is its precondition here.
pub mod data_encoding {
    use vstd::prelude::*;
    pub struct DecodeError;
    pub struct DecodePartial;
    #[derive(Clone, Copy, PartialEq, Eq, Structural)]
    pub enum Kind { Hex, Base32NoPad, ZBase32 }
    pub struct Encoding { pub kind: Kind }
    pub open spec fn decode_len_spec(kind: Kind, n: int) -> Option<int> {
        match kind {
            Kind::Hex => if n % 2 == 0 { Some(n / 2) } else { None },
            // unpadded base32: 8 chars per 5 bytes, trailing groups of 2,4,5,7 chars carry 1,2,3,4 bytes
            _ => if n % 8 == 0 || n % 8 == 2 || n % 8 == 4 || n % 8 == 5 || n % 8 == 7 { Some(n * 5 / 8) } else { None },
        }
    }
    #[verifier::external_body]
    pub exec const HEXLOWER: Encoding ensures HEXLOWER.kind == Kind::Hex { Encoding { kind: Kind::Hex } }
    #[verifier::external_body]
    pub exec const BASE32_NOPAD: Encoding ensures BASE32_NOPAD.kind == Kind::Base32NoPad { Encoding { kind: Kind::Base32NoPad } }
    impl Encoding {
        #[verifier::external_body]
        pub fn decode_mut(&self, input: &[u8], output: &mut [u8]) -> (r: Result<usize, DecodePartial>)
            requires decode_len_spec(self.kind, input@.len() as int) == Some(old(output)@.len() as int)   // documented panic otherwise
            ensures final(output)@.len() == old(output)@.len(), r matches Ok(n) ==> n == old(output)@.len()
        { unimplemented!() }
        // Result<usize, DecodeError> compared with `== Ok(n)` in the source: rule R11 redirects that comparison
        #[verifier::external_body]
        pub fn decode_len_is(&self, len: usize, expect: usize) -> (r: bool)
            ensures r == (decode_len_spec(self.kind, len as int) == Some(expect as int))
        { unimplemented!() }
    }
}
// str plumbing: byte length and ASCII upper-casing (length preserving)
#[verifier::external_body]
pub fn str_byte_len(s: &str) -> (r: usize) ensures r == str_bytes(s@).len(), r <= isize::MAX { unimplemented!() }
pub uninterp spec fn str_bytes(s: Seq<char>) -> Seq<u8>;
#[verifier::external_body]
pub fn str_as_bytes(s: &str) -> (r: &[u8]) ensures r@ == str_bytes(s@) { unimplemented!() }
#[verifier::external_body]
pub fn to_ascii_uppercase_bytes(s: &str) -> (r: Vec<u8>) ensures r@.len() == str_bytes(s@).len() { unimplemented!() }

//@fn iroh-base/src/key.rs decode_base32_hex props=C02 ret=r
//@| ensures
//@|     // total: no input makes it panic; Ok only for 64 hex characters or an unpadded base32 string of exactly 32 bytes
//@|     r is Ok ==> (str_bytes(s@).len() == 64 || data_encoding::decode_len_spec(data_encoding::Kind::Base32NoPad, str_bytes(s@).len() as int) == Some(32int)),
//@rw R9 1
//@- s.len() == PublicKey::LENGTH * 2
//@+ str_byte_len(s) == PublicKey::LENGTH * 2
//@rw R9 1
//@- .decode_mut(s.as_bytes(), &mut bytes)
//@+ .decode_mut(str_as_bytes(s), bytes.as_mut_slice())
//@rw R9 1
//@- let input = s.to_ascii_uppercase();
//@+ let input = to_ascii_uppercase_bytes(s);
//@rw R9 1
//@- let input = input.as_bytes();
//@+ let input = input.as_slice();
//@rw R11 1
//@- data_encoding::BASE32_NOPAD.decode_len(input.len()) == Ok(bytes.len()),
//@+ data_encoding::BASE32_NOPAD.decode_len_is(input.len(), bytes.len()),
//@rw R9 1
//@- .decode_mut(input, &mut bytes)
//@+ .decode_mut(input, bytes.as_mut_slice())
//@rwx R1 2
//@- \.map_err\(\|_\| e!
//@+ .map_err(|_w| e!
//@end

// FromStr for PublicKey: text -> bytes -> point validation
//@fn iroh-base/src/key.rs FromStr@PublicKey::from_str props=C02 ret=r name=public_key_from_str
//@| ensures r matches Ok(k) ==> k.wf()
//@rw D5 1
//@- Result<Self, Self::Err>
//@+ Result<PublicKey, KeyParsingError>
//@rw D5 1
//@- Self::from_bytes(&bytes)
//@+ PublicKey::from_bytes(&bytes)
//@end
} // verus!
fn main() {}
