//@unit signed_packet props=C32,C37
// C32 — signed packets are accepted only if authentic and are safe to inspect.
// C37 (ordering part) — more_recent_than is a strict total order on (timestamp, payload).
use vstd::prelude::*;
use vstd::std_specs::cmp::OrdSpec;
macro_rules! e { ($($t:tt)*) => { mk_err() }; }
macro_rules! anyerr { ($($t:tt)*) => { () }; }
// the one format string of this file: decimal rendering of the two arguments between fixed literals
macro_rules! format { ("3:seqi{}e1:v{}:", $a:expr, $b:expr) => { fmt_signable_prefix($a, $b) }; }
verus! {
//@include shims/std_wide.rs
pub struct SignedPacketVerifyError;
#[verifier::external_body] pub fn mk_err() -> SignedPacketVerifyError { SignedPacketVerifyError }

//@item iroh-dns/src/pkarr.rs const MAX_DNS_PACKET_SIZE pub
//@item iroh-dns/src/pkarr.rs const HEADER_SIZE pub
//@item iroh-dns/src/pkarr.rs const MAX_SIGNED_PACKET_SIZE

// ---- property-level uninterpreted predicates
pub uninterp spec fn valid_point(b: Seq<u8>) -> bool;          // 32 bytes that decompress to a curve point
pub uninterp spec fn dns_parses(b: Seq<u8>) -> bool;           // simple_dns::Packet::parse succeeds
pub uninterp spec fn ed_valid(pk: Seq<u8>, msg: Seq<u8>, sig: Seq<u8>) -> bool;   // verify_strict accepts
// "3:seqi<a>e1:v<b>:" with a, b in decimal
pub uninterp spec fn sig_prefix(a: int, b: int) -> Seq<u8>;
// the signed message: bencoded (seq = timestamp, v = payload)
pub open spec fn signable_spec(ts: u64, v: Seq<u8>) -> Seq<u8> { sig_prefix(ts as int, v.len() as int) + v }
pub trait DecArg { spec fn dec(&self) -> int; }
impl DecArg for u64 { open spec fn dec(&self) -> int { *self as int } }
impl DecArg for i64 { open spec fn dec(&self) -> int { *self as int } }
impl DecArg for usize { open spec fn dec(&self) -> int { *self as int } }
impl DecArg for u32 { open spec fn dec(&self) -> int { *self as int } }
pub uninterp spec fn str_bytes(s: Seq<char>) -> Seq<u8>;
#[verifier::external_body]
pub fn fmt_signable_prefix<A: DecArg, B: DecArg>(a: A, b: B) -> (r: String) ensures str_bytes(r@) == sig_prefix(a.dec(), b.dec()) { unimplemented!() }
pub assume_specification [String::into_bytes] (s: String) -> (r: Vec<u8>) ensures r@ == str_bytes(s@);
pub uninterp spec fn be64(b: Seq<u8>) -> u64;                  // big-endian decoding of 8 bytes
pub broadcast axiom fn be64_injective(a: Seq<u8>, b: Seq<u8>)
    requires a.len() == 8, b.len() == 8
    ensures #[trigger] be64(a) == #[trigger] be64(b) ==> a == b;

// ---- trusted shims: iroh_base keys (dependency contracts)
pub struct KeyErr; pub struct SigErr; pub struct DnsErr;
#[verifier::external] impl core::fmt::Debug for KeyErr { fn fmt(&self, f: &mut core::fmt::Formatter<'_>) -> core::fmt::Result { Ok(()) } }
pub struct PublicKey { pub b: [u8; 32] }
impl<'a> TryFrom<&'a [u8]> for PublicKey {
    type Error = KeyErr;
    #[verifier::external_body]
    fn try_from(b: &'a [u8]) -> (r: Result<PublicKey, KeyErr>)
        ensures r is Ok <==> (b@.len() == 32 && valid_point(b@)), r matches Ok(k) ==> k.b@ == b@
    { unimplemented!() }
}
impl PublicKey {
    #[verifier::external_body]
    pub fn verify(&self, msg: &Vec<u8>, sig: &Signature) -> (r: Result<(), SigErr>)
        ensures r is Ok <==> ed_valid(self.b@, msg@, sig.b@)
    { unimplemented!() }
    #[verifier::external_body]
    pub fn as_bytes(&self) -> (r: &[u8; 32]) ensures r@ == self.b@ { unimplemented!() }
}
pub struct Signature { pub b: [u8; 64] }
impl Signature {
    #[verifier::external_body]
    pub fn from_bytes(b: &[u8; 64]) -> (r: Signature) ensures r.b@ == b@ { unimplemented!() }
}
//@fn iroh-dns/src/pkarr.rs signable props=C32 ret=r
//@| ensures r@ == signable_spec(timestamp, v@)
//@rw R18 1
//@- signable.extend(v);
//@+ signable.extend_from_slice(v);
//@end
pub struct Packet;
impl Packet {
    #[verifier::external_body]
    pub fn parse(b: &[u8]) -> (r: Result<Packet, DnsErr>) ensures r is Ok <==> dns_parses(b@) { unimplemented!() }
}
// rule R9: u64::from_be_bytes / to_be_bytes cannot be given an assume_specification (anonymous const length)
#[verifier::external_body]
pub fn u64_from_be_bytes(b: [u8; 8]) -> (r: u64) ensures r == be64(b@) { u64::from_be_bytes(b) }
#[verifier::external_body]
pub fn u64_to_be_bytes(x: u64) -> (r: [u8; 8]) ensures be64(r@) == x { x.to_be_bytes() }

#[verifier::external_type_specification]
#[verifier::external_body]
pub struct ExTryFromSliceError(core::array::TryFromSliceError);
// rule R12: `<[u8]>::try_into()` to an array (reference): std returns Ok exactly when the lengths agree.
// (vstd's TryFromSpecImpl cannot be implemented for std types here: orphan rule.)
#[verifier::external_body]
pub fn slice_try_into_ref<const N: usize>(s: &[u8]) -> (r: Result<&[u8; N], core::array::TryFromSliceError>)
    ensures r is Ok <==> s@.len() == N, r matches Ok(a) ==> a@ == s@
{ s.try_into() }
#[verifier::external_body]
pub fn slice_try_into_arr<const N: usize>(s: &[u8]) -> (r: Result<[u8; N], core::array::TryFromSliceError>)
    ensures r is Ok <==> s@.len() == N, r matches Ok(a) ==> a@ == s@
{ s.try_into() }
// a byte slice never has more than isize::MAX elements (Rust allocation invariant)
pub broadcast axiom fn slice_len_bound(s: &[u8])
    ensures #[trigger] s@.len() <= isize::MAX;

//@item iroh-dns/src/pkarr.rs struct Timestamp pubfields derive=Clone,Copy
//@include shims/timestamp_cmp.rs
impl Timestamp {
//@fn iroh-dns/src/pkarr.rs Timestamp::from_micros ret=r
//@| ensures r.0 == micros
//@end
//@fn iroh-dns/src/pkarr.rs Timestamp::as_micros ret=r
//@| ensures r == self.0
//@end
//@fn iroh-dns/src/pkarr.rs Timestamp::to_be_bytes ret=r
//@| ensures be64(r@) == self.0
//@rw R9 1
//@- self.0.to_be_bytes()
//@+ u64_to_be_bytes(self.0)
//@end
//@fn iroh-dns/src/pkarr.rs Timestamp::from_be_bytes ret=r
//@| ensures r.0 == be64(bytes@)
//@rw R9 1
//@- u64::from_be_bytes(bytes)
//@+ u64_from_be_bytes(bytes)
//@end
}

//@item iroh-dns/src/pkarr.rs struct SignedPacket pubfields

// lexicographic order on byte strings (what `<[u8] as Ord>` computes)
pub open spec fn lex_gt(a: Seq<u8>, b: Seq<u8>) -> bool
    decreases a.len()
{
    if a.len() == 0 { false }
    else if b.len() == 0 { true }
    else if a[0] != b[0] { a[0] > b[0] }
    else { lex_gt(a.subrange(1, a.len() as int), b.subrange(1, b.len() as int)) }
}
#[verifier::external_body]
pub fn slice_gt(a: &[u8], b: &[u8]) -> (r: bool) ensures r == lex_gt(a@, b@) { a > b }

impl SignedPacket {
    // representation invariant: established by every constructor, sufficient for every accessor
    pub open spec fn wf(&self) -> bool {
        &&& HEADER_SIZE <= self.bytes@.len() <= MAX_SIGNED_PACKET_SIZE
        &&& valid_point(self.bytes@.subrange(0, 32))
        &&& dns_parses(self.bytes@.subrange(104, self.bytes@.len() as int))
    }
    pub open spec fn ts(&self) -> u64 { be64(self.bytes@.subrange(96, 104)) }
    pub open spec fn payload(&self) -> Seq<u8> { self.bytes@.subrange(104, self.bytes@.len() as int) }
    pub open spec fn key(&self) -> Seq<u8> { self.bytes@.subrange(0, 32) }
    pub open spec fn sig(&self) -> Seq<u8> { self.bytes@.subrange(32, 96) }
    // authenticity: the signature by the embedded key over (timestamp, payload) verifies
    pub open spec fn authentic(&self) -> bool {
        ed_valid(self.key(), signable_spec(self.ts(), self.payload()), self.sig())
    }

//@fn iroh-dns/src/pkarr.rs SignedPacket::from_bytes props=C32 ret=r
//@| ensures
//@|     r matches Ok(p) ==> p.wf() && p.bytes@ == bytes@ && p.authentic(),
//@|     // accepted exactly when all checks pass: any modification of an accepted packet is a different input that must pass them again
//@|     r is Ok <==> (HEADER_SIZE <= bytes@.len() <= MAX_SIGNED_PACKET_SIZE && valid_point(bytes@.subrange(0, 32))
//@|         && ed_valid(bytes@.subrange(0, 32), signable_spec(be64(bytes@.subrange(96, 104)), bytes@.subrange(104, bytes@.len() as int)), bytes@.subrange(32, 96))
//@|         && dns_parses(bytes@.subrange(104, bytes@.len() as int))),
//@rw R9 1
//@- u64::from_be_bytes(
//@+ u64_from_be_bytes(
//@rw R12 1
//@- bytes[32..96].try_into()
//@+ slice_try_into_ref::<64>(&bytes[32..96])
//@rw R12 1
//@- bytes[96..104].try_into()
//@+ slice_try_into_arr::<8>(&bytes[96..104])
//@end

//@fn iroh-dns/src/pkarr.rs SignedPacket::from_relay_payload props=C32 ret=r
//@| ensures
//@|     r matches Ok(p) ==> p.wf() && p.authentic() && p.key() == public_key.b@ && p.bytes@ == public_key.b@ + payload@,
//@ins before 1
//@- let mut bytes = Vec::with_capacity(
//@| broadcast use slice_len_bound;
//@end

//@fn iroh-dns/src/pkarr.rs SignedPacket::from_bytes_unchecked props=C32 ret=r
//@| ensures
//@|     r matches Ok(p) ==> p.wf() && p.bytes@ == bytes@,
//@end

//@fn iroh-dns/src/pkarr.rs SignedPacket::from_parts_unchecked props=C32 ret=r
//@| ensures
//@|     r matches Ok(p) ==> p.wf(),
//@|     r matches Ok(p) ==> (public_key@.len() == 32 && signature@.len() == 64 ==>
//@|         p.key() == public_key@ && p.sig() == signature@ && p.ts() == timestamp.0 && p.payload() == encoded_packet@),
//@ins before 1
//@- let mut bytes = Vec::with_capacity(
//@| broadcast use slice_len_bound;
//@rw R8 1
//@- bytes.extend_from_slice(&timestamp.to_be_bytes());
//@+ let ts_bytes = timestamp.to_be_bytes(); bytes.extend_from_slice(&ts_bytes);
//@ins after 1
//@- bytes.extend_from_slice(encoded_packet);
//@| proof {
//@|     if public_key@.len() == 32 && signature@.len() == 64 {
//@|         assert(bytes@.subrange(0, 32) =~= public_key@);
//@|         assert(bytes@.subrange(32, 96) =~= signature@);
//@|         assert(bytes@.subrange(96, 104) =~= ts_bytes@);
//@|         assert(bytes@.subrange(104, bytes@.len() as int) =~= encoded_packet@);
//@|     }
//@| }
//@end

//@fn iroh-dns/src/pkarr.rs SignedPacket::as_bytes props=C32 ret=r
//@| ensures r@ == self.bytes@
//@end

//@fn iroh-dns/src/pkarr.rs SignedPacket::to_relay_payload props=C32 ret=r
//@| requires self.wf()
//@| ensures r@ == self.bytes@.subrange(32, self.bytes@.len() as int)
//@end

//@fn iroh-dns/src/pkarr.rs SignedPacket::public_key props=C32 ret=r
//@| requires self.wf()
//@| ensures r.b@ == self.key()
//@end

//@fn iroh-dns/src/pkarr.rs SignedPacket::signature props=C32 ret=r
//@| requires self.wf()
//@| ensures r.b@ == self.sig()
//@rwx R12 1
//@- self\.bytes\[32\.\.96\]\s*\.try_into\(\)
//@+ slice_try_into_ref::<64>(&self.bytes[32..96])
//@end

//@fn iroh-dns/src/pkarr.rs SignedPacket::timestamp props=C32,C37 ret=r
//@| requires self.wf()
//@| ensures r.0 == self.ts()
//@rwx R12 1
//@- self\.bytes\[96\.\.104\]\s*\.try_into\(\)
//@+ slice_try_into_arr::<8>(&self.bytes[96..104])
//@end

//@fn iroh-dns/src/pkarr.rs SignedPacket::encoded_packet props=C32,C37 ret=r
//@| requires self.wf()
//@| ensures r@ == self.payload()
//@end

//@fn iroh-dns/src/pkarr.rs SignedPacket::more_recent_than props=C37 ret=r
//@| requires self.wf(), other.wf()
//@| ensures r == newer(*self, *other)
//@rwx R11 *
//@- self\.encoded_packet\(\)\s*>\s*other\.encoded_packet\(\)
//@+ slice_gt(self.encoded_packet(), other.encoded_packet())
//@rwx R11 *
//@- self\.encoded_packet\(\)\s*>=\s*other\.encoded_packet\(\)
//@+ !slice_gt(other.encoded_packet(), self.encoded_packet())
//@rwx R11 *
//@- self\.encoded_packet\(\)\s*<\s*other\.encoded_packet\(\)
//@+ slice_gt(other.encoded_packet(), self.encoded_packet())
//@rwx R11 *
//@- self\.encoded_packet\(\)\s*<=\s*other\.encoded_packet\(\)
//@+ !slice_gt(self.encoded_packet(), other.encoded_packet())
//@end
}

// (timestamp, payload) lexicographic: the order the property names
pub open spec fn newer(a: SignedPacket, b: SignedPacket) -> bool {
    if a.ts() == b.ts() { lex_gt(a.payload(), b.payload()) } else { a.ts() > b.ts() }
}

// ---- lemmas: `newer` is a strict total order on (timestamp, payload)
pub proof fn lemma_lex_irreflexive(a: Seq<u8>)  // [C37]
    ensures !lex_gt(a, a)
    decreases a.len()
{
    if a.len() > 0 { lemma_lex_irreflexive(a.subrange(1, a.len() as int)); }
}
pub proof fn lemma_lex_total(a: Seq<u8>, b: Seq<u8>)  // [C37]
    ensures a != b ==> (lex_gt(a, b) || lex_gt(b, a)), !(lex_gt(a, b) && lex_gt(b, a))
    decreases a.len()
{
    if a.len() > 0 && b.len() > 0 && a[0] == b[0] {
        let a1 = a.subrange(1, a.len() as int);
        let b1 = b.subrange(1, b.len() as int);
        lemma_lex_total(a1, b1);
        if a1 == b1 {
            assert(a =~= seq![a[0]] + a1);
            assert(b =~= seq![b[0]] + b1);
        }
    } else if a.len() == 0 && b.len() == 0 {
        assert(a =~= b);
    }
}
pub proof fn lemma_lex_transitive(a: Seq<u8>, b: Seq<u8>, c: Seq<u8>)  // [C37]
    requires lex_gt(a, b), lex_gt(b, c)
    ensures lex_gt(a, c)
    decreases a.len()
{
    if a.len() > 0 && b.len() > 0 && c.len() > 0 && a[0] == b[0] && b[0] == c[0] {
        lemma_lex_transitive(a.subrange(1, a.len() as int), b.subrange(1, b.len() as int), c.subrange(1, c.len() as int));
    }
}
pub proof fn lemma_newer_strict_total_order(a: SignedPacket, b: SignedPacket, c: SignedPacket)  // [C37]
    ensures
        !newer(a, a),
        !(newer(a, b) && newer(b, a)),
        (a.ts() != b.ts() || a.payload() != b.payload()) ==> (newer(a, b) || newer(b, a)),
        newer(a, b) && newer(b, c) ==> newer(a, c),
{
    lemma_lex_irreflexive(a.payload());
    lemma_lex_total(a.payload(), b.payload());
    if newer(a, b) && newer(b, c) {
        if a.ts() == b.ts() && b.ts() == c.ts() { lemma_lex_transitive(a.payload(), b.payload(), c.payload()); }
    }
}
// negative transitivity (strict weak order): what the store's "keep unless the stored one is more recent" rule needs
pub proof fn lemma_newer_negatively_transitive(a: SignedPacket, b: SignedPacket, c: SignedPacket)  // [C37]
    requires !newer(a, b), !newer(b, c)
    ensures !newer(a, c)
{
    lemma_lex_total(a.payload(), b.payload());
    lemma_lex_total(b.payload(), c.payload());
    lemma_lex_total(a.payload(), c.payload());
    if newer(a, c) {
        if a.ts() == c.ts() {
            // then a.ts == b.ts == c.ts (else one of the hypotheses fails) and payloads: a > c, !(a > b), !(b > c)
            if a.payload() != b.payload() && b.payload() != c.payload() {
                lemma_lex_transitive(c.payload(), b.payload(), a.payload());
            }
        }
    }
}
// the maximum of a publish history is unique up to (timestamp, payload): keeping `newer` ones keeps the maximum
pub proof fn lemma_keep_newer_keeps_max(stored: SignedPacket, incoming: SignedPacket, other: SignedPacket)  // [C37]
    requires !newer(other, stored)
    ensures ({ let kept = if newer(incoming, stored) { incoming } else { stored }; !newer(other, kept) })
{
    lemma_newer_strict_total_order(other, incoming, stored);
    lemma_newer_strict_total_order(incoming, stored, other);
    lemma_lex_total(other.payload(), stored.payload());
    lemma_lex_total(incoming.payload(), stored.payload());
    lemma_lex_total(other.payload(), incoming.payload());
    if newer(incoming, stored) && newer(other, incoming) {
        lemma_newer_strict_total_order(other, incoming, stored);
    }
}
} // verus!
fn main() {}
