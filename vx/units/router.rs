//@unit router props=C40,C41
// C41 — Router::shutdown returns only after the run task (handler shutdowns, endpoint close) has finished.
// C40 (reduced) — handle_connection hands a connection only to the handler registered for the negotiated ALPN.
use vstd::prelude::*;
use vstd::std_specs::cmp::OrdSpec;
macro_rules! warn { ($($t:tt)*) => {}; }
macro_rules! debug { ($($t:tt)*) => {}; }
macro_rules! info_span { ($($t:tt)*) => { tracing::Span::current() }; }
verus! {
//@include shims/std_wide.rs
use std::sync::Arc;
// ---- futures of foreign async trait methods: the awaited value is any value of the type
#[verifier::external_body]
#[verifier::reject_recursive_types(T)]
pub struct Fut<T> { t: core::marker::PhantomData<T> }
#[verifier::external]
impl<T> core::future::Future for Fut<T> { type Output = T; fn poll(self: core::pin::Pin<&mut Self>, cx: &mut core::task::Context<'_>) -> core::task::Poll<T> { unimplemented!() } }

// ======== C41
pub mod n0_future { pub mod task { pub struct JoinError; } }
pub struct Endpoint;
// the spawned run task.  Its tail (quoted from RouterBuilder::spawn, not verified: it sits behind a select! loop) is:
//   protocols.shutdown().await; handler_cancel_token.cancel(); endpoint.close().await; ...join remaining tasks
// and its first statement arms `done_token.drop_guard()`, so the done token is cancelled only when the task has finished or was aborted.
pub uninterp spec fn run_finished(r: Router) -> bool;
pub struct AbortOnDropHandle<T> { pub id: int, pub t: core::marker::PhantomData<T> }
pub uninterp spec fn is_run_task_of(h: AbortOnDropHandle<()>, r: Router) -> bool;
pub uninterp spec fn done_token_of(t: CancellationToken, r: Router) -> bool;
pub uninterp spec fn task_slot_of(m: Mutex<Option<AbortOnDropHandle<()>>>, r: Router) -> bool;
// awaiting the handle: Ok means the task ran to completion
#[verifier::external_body]
pub async fn await_handle(h: AbortOnDropHandle<()>) -> (r: Result<(), n0_future::task::JoinError>)
    ensures r is Ok ==> forall|ro: Router| is_run_task_of(h, ro) ==> run_finished(ro)
{ unimplemented!() }
#[derive(Clone, Copy)]
pub struct CancellationToken { pub id: int }
impl CancellationToken {
    #[verifier::external_body]
    pub fn cancel(&self) { unimplemented!() }
    #[verifier::external_body]
    pub fn is_cancelled(&self) -> bool { unimplemented!() }
    // completes only once the token is cancelled; for the done token that is the end of the run task (see above)
    #[verifier::external_body]
    pub async fn cancelled(&self) -> (r: ())
        ensures forall|ro: Router| done_token_of(*self, ro) ==> run_finished(ro)
    { unimplemented!() }
}
pub struct PoisonError;
#[verifier::external] impl core::fmt::Debug for PoisonError { fn fmt(&self, f: &mut core::fmt::Formatter<'_>) -> core::fmt::Result { Ok(()) } }
pub struct Mutex<T> { pub t: T }
pub struct MutexGuard<'a> { pub m: &'a Mutex<Option<AbortOnDropHandle<()>>> }
impl Mutex<Option<AbortOnDropHandle<()>>> {
    // ASSUMPTION: the lock is not poisoned (a poisoned lock means another thread already panicked)
    #[verifier::external_body]
    pub fn lock<'a>(&'a self) -> (r: Result<MutexGuard<'a>, PoisonError>) ensures r matches Ok(g) && *g.m == *self { unimplemented!() }
}
impl<'a> MutexGuard<'a> {
    // Option::take through the guard: whatever handle is in the slot, if any, is the router's run task
    #[verifier::external_body]
    pub fn take(&mut self) -> (r: Option<AbortOnDropHandle<()>>)
        ensures r matches Some(h) ==> forall|ro: Router| task_slot_of(*old(self).m, ro) ==> is_run_task_of(h, ro)
    { unimplemented!() }
}
//@item iroh/src/protocol.rs struct Router pubfields
pub open spec fn router_wf(r: Router) -> bool {
    task_slot_of(*r.task, r) && done_token_of(r.done_token, r)
}

impl Router {
//@fn iroh/src/protocol.rs Router::is_shutdown props=C41 ret=r
//@end

//@fn iroh/src/protocol.rs Router::shutdown props=C41 ret=r
//@| requires router_wf(*self)
//@| ensures r is Ok ==> run_finished(*self)
//@rw R19 1
//@- task.await?;
//@+ await_handle(task).await?;
//@end
}

// ======== C40
pub struct Connecting; pub struct Connection; pub struct Accepting; pub struct AlpnError; pub struct AcceptError;
pub struct Incoming { pub id: int }   // ghost identity of one incoming connection attempt
impl Incoming {
    #[verifier::external_body]
    pub fn accept(self) -> (r: Result<Accepting, AcceptError>) { unimplemented!() }
}
pub uninterp spec fn negotiated(a: Accepting, alpn: Seq<u8>) -> bool;
impl Accepting {
    // the ALPN negotiated with the peer in the handshake
    #[verifier::external_body]
    pub async fn alpn(&mut self) -> (r: Result<Vec<u8>, AlpnError>)
        ensures r matches Ok(v) ==> negotiated(*final(self), v@)
    { unimplemented!() }
}
pub uninterp spec fn registered_for(m: ProtocolMap, alpn: Seq<u8>, h: &dyn DynProtocolHandler) -> bool;
pub uninterp spec fn from_accepting(c: Connection, a: Accepting) -> bool;
pub trait DynProtocolHandler {
    spec fn serves(&self, alpn: Seq<u8>) -> bool;
    // a handler may only ever see connections negotiated for an ALPN it is registered under
    fn on_accepting(&self, accepting: Accepting) -> (r: Fut<Result<Connection, AcceptError>>)
        requires exists|alpn: Seq<u8>| #[trigger] self.serves(alpn) && negotiated(accepting, alpn);  // [C40]
    fn accept(&self, connection: Connection) -> (r: Fut<Result<(), AcceptError>>);
}
pub struct ProtocolMap { pub m: int }
impl ProtocolMap {
    // BTreeMap lookup by exactly the given ALPN bytes
    #[verifier::external_body]
    pub fn get(&self, alpn: &[u8]) -> (r: Option<&dyn DynProtocolHandler>)
        ensures r matches Some(h) ==> h.serves(alpn@)
    { unimplemented!() }
}
pub mod tracing {
    pub struct Span;
    impl Span {
        #[verifier::external_body] pub fn current() -> Span { unimplemented!() }
    }
}

// ---- the accept arm of the router's run loop (RouterBuilder::spawn): what the incoming filter's verdict leads to
//@item iroh/src/protocol.rs enum IncomingFilterOutcome
// rule R24: how an extracted arm continues the enclosing loop
pub enum LoopCtl { Next, Continue, Break }
pub struct RetryError { pub inc: Incoming }
impl RetryError {
    // the same incoming connection, handed back because it could not be retried
    #[verifier::external_body]
    pub fn into_incoming(self) -> (r: Incoming) ensures r == self.inc { unimplemented!() }
}
impl Incoming {
    #[verifier::external_body] pub fn remote_addr_validated(&self) -> bool { unimplemented!() }
    // Err (with the incoming handed back) if the address is already validated
    #[verifier::external_body]
    pub fn retry(self) -> (r: Result<(), RetryError>) ensures r matches Err(e) ==> e.inc == self { unimplemented!() }
    #[verifier::external_body] pub fn refuse(self) { unimplemented!() }
    #[verifier::external_body] pub fn ignore(self) { unimplemented!() }
}
// the user's filter: a function of the incoming connection (rule R25: the call through `Arc<dyn Fn>` is redirected to `call`)
pub struct IncomingFilter { pub id: int }
pub uninterp spec fn verdict(f: IncomingFilter, inc: Incoming) -> IncomingFilterOutcome;
impl IncomingFilter {
    #[verifier::external_body]
    pub fn call(&self, inc: &Incoming) -> (r: IncomingFilterOutcome) ensures r == verdict(*self, *inc) { unimplemented!() }
}
impl CancellationToken {
    #[verifier::external_body] pub fn child_token(&self) -> CancellationToken { unimplemented!() }
}
// the set of connection tasks: ghost log of the incoming connections handed to handle_connection
pub struct JoinSet { pub handled: Seq<Incoming> }
// an incoming connection may be handed to handle_connection (and from there to a protocol handler) only if there is
// no filter or the filter's verdict on THIS incoming connection is Accept
pub open spec fn admitted(filter: Option<IncomingFilter>, inc: Incoming) -> bool {
    filter matches Some(f) ==> verdict(f, inc) is Accept
}
// rule R19: `join_set.spawn(async move { token.run_until_cancelled(handle_connection(incoming, protocols)).await }.instrument(span))`
#[verifier::external_body]
pub fn spawn_handle_connection(join_set: &mut JoinSet, incoming: Incoming, protocols: Arc<ProtocolMap>, token: CancellationToken, filter: &Option<IncomingFilter>)
    requires admitted(*filter, incoming)   // [C40]
    ensures final(join_set).handled == old(join_set).handled.push(incoming)
{ unimplemented!() }

//@arm iroh/src/protocol.rs RouterBuilder::spawn props=C40 name=accept_arm loopctl
//@- incoming = endpoint.accept() =>
//@| pub fn accept_arm(incoming: Option<Incoming>, incoming_filter: Option<IncomingFilter>, protocols: &Arc<ProtocolMap>, handler_cancel_token: &CancellationToken, join_set: &mut JoinSet, endpoint: &Endpoint) -> (ctl: LoopCtl)
//@|     ensures
//@|         // a connection is handed on exactly when there is no filter or the filter accepts it; nothing else ever is
//@|         (incoming matches Some(inc) && admitted(incoming_filter, inc)) ==> final(join_set).handled == old(join_set).handled.push(incoming.unwrap()),
//@|         !(incoming matches Some(inc) && admitted(incoming_filter, inc)) ==> final(join_set).handled == old(join_set).handled,
//@|         // the loop ends only when the endpoint is closed
//@|         ctl is Break <==> incoming is None,
//@tail LoopCtl::Next
//@rw R25 1
//@- match filter(&incoming) {
//@+ match filter.call(&incoming) {
//@rwx R19 1
//@- (?s)join_set\.spawn\(async move \{\s*token\.run_until_cancelled\(handle_connection\(incoming, protocols\)\)\.await\s*\}\.instrument\(span\)\);
//@+ spawn_handle_connection(join_set, incoming, protocols, token, &incoming_filter);
//@end

//@fn iroh/src/protocol.rs handle_connection props=C40
//@rw D1 1
//@-     tracing::Span::current().record("alpn", String::from_utf8_lossy(&alpn).to_string());
//@+
//@rwx D1 1
//@-             tracing::Span::current\(\)\.record\(\n\s*"remote",\n\s*tracing::field::display\(connection\.remote_id\(\)\.fmt_short\(\)\),\n\s*\);\n
//@+
//@rw D3 1
//@- incoming: crate::endpoint::Incoming
//@+ incoming: Incoming
//@end
} // verus!
fn main() {}
