//@unit router props=C40,C41
// C41 — Router::shutdown returns only after the run task (handler shutdowns, endpoint close) has finished.
// C40 (reduced) — handle_connection hands a connection only to the handler registered for the negotiated ALPN.
use vstd::prelude::*;
use vstd::std_specs::cmp::OrdSpec;
macro_rules! warn { ($($t:tt)*) => {}; }
macro_rules! debug { ($($t:tt)*) => {}; }
macro_rules! info_span { ($($t:tt)*) => { tracing::Span::current() }; }
verus! {
//@include shims/std_wide.rs
use std::sync::Arc;
// ---- futures of foreign async trait methods: the awaited value is any value of the type
#[verifier::external_body]
#[verifier::reject_recursive_types(T)]
pub struct Fut<T> { t: core::marker::PhantomData<T> }
#[verifier::external]
impl<T> core::future::Future for Fut<T> { type Output = T; fn poll(self: core::pin::Pin<&mut Self>, cx: &mut core::task::Context<'_>) -> core::task::Poll<T> { unimplemented!() } }

// ======== C41
pub mod n0_future { pub mod task { pub struct JoinError; } }
pub struct Endpoint { pub id: int }
impl Endpoint {
    #[verifier::external_body] pub fn set_alpns(&self, alpns: Vec<Vec<u8>>) { unimplemented!() }
    #[verifier::external_body] pub fn clone(&self) -> (r: Endpoint) ensures r == *self { unimplemented!() }
}
// ---- cancellation tokens with a ghost identity: `new()` makes an independent (root) token, `child_token()` one that is
// also cancelled whenever its parent is, clones are the same token
pub struct CancellationToken { pub id: int, pub parent: Option<int> }
pub struct DropGuard;
impl CancellationToken {
    #[verifier::external_body]
    pub fn new() -> (r: CancellationToken) ensures r.parent is None { unimplemented!() }
    #[verifier::external_body]
    pub fn child_token(&self) -> (r: CancellationToken) ensures r.parent == Some(self.id) { unimplemented!() }
    #[verifier::external_body]
    pub fn clone(&self) -> (r: CancellationToken) ensures r == *self { unimplemented!() }
    #[verifier::external_body]
    pub fn cancel(&self) { unimplemented!() }
    #[verifier::external_body]
    pub fn is_cancelled(&self) -> bool { unimplemented!() }
    #[verifier::external_body]
    pub fn drop_guard(self) -> DropGuard { unimplemented!() }
    // completes only once THIS token is cancelled.  ASSUMPTION (stated): an independent token that was handed to a run
    // loop as its done token is cancelled only by that loop's own drop guard, i.e. when the loop has finished or was
    // aborted (nobody else calls cancel() on it: Router only ever cancels `cancel_token`).  For a child token nothing
    // follows: it is cancelled as soon as its parent is.
    #[verifier::external_body]
    pub async fn cancelled(&self) -> (r: ())
        ensures self.parent is None ==> run_finished(self.id)
    { unimplemented!() }
}
// "the run loop whose done token has this identity has finished" (handlers shut down, endpoint closed: the loop's tail,
// quoted: protocols.shutdown().await; handler_cancel_token.cancel(); endpoint.close().await; join remaining tasks)
pub uninterp spec fn run_finished(done_id: int) -> bool;
// the run loop future (the `async move` block of RouterBuilder::spawn, whose accept arm is verified below as accept_arm)
pub struct RunLoopFut { pub done_id: int }
pub struct JoinHandle<T> { pub done_id: int, pub t: core::marker::PhantomData<T> }
pub struct AbortOnDropHandle<T> { pub done_id: int, pub t: core::marker::PhantomData<T> }
impl AbortOnDropHandle<()> {
    #[verifier::external_body]
    pub fn new(h: JoinHandle<()>) -> (r: AbortOnDropHandle<()>) ensures r.done_id == h.done_id { unimplemented!() }
}
// rule R19: `let run_loop_fut = async move { let _done_guard = done_token.drop_guard(); ... }` — the block arms the drop
// guard of the done token it captures as its first statement.  That token MUST be independent: a child of the cancel
// token would be cancelled by shutdown() itself, long before the loop has finished.
#[verifier::external_body]
pub fn make_run_loop(done_token: CancellationToken, cancel_token: CancellationToken, join_set: JoinSet, endpoint: Endpoint, protocols: Arc<ProtocolMap>, incoming_filter: Option<IncomingFilter>) -> (r: RunLoopFut)
    requires done_token.parent is None   // [C41]
    ensures r.done_id == done_token.id
{ unimplemented!() }
// rule R19: `task::spawn(run_loop_fut.instrument(tracing::Span::current()))`
#[verifier::external_body]
pub fn spawn_task(f: RunLoopFut) -> (r: JoinHandle<()>) ensures r.done_id == f.done_id { unimplemented!() }
// awaiting the handle: Ok means that task ran to completion
#[verifier::external_body]
pub async fn await_handle(h: AbortOnDropHandle<()>) -> (r: Result<(), n0_future::task::JoinError>)
    ensures r is Ok ==> run_finished(h.done_id)
{ unimplemented!() }
pub struct PoisonError;
#[verifier::external] impl core::fmt::Debug for PoisonError { fn fmt(&self, f: &mut core::fmt::Formatter<'_>) -> core::fmt::Result { Ok(()) } }
// std Mutex around the task slot; ghost: which run loop's handle was put into the slot (it stays that one or is taken)
#[verifier::external_body]
#[verifier::reject_recursive_types(T)]
pub struct Mutex<T> { t: core::marker::PhantomData<T> }
impl Mutex<Option<AbortOnDropHandle<()>>> {
    pub uninterp spec fn slot_done_id(&self) -> int;
    #[verifier::external_body]
    pub fn new(v: Option<AbortOnDropHandle<()>>) -> (r: Self) ensures v matches Some(h) ==> r.slot_done_id() == h.done_id { unimplemented!() }
    // ASSUMPTION: the lock is not poisoned (a poisoned lock means another thread already panicked)
    #[verifier::external_body]
    pub fn lock<'a>(&'a self) -> (r: Result<MutexGuard<'a>, PoisonError>) ensures r matches Ok(g) && *g.m == *self { unimplemented!() }
}
pub struct MutexGuard<'a> { pub m: &'a Mutex<Option<AbortOnDropHandle<()>>> }
impl<'a> MutexGuard<'a> {
    // Option::take through the guard: whatever handle is in the slot, if any, is the one that was put there
    #[verifier::external_body]
    pub fn take(&mut self) -> (r: Option<AbortOnDropHandle<()>>)
        ensures r matches Some(h) ==> h.done_id == old(self).m.slot_done_id()
    { unimplemented!() }
}
//@item iroh/src/protocol.rs struct Router pubfields
//@item iroh/src/protocol.rs struct RouterBuilder pubfields
// what RouterBuilder::spawn must establish and Router::shutdown may rely on: the done token is an independent token,
// and the task in the slot is the run loop that owns (a clone of) exactly this done token
pub open spec fn router_wf(r: Router) -> bool {
    r.done_token.parent is None && r.task.slot_done_id() == r.done_token.id
}
#[verifier::external_body]
pub fn collect_alpns(p: &ProtocolMap) -> Vec<Vec<u8>> { unimplemented!() }

impl RouterBuilder {
//@fn iroh/src/protocol.rs RouterBuilder::spawn props=C41 ret=r
//@| ensures router_wf(r)
//@rwx R27 1
//@- (?s)let alpns = self\s*\.protocols\s*\.alpns\(\)\s*\.map\(\|alpn\| alpn\.to_vec\(\)\)\s*\.collect::<Vec<_>>\(\);
//@+ let alpns = collect_alpns(&self.protocols);
//@rwx R19 1
//@- (?s)let run_loop_fut = async move \{.*?\n        \};\n(\s*let task = )
//@+ let run_loop_fut = make_run_loop(done_token, cancel_token, join_set, endpoint, protocols, incoming_filter);\n\1
//@rw R19 1
//@- task::spawn(run_loop_fut.instrument(tracing::Span::current()))
//@+ spawn_task(run_loop_fut)
//@end
}

impl Router {
//@fn iroh/src/protocol.rs Router::is_shutdown props=C41 ret=r
//@end

//@fn iroh/src/protocol.rs Router::shutdown props=C41 ret=r
//@| requires router_wf(*self)
//@| ensures r is Ok ==> run_finished(self.done_token.id)
//@rw R19 1
//@- task.await?;
//@+ await_handle(task).await?;
//@end
}

// ======== C40
pub struct Connecting; pub struct Connection; pub struct Accepting; pub struct AlpnError; pub struct AcceptError;
pub struct Incoming { pub id: int }   // ghost identity of one incoming connection attempt
impl Incoming {
    #[verifier::external_body]
    pub fn accept(self) -> (r: Result<Accepting, AcceptError>) { unimplemented!() }
}
pub uninterp spec fn negotiated(a: Accepting, alpn: Seq<u8>) -> bool;
impl Accepting {
    // the ALPN negotiated with the peer in the handshake
    #[verifier::external_body]
    pub async fn alpn(&mut self) -> (r: Result<Vec<u8>, AlpnError>)
        ensures r matches Ok(v) ==> negotiated(*final(self), v@)
    { unimplemented!() }
}
pub uninterp spec fn registered_for(m: ProtocolMap, alpn: Seq<u8>, h: &dyn DynProtocolHandler) -> bool;
pub uninterp spec fn from_accepting(c: Connection, a: Accepting) -> bool;
pub trait DynProtocolHandler {
    spec fn serves(&self, alpn: Seq<u8>) -> bool;
    // a handler may only ever see connections negotiated for an ALPN it is registered under
    fn on_accepting(&self, accepting: Accepting) -> (r: Fut<Result<Connection, AcceptError>>)
        requires exists|alpn: Seq<u8>| #[trigger] self.serves(alpn) && negotiated(accepting, alpn);  // [C40]
    fn accept(&self, connection: Connection) -> (r: Fut<Result<(), AcceptError>>);
}
pub struct ProtocolMap { pub m: int }
impl ProtocolMap {
    // BTreeMap lookup by exactly the given ALPN bytes
    #[verifier::external_body]
    pub fn get(&self, alpn: &[u8]) -> (r: Option<&dyn DynProtocolHandler>)
        ensures r matches Some(h) ==> h.serves(alpn@)
    { unimplemented!() }
}
pub mod tracing {
    pub struct Span;
    impl Span {
        #[verifier::external_body] pub fn current() -> Span { unimplemented!() }
    }
}

// ---- the accept arm of the router's run loop (RouterBuilder::spawn): what the incoming filter's verdict leads to
//@item iroh/src/protocol.rs enum IncomingFilterOutcome
// rule R24: how an extracted arm continues the enclosing loop
pub enum LoopCtl { Next, Continue, Break }
pub struct RetryError { pub inc: Incoming }
impl RetryError {
    // the same incoming connection, handed back because it could not be retried
    #[verifier::external_body]
    pub fn into_incoming(self) -> (r: Incoming) ensures r == self.inc { unimplemented!() }
}
impl Incoming {
    #[verifier::external_body] pub fn remote_addr_validated(&self) -> bool { unimplemented!() }
    // Err (with the incoming handed back) if the address is already validated
    #[verifier::external_body]
    pub fn retry(self) -> (r: Result<(), RetryError>) ensures r matches Err(e) ==> e.inc == self { unimplemented!() }
    #[verifier::external_body] pub fn refuse(self) { unimplemented!() }
    #[verifier::external_body] pub fn ignore(self) { unimplemented!() }
}
// the user's filter: a function of the incoming connection (rule R25: the call through `Arc<dyn Fn>` is redirected to `call`)
pub struct IncomingFilter { pub id: int }
pub uninterp spec fn verdict(f: IncomingFilter, inc: Incoming) -> IncomingFilterOutcome;
impl IncomingFilter {
    #[verifier::external_body]
    pub fn call(&self, inc: &Incoming) -> (r: IncomingFilterOutcome) ensures r == verdict(*self, *inc) { unimplemented!() }
}
// the set of connection tasks: ghost log of the incoming connections handed to handle_connection
pub struct JoinSet { pub handled: Seq<Incoming> }
impl JoinSet { #[verifier::external_body] pub fn new() -> (r: JoinSet) ensures r.handled.len() == 0 { unimplemented!() } }
// an incoming connection may be handed to handle_connection (and from there to a protocol handler) only if there is
// no filter or the filter's verdict on THIS incoming connection is Accept
pub open spec fn admitted(filter: Option<IncomingFilter>, inc: Incoming) -> bool {
    filter matches Some(f) ==> verdict(f, inc) is Accept
}
// rule R19: `join_set.spawn(async move { token.run_until_cancelled(handle_connection(incoming, protocols)).await }.instrument(span))`
#[verifier::external_body]
pub fn spawn_handle_connection(join_set: &mut JoinSet, incoming: Incoming, protocols: Arc<ProtocolMap>, token: CancellationToken, filter: &Option<IncomingFilter>)
    requires admitted(*filter, incoming)   // [C40]
    ensures final(join_set).handled == old(join_set).handled.push(incoming)
{ unimplemented!() }

//@arm iroh/src/protocol.rs RouterBuilder::spawn props=C40 name=accept_arm loopctl
//@- incoming = endpoint.accept() =>
//@| pub fn accept_arm(incoming: Option<Incoming>, incoming_filter: Option<IncomingFilter>, protocols: &Arc<ProtocolMap>, handler_cancel_token: &CancellationToken, join_set: &mut JoinSet, endpoint: &Endpoint) -> (ctl: LoopCtl)
//@|     ensures
//@|         // a connection is handed on exactly when there is no filter or the filter accepts it; nothing else ever is
//@|         (incoming matches Some(inc) && admitted(incoming_filter, inc)) ==> final(join_set).handled == old(join_set).handled.push(incoming.unwrap()),
//@|         !(incoming matches Some(inc) && admitted(incoming_filter, inc)) ==> final(join_set).handled == old(join_set).handled,
//@|         // the loop ends only when the endpoint is closed
//@|         ctl is Break <==> incoming is None,
//@tail LoopCtl::Next
//@rw R25 1
//@- match filter(&incoming) {
//@+ match filter.call(&incoming) {
//@rwx R19 1
//@- (?s)join_set\.spawn\(async move \{\s*token\.run_until_cancelled\(handle_connection\(incoming, protocols\)\)\.await\s*\}\.instrument\(span\)\);
//@+ spawn_handle_connection(join_set, incoming, protocols, token, &incoming_filter);
//@end

//@fn iroh/src/protocol.rs handle_connection props=C40
//@rw D1 1
//@-     tracing::Span::current().record("alpn", String::from_utf8_lossy(&alpn).to_string());
//@+
//@rwx D1 1
//@-             tracing::Span::current\(\)\.record\(\n\s*"remote",\n\s*tracing::field::display\(connection\.remote_id\(\)\.fmt_short\(\)\),\n\s*\);\n
//@+
//@rw D3 1
//@- incoming: crate::endpoint::Incoming
//@+ incoming: Incoming
//@end
} // verus!
fn main() {}
