//@unit datagrams_split props=C16
// C16 — Splitting a relay datagram batch partitions it exactly.
use vstd::prelude::*;
use std::num::NonZeroU16;
use vstd::std_specs::cmp::OrdSpec;
verus! {
//@include shims/bytes.rs
//@include shims/std_wide.rs

pub mod noq_proto {
    use vstd::prelude::*;
    #[derive(Clone, Copy, PartialEq, Eq)]
    pub enum EcnCodepoint { Ect0, Ect1, Ce }
}

//@item iroh-relay/src/protos/relay.rs struct Datagrams

// number of datagrams in a batch: ceil(len / seg) when a segment size is set, else 1 (or 0 when empty)
pub open spec fn seg_of(d: Datagrams) -> int {
    match d.segment_size { Some(s) => s@ as int, None => 0 }
}
pub open spec fn num_datagrams(len: int, seg: int) -> int
    recommends seg > 0
{
    (len + seg - 1) / seg
}

impl Datagrams {
//@fn iroh-relay/src/protos/relay.rs Datagrams::take_segments props=C16 ret=r
//@| ensures
//@|     // nothing lost, nothing duplicated, order kept
//@|     r.contents@ + final(self).contents@ == old(self).contents@,
//@|     // ECN marking kept on both halves
//@|     r.ecn == old(self).ecn, final(self).ecn == old(self).ecn,
//@|     // at most n segments taken
//@|     old(self).segment_size matches Some(s) ==> r.contents@.len() <= num_segments * (s@ as int),
//@|     old(self).segment_size matches Some(s) ==> (r.contents@.len() == num_segments * (s@ as int) || final(self).contents@.len() == 0),
//@|     // a segment size is carried only by a batch of more than one datagram, and it is the batch's
//@|     r.segment_size matches Some(s) ==> old(self).segment_size == Some(s) && r.contents@.len() > s@,
//@|     old(self).segment_size matches Some(s) ==> (num_segments > 1 && r.contents@.len() > s@ ==> r.segment_size == Some(s)),
//@|     final(self).segment_size matches Some(s) ==> old(self).segment_size == Some(s) && final(self).contents@.len() > s@,
//@|     old(self).segment_size matches Some(s) ==> (final(self).contents@.len() > s@ ==> final(self).segment_size == Some(s)),
//@|     // an unsegmented batch is taken whole
//@|     old(self).segment_size is None ==> r.contents@ == old(self).contents@ && r.segment_size is None && final(self).segment_size is None,
//@|     // progress
//@|     num_segments >= 1 && old(self).contents@.len() > 0 ==> r.contents@.len() > 0,
//@ins after 1
//@- let max_content_len =
//@| proof {
//@|     assert(num_segments >= 1 ==> num_segments as int * usize_segment_size as int >= usize_segment_size as int) by (nonlinear_arith)
//@|         requires usize_segment_size >= 0;
//@| }
//@end
}

// ---- property-level lemma: repeated taking terminates and concatenates to the original.
// `step` is exactly the part of take_segments' postcondition it needs (contract only, never the body).
pub open spec fn step(before: Seq<u8>, taken: Seq<u8>, after: Seq<u8>) -> bool {
    taken + after == before && (before.len() > 0 ==> taken.len() > 0)
}

pub open spec fn concat(parts: Seq<Seq<u8>>) -> Seq<u8>
    decreases parts.len()
{
    if parts.len() == 0 { Seq::empty() } else { parts[0] + concat(parts.subrange(1, parts.len() as int)) }
}

// any chain of `step`s starting at `orig` whose last remainder is empty concatenates to `orig`
pub proof fn lemma_repeated_taking(orig: Seq<u8>, taken: Seq<Seq<u8>>, rest: Seq<Seq<u8>>)  // [C16]
    requires
        taken.len() == rest.len(),
        forall|i: int| 0 <= i < taken.len() ==> step(if i == 0 { orig } else { rest[i - 1] }, #[trigger] taken[i], rest[i]),
        taken.len() > 0 ==> rest[rest.len() - 1].len() == 0,
        taken.len() == 0 ==> orig.len() == 0,
    ensures concat(taken) == orig
    decreases taken.len()
{
    if taken.len() == 0 {
        assert(orig =~= Seq::empty());
    } else {
        let t1 = taken.subrange(1, taken.len() as int);
        let r1 = rest.subrange(1, rest.len() as int);
        assert(step(orig, taken[0], rest[0]));
        if t1.len() == 0 {
            assert(rest[0].len() == 0);
            assert(concat(t1) =~= Seq::empty());
            assert(taken[0] + rest[0] =~= taken[0]);
            assert(concat(taken) =~= taken[0] + concat(t1));
        } else {
            assert forall|i: int| 0 <= i < t1.len() implies step(if i == 0 { rest[0] } else { r1[i - 1] }, #[trigger] t1[i], r1[i]) by {
                assert(step(if i + 1 == 0 { orig } else { rest[i + 1 - 1] }, taken[i + 1], rest[i + 1]));
            }
            lemma_repeated_taking(rest[0], t1, r1);
            assert(concat(taken) =~= taken[0] + concat(t1));
        }
    }
}

// the number of steps is bounded by the length: each step with a non-empty input shrinks the remainder
pub proof fn lemma_taking_progress(before: Seq<u8>, taken: Seq<u8>, after: Seq<u8>)  // [C16]
    requires step(before, taken, after), before.len() > 0
    ensures after.len() < before.len()
{
    assert((taken + after).len() == taken.len() + after.len());
}
} // verus!
fn main() {}
