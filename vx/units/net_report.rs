//@unit net_report props=C27
// C27 — net report aggregation is order-consistent.
use vstd::prelude::*;
use vstd::std_specs::cmp::OrdSpec;
macro_rules! trace { ($($t:tt)*) => {}; }
macro_rules! warn { ($($t:tt)*) => {}; }
verus! {
//@include shims/std_wide.rs
//@include shims/btreemap.rs

// ---- value types: identity is all that matters here
#[derive(Clone, Copy)]
pub struct Duration { pub ns: u128 }
impl PartialEq for Duration { #[verifier::external_body] fn eq(&self, o: &Self) -> bool { self.ns == o.ns } }
impl vstd::std_specs::cmp::PartialEqSpecImpl for Duration {
    open spec fn obeys_eq_spec() -> bool { true }
    open spec fn eq_spec(&self, o: &Self) -> bool { self.ns == o.ns }
}
impl PartialOrd for Duration { #[verifier::external_body] fn partial_cmp(&self, o: &Self) -> Option<core::cmp::Ordering> { self.ns.partial_cmp(&o.ns) } }
impl vstd::std_specs::cmp::PartialOrdSpecImpl for Duration {
    open spec fn obeys_partial_cmp_spec() -> bool { true }
    open spec fn partial_cmp_spec(&self, o: &Self) -> Option<core::cmp::Ordering> {
        if self.ns < o.ns { Some(core::cmp::Ordering::Less) } else if self.ns == o.ns { Some(core::cmp::Ordering::Equal) } else { Some(core::cmp::Ordering::Greater) }
    }
}
// the Duration API within reach of the report code (std semantics)
impl Duration {
    pub const ZERO: Duration = Duration { ns: 0 };
    pub const MAX: Duration = Duration { ns: 18446744073709551615999999999 };
    #[verifier::external_body] pub fn is_zero(&self) -> (r: bool) ensures r == (self.ns == 0) { unimplemented!() }
    #[verifier::external_body] pub fn as_nanos(&self) -> (r: u128) ensures r == self.ns { unimplemented!() }
    #[verifier::external_body] pub fn as_millis(&self) -> (r: u128) ensures r == self.ns / 1_000_000 { unimplemented!() }
    #[verifier::external_body] pub fn as_secs(&self) -> (r: u64) ensures r == self.ns / 1_000_000_000 { unimplemented!() }
    #[verifier::external_body] pub fn from_millis(ms: u64) -> (r: Duration) ensures r.ns == ms as int * 1_000_000 { unimplemented!() }
    #[verifier::external_body] pub fn from_secs(s: u64) -> (r: Duration) ensures r.ns == s as int * 1_000_000_000 { unimplemented!() }
    #[verifier::external_body] pub fn min(self, o: Duration) -> (r: Duration) ensures r == (if o.ns < self.ns { o } else { self }) { unimplemented!() }
    #[verifier::external_body] pub fn max(self, o: Duration) -> (r: Duration) ensures r == (if o.ns > self.ns { o } else { self }) { unimplemented!() }
}
pub struct RelayUrl { pub id: int }
impl Clone for RelayUrl { #[verifier::external_body] fn clone(&self) -> (r: RelayUrl) ensures r == *self { unimplemented!() } }
#[derive(Clone, Copy)]
pub struct SocketAddrV4 { pub id: int }
impl PartialEq for SocketAddrV4 { #[verifier::external_body] fn eq(&self, o: &Self) -> bool { unimplemented!() } }
impl vstd::std_specs::cmp::PartialEqSpecImpl for SocketAddrV4 {
    open spec fn obeys_eq_spec() -> bool { true }
    open spec fn eq_spec(&self, o: &Self) -> bool { self.id == o.id }
}
#[derive(Clone, Copy)]
pub struct SocketAddrV6 { pub id: int }
impl PartialEq for SocketAddrV6 { #[verifier::external_body] fn eq(&self, o: &Self) -> bool { unimplemented!() } }
impl vstd::std_specs::cmp::PartialEqSpecImpl for SocketAddrV6 {
    open spec fn obeys_eq_spec() -> bool { true }
    open spec fn eq_spec(&self, o: &Self) -> bool { self.id == o.id }
}
#[derive(Clone, Copy)]
pub enum SocketAddr { V4(SocketAddrV4), V6(SocketAddrV6) }

//@item iroh/src/net_report/probes.rs enum Probe derive=Clone,Copy
//@item iroh/src/net_report/reportgen.rs struct QadProbeReport pubfields
//@item iroh/src/net_report/reportgen.rs struct HttpsProbeReport pubfields
//@item iroh/src/net_report/reportgen.rs enum ProbeReport
//@item iroh/src/net_report/report.rs struct RelayLatencies pubfields
//@item iroh/src/net_report/report.rs struct Report pubfields

pub open spec fn min_ns(a: Duration, b: Duration) -> Duration { if b.ns < a.ns { b } else { a } }
// the latency table after one more observation: the minimum per (probe kind, relay)
pub open spec fn lat_insert(m: Map<RelayUrl, Duration>, url: RelayUrl, latency: Duration) -> Map<RelayUrl, Duration> {
    m.insert(url, if m.contains_key(url) { min_ns(m[url], latency) } else { latency })
}

impl RelayLatencies {
//@fn iroh/src/net_report/report.rs RelayLatencies::update_relay props=C27 stripattrs
//@| ensures
//@|     probe is Https ==> final(self).https@ == lat_insert(old(self).https@, url, latency) && final(self).ipv4 == old(self).ipv4 && final(self).ipv6 == old(self).ipv6,
//@|     probe is QadIpv4 ==> final(self).ipv4@ == lat_insert(old(self).ipv4@, url, latency) && final(self).https == old(self).https && final(self).ipv6 == old(self).ipv6,
//@|     probe is QadIpv6 ==> final(self).ipv6@ == lat_insert(old(self).ipv6@, url, latency) && final(self).https == old(self).https && final(self).ipv4 == old(self).ipv4,
//@end

//@fn iroh/src/net_report/report.rs RelayLatencies::merge props=C27 stripattrs
//@| ensures
//@|     final(self).https@ == merge_spec(old(self).https@, other.https@),
//@|     final(self).ipv4@ == merge_spec(old(self).ipv4@, other.ipv4@),
//@|     final(self).ipv6@ == merge_spec(old(self).ipv6@, other.ipv6@),
//@rwx R21 3
//@- for \(url, latency\) in other\.(\w+)\.iter\(\) \{
//@+ let es_\1 = other.\1.entries(); for (url, latency) in it: es_\1.iter() {
//@loop 1
//@| invariant
//@|     entries_of(other.https@, es_https@),
//@|     self.https@ == fold_entries(old(self).https@, es_https@.subrange(0, it.index@ as int)),
//@|     self.ipv4 == old(self).ipv4, self.ipv6 == old(self).ipv6,
//@loop 2
//@| invariant
//@|     entries_of(other.ipv4@, es_ipv4@),
//@|     self.ipv4@ == fold_entries(old(self).ipv4@, es_ipv4@.subrange(0, it.index@ as int)),
//@|     self.https@ == merge_spec(old(self).https@, other.https@), self.ipv6 == old(self).ipv6,
//@loop 3
//@| invariant
//@|     entries_of(other.ipv6@, es_ipv6@),
//@|     self.ipv6@ == fold_entries(old(self).ipv6@, es_ipv6@.subrange(0, it.index@ as int)),
//@|     self.https@ == merge_spec(old(self).https@, other.https@), self.ipv4@ == merge_spec(old(self).ipv4@, other.ipv4@),
//@ins after 1
//@- self.update_relay(
//@| proof { fold_step(old(self).https@, es_https@, it.index@ + 1); }
//@ins after 2
//@- self.update_relay(
//@| proof { fold_step(old(self).ipv4@, es_ipv4@, it.index@ + 1); }
//@ins after 3
//@- self.update_relay(
//@| proof { fold_step(old(self).ipv6@, es_ipv6@, it.index@ + 1); }
//@atend
//@| proof { assert(es_ipv6@.subrange(0, es_ipv6@.len() as int) =~= es_ipv6@); lemma_fold_is_merge(old(self).ipv6@, other.ipv6@, es_ipv6@); }
//@ins before 1
//@- let es_ipv4 = other.ipv4.entries();
//@| proof { assert(es_https@.subrange(0, es_https@.len() as int) =~= es_https@); lemma_fold_is_merge(old(self).https@, other.https@, es_https@); }
//@ins before 1
//@- let es_ipv6 = other.ipv6.entries();
//@| proof { assert(es_ipv4@.subrange(0, es_ipv4@.len() as int) =~= es_ipv4@); lemma_fold_is_merge(old(self).ipv4@, other.ipv4@, es_ipv4@); }
//@end
}

// pointwise minimum on the union of the key sets
pub open spec fn merge_spec(a: Map<RelayUrl, Duration>, b: Map<RelayUrl, Duration>) -> Map<RelayUrl, Duration> {
    Map::new(a.dom().union(b.dom()),
             |k: RelayUrl| if a.contains_key(k) && b.contains_key(k) { min_ns(a[k], b[k]) } else if a.contains_key(k) { a[k] } else { b[k] })
}
pub proof fn lemma_merge_commutative(a: Map<RelayUrl, Duration>, b: Map<RelayUrl, Duration>)  // [C27]
    ensures forall|k: RelayUrl| #![auto] merge_spec(a, b).contains_key(k) == merge_spec(b, a).contains_key(k)
        && (merge_spec(a, b).contains_key(k) ==> merge_spec(a, b)[k].ns == merge_spec(b, a)[k].ns)
{
}
pub proof fn lemma_merge_keeps_minima(a: Map<RelayUrl, Duration>, b: Map<RelayUrl, Duration>, k: RelayUrl)  // [C27]
    ensures a.contains_key(k) ==> merge_spec(a, b).contains_key(k) && merge_spec(a, b)[k].ns <= a[k].ns,
            b.contains_key(k) ==> merge_spec(a, b).contains_key(k) && merge_spec(a, b)[k].ns <= b[k].ns,
            merge_spec(a, b).contains_key(k) ==> (a.contains_key(k) && merge_spec(a, b)[k] == a[k]) || (b.contains_key(k) && merge_spec(a, b)[k] == b[k]),
{
}
// folding lat_insert over the entries of b (each key once) into a yields the pointwise-minimum union
pub open spec fn fold_entries(a: Map<RelayUrl, Duration>, es: Seq<(RelayUrl, Duration)>) -> Map<RelayUrl, Duration>
    decreases es.len()
{
    if es.len() == 0 { a } else { lat_insert(fold_entries(a, es.drop_last()), es.last().0, es.last().1) }
}
pub open spec fn lists(b: Map<RelayUrl, Duration>, es: Seq<(RelayUrl, Duration)>) -> bool {
    &&& forall|i: int| 0 <= i < es.len() ==> b.contains_key((#[trigger] es[i]).0) && b[es[i].0] == es[i].1
    &&& forall|i: int, j: int| 0 <= i < j < es.len() ==> (#[trigger] es[i]).0 != (#[trigger] es[j]).0
    &&& forall|k: RelayUrl| b.contains_key(k) ==> exists|i: int| 0 <= i < es.len() && (#[trigger] es[i]).0 == k
}
// one more entry processed = one more lat_insert
pub proof fn fold_step(a: Map<RelayUrl, Duration>, es: Seq<(RelayUrl, Duration)>, n: int)
    requires 0 < n <= es.len()
    ensures fold_entries(a, es.subrange(0, n)) == lat_insert(fold_entries(a, es.subrange(0, n - 1)), es[n - 1].0, es[n - 1].1)
{
    assert(es.subrange(0, n).drop_last() =~= es.subrange(0, n - 1));
    assert(es.subrange(0, n).last() == es[n - 1]);
}
pub proof fn lemma_fold_is_merge(a: Map<RelayUrl, Duration>, b: Map<RelayUrl, Duration>, es: Seq<(RelayUrl, Duration)>)  // [C27]
    requires entries_of(b, es)
    ensures fold_entries(a, es) == merge_spec(a, b)
{
    let f = fold_entries(a, es);
    let m = merge_spec(a, b);
    assert forall|k: RelayUrl| #[trigger] f.dom().contains(k) == m.dom().contains(k) by {
        lemma_fold_prefix(a, es, k);
        if b.contains_key(k) { let i = choose|i: int| 0 <= i < es.len() && (#[trigger] es[i]).0 == k; }
    }
    assert forall|k: RelayUrl| #[trigger] f.dom().contains(k) implies f[k] == m[k] by {
        lemma_fold_prefix(a, es, k);
        if b.contains_key(k) {
            let i = choose|i: int| 0 <= i < es.len() && (#[trigger] es[i]).0 == k;
            assert(es[i].1 == b[k]);
        } else {
            assert forall|i: int| 0 <= i < es.len() implies (#[trigger] es[i]).0 != k by { assert(b.contains_key(es[i].0)); }
        }
    }
    assert(f.dom() =~= m.dom());
    assert(fold_entries(a, es) =~= merge_spec(a, b));
}
pub proof fn lemma_fold_prefix(a: Map<RelayUrl, Duration>, es: Seq<(RelayUrl, Duration)>, k: RelayUrl)  // [C27]
    requires forall|i: int, j: int| 0 <= i < j < es.len() ==> (#[trigger] es[i]).0 != (#[trigger] es[j]).0
    ensures
        fold_entries(a, es).contains_key(k) <==> a.contains_key(k) || exists|i: int| 0 <= i < es.len() && (#[trigger] es[i]).0 == k,
        (forall|i: int| 0 <= i < es.len() ==> (#[trigger] es[i]).0 != k) && a.contains_key(k) ==> fold_entries(a, es)[k] == a[k],
        forall|i: int| 0 <= i < es.len() && (#[trigger] es[i]).0 == k ==> fold_entries(a, es)[k] == (if a.contains_key(k) { min_ns(a[k], es[i].1) } else { es[i].1 }),
    decreases es.len()
{
    if es.len() > 0 {
        let pre = es.drop_last();
        assert forall|i: int, j: int| 0 <= i < j < pre.len() implies (#[trigger] pre[i]).0 != (#[trigger] pre[j]).0 by { assert(pre[i] == es[i] && pre[j] == es[j]); }
        lemma_fold_prefix(a, pre, k);
        let last = es.last();
        assert forall|i: int| 0 <= i < pre.len() implies (#[trigger] pre[i]) == es[i] by {}
        if last.0 == k {
            // k does not occur in the prefix (keys are distinct)
            assert forall|i: int| 0 <= i < pre.len() implies (#[trigger] pre[i]).0 != k by { assert(pre[i] == es[i]); assert(es[i].0 != es[es.len() - 1].0); }
            assert(es[es.len() - 1].0 == k);
        } else {
            if exists|i: int| 0 <= i < es.len() && (#[trigger] es[i]).0 == k {
                let i = choose|i: int| 0 <= i < es.len() && (#[trigger] es[i]).0 == k;
                assert(i < pre.len());
                assert(pre[i].0 == k);
            }
        }
    }
}

// ---- abstraction: a report against the history of addresses observed per family
pub open spec fn varies_of(obs: Seq<int>) -> Option<bool> {
    if obs.len() < 2 { None } else { Some(exists|i: int, j: int| 0 <= i < obs.len() && 0 <= j < obs.len() && obs[i] != obs[j]) }
}
pub open spec fn abs_family(udp: bool, global: Option<int>, varies: Option<bool>, obs: Seq<int>) -> bool {
    &&& udp == (obs.len() > 0)
    &&& global == (if obs.len() > 0 { Some(obs[0]) } else { None::<int> })   // the FIRST address observed
    &&& varies == varies_of(obs)
}
pub open spec fn v4id(o: Option<SocketAddrV4>) -> Option<int> { match o { Some(a) => Some(a.id), None => None } }
pub open spec fn v6id(o: Option<SocketAddrV6>) -> Option<int> { match o { Some(a) => Some(a.id), None => None } }
pub open spec fn abs4(r: Report, obs: Seq<int>) -> bool { abs_family(r.udp_v4, v4id(r.global_v4), r.mapping_varies_by_dest_ipv4, obs) }
pub open spec fn abs6(r: Report, obs: Seq<int>) -> bool { abs_family(r.udp_v6, v6id(r.global_v6), r.mapping_varies_by_dest_ipv6, obs) }

pub proof fn lemma_varies_push(obs: Seq<int>, x: int)
    requires obs.len() > 0
    ensures varies_of(obs.push(x)) == Some(varies_of(obs) == Some(true) || x != obs[0])
{
    let o2 = obs.push(x);
    if varies_of(obs) == Some(true) {
        let (i, j) = choose|i: int, j: int| 0 <= i < obs.len() && 0 <= j < obs.len() && obs[i] != obs[j];
        assert(o2[i] != o2[j]);
    } else if x != obs[0] {
        assert(o2[0] != o2[obs.len() as int]);
    } else {
        // all earlier observations equal obs[0] (else varies would be Some(true)), and x == obs[0]
        assert forall|i: int, j: int| 0 <= i < o2.len() && 0 <= j < o2.len() implies o2[i] == o2[j] by {
            if obs.len() >= 2 {
                if i < obs.len() { assert(obs[i] == obs[0]) by { if obs[i] != obs[0] { assert(obs[i] != obs[0]); } } }
                if j < obs.len() { assert(obs[j] == obs[0]) by { if obs[j] != obs[0] { assert(obs[j] != obs[0]); } } }
            }
        }
    }
}

impl Report {
//@fn iroh/src/net_report/report.rs Report::update props=C27 stripattrs
//@| ensures
//@|     // IPv4 QAD observation of an IPv4 address: appended to the v4 history, v6 side untouched
//@|     forall|h4: Seq<int>| (report matches ProbeReport::QadIpv4(p) && p.addr matches SocketAddr::V4(a)) && abs4(*old(self), h4)
//@|         ==> abs4(*final(self), h4.push((report->QadIpv4_0.addr)->V4_0.id)),
//@|     forall|h6: Seq<int>| (report matches ProbeReport::QadIpv6(p) && p.addr matches SocketAddr::V6(a)) && abs6(*old(self), h6)
//@|         ==> abs6(*final(self), h6.push((report->QadIpv6_0.addr)->V6_0.id)),
//@|     // anything else (https probe, wrong-family address) leaves the address side of that family untouched
//@|     !(report matches ProbeReport::QadIpv4(p) && p.addr is V4) ==> final(self).udp_v4 == old(self).udp_v4 && final(self).global_v4 == old(self).global_v4
//@|         && final(self).mapping_varies_by_dest_ipv4 == old(self).mapping_varies_by_dest_ipv4,
//@|     !(report matches ProbeReport::QadIpv6(p) && p.addr is V6) ==> final(self).udp_v6 == old(self).udp_v6 && final(self).global_v6 == old(self).global_v6
//@|         && final(self).mapping_varies_by_dest_ipv6 == old(self).mapping_varies_by_dest_ipv6,
//@|     // the latency table always records the observation under its probe kind
//@|     report matches ProbeReport::Https(p) ==> final(self).relay_latency.https@ == lat_insert(old(self).relay_latency.https@, p.relay, p.latency),
//@|     report matches ProbeReport::QadIpv4(p) ==> final(self).relay_latency.ipv4@ == lat_insert(old(self).relay_latency.ipv4@, p.relay, p.latency),
//@|     report matches ProbeReport::QadIpv6(p) ==> final(self).relay_latency.ipv6@ == lat_insert(old(self).relay_latency.ipv6@, p.relay, p.latency),
//@|     final(self).preferred_relay == old(self).preferred_relay, final(self).captive_portal == old(self).captive_portal,
//@ins before 1
//@- trace!(?self.global_v4
//@| proof {
//@|     assert forall|h4: Seq<int>| abs4(*old(self), h4) implies abs4(*self, h4.push(ipp.id)) by {
//@|         if h4.len() > 0 { lemma_varies_push(h4, ipp.id); assert(h4.push(ipp.id)[0] == h4[0]); }
//@|     }
//@| }
//@ins before 1
//@- trace!(?self.global_v6
//@| proof {
//@|     assert forall|h6: Seq<int>| abs6(*old(self), h6) implies abs6(*self, h6.push(ipp.id)) by {
//@|         if h6.len() > 0 { lemma_varies_push(h6, ipp.id); assert(h6.push(ipp.id)[0] == h6[0]); }
//@|     }
//@| }
//@end
}
} // verus!
fn main() {}
