//@unit dns_jitter props=C34
// C34 (reduced scope) — add_jitter never panics and stays within +/-20% of the delay.
use vstd::prelude::*;
use vstd::std_specs::cmp::OrdSpec;
verus! {
//@include shims/std_wide.rs
//@include shims/time.rs
use time::Duration;
pub mod rand {
    use vstd::prelude::*;
    // rand::random::<u64>() : any value
    #[verifier::external_body]
    pub fn random<T>() -> T { unimplemented!() }
}
pub open spec fn sat_mul_u64(a: int, b: int) -> int { if a * b > u64::MAX { u64::MAX as int } else { a * b } }

//@item iroh-dns/src/dns.rs const MAX_JITTER_PERCENT

//@fn iroh-dns/src/dns.rs add_jitter props=C34 ret=r
//@| ensures
//@|     // within +/- 20 % of the delay, in milliseconds (integer rounding: floor on both bounds)
//@|     r@ % 1_000_000 == 0,
//@|     (*delay as int) * 80 / 100 <= r@ / 1_000_000 <= (*delay as int) * 120 / 100,
//@|     *delay == 0 ==> r@ == 0,
//@ins before 1
//@- let jitter =
//@| proof {
//@|     broadcast use time::time_axioms;
//@|     assert(max_jitter as int <= (*delay as int) * 40 / 100) by (nonlinear_arith)
//@|         requires max_jitter as int == sat_mul_u64(*delay as int, 40) / 100, *delay >= 0;
//@| }
//@end

// the window is not degenerate: for delays of at least 5 ms at least two different results are possible
pub proof fn lemma_window_width(delay: int)  // [C34]
    requires 5 <= delay <= u64::MAX
    ensures sat_mul_u64(delay, 40) / 100 >= 2
{
}
} // verus!
fn main() {}
