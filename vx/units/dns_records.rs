//@unit dns_records props=C36
// C36 (record filter) — what a signed packet contributes to a zone: only records under the signer's zone label, never
// SOA/NS, and only those the caller's filter accepts.
use vstd::prelude::*;
use vstd::std_specs::cmp::OrdSpec;
// std's matches!
macro_rules! matches { ($e:expr, $p:pat) => { match $e { $p => true, _ => false } }; }
verus! {
//@include shims/std_wide.rs
use std::sync::Arc;
pub struct ProtoError;
pub type Result<T, E> = core::result::Result<T, E>;
pub uninterp spec fn z32_of(k: Seq<u8>) -> Seq<char>;
pub struct PublicKey { pub b: Seq<u8> }
impl PublicKey { #[verifier::external_body] pub fn to_z32(&self) -> (r: String) ensures r@ == z32_of(self.b) { unimplemented!() } }
pub struct SignedPacket { pub key: Seq<u8>, pub answers: Seq<Record> }
impl SignedPacket { #[verifier::external_body] pub fn public_key(&self) -> (r: PublicKey) ensures r.b == self.key { unimplemented!() } }

// ---- trusted shims: hickory proto types.  A name is its sequence of labels; a label is compared by content
pub struct Label { pub s: Seq<char> }
impl Label {
    // Label::from_utf8: the label with exactly this text (case-insensitive comparison is hickory's; here: content)
    #[verifier::external_body]
    pub fn from_utf8(s: &str) -> (r: Result<Label, ProtoError>) ensures r matches Ok(l) ==> l.s == s@ { unimplemented!() }
}
impl PartialEq for Label { #[verifier::external_body] fn eq(&self, o: &Self) -> bool { unimplemented!() } }
impl vstd::std_specs::cmp::PartialEqSpecImpl for Label {
    open spec fn obeys_eq_spec() -> bool { true }
    open spec fn eq_spec(&self, o: &Self) -> bool { self.s == o.s }
}
pub struct RawLabel { pub s: Seq<char> }
impl RawLabel {
    // <&[u8] as IntoLabel>::into_label
    #[verifier::external_body]
    pub fn into_label(self) -> (r: Result<Label, ProtoError>) ensures r matches Ok(l) ==> l.s == self.s { unimplemented!() }
}
#[derive(Clone, Copy, PartialEq, Eq, Structural)]
pub enum RecordType { A, AAAA, TXT, SOA, NS, CNAME, Other(u16) }
pub struct Name { pub labels: Seq<Seq<char>> }
pub struct LabelIter<'a> { pub n: &'a Name, pub taken: int }
impl Name {
    // hickory: the number of labels NOT counting a leading wildcard label `*`
    pub open spec fn wildcard(&self) -> bool { self.labels.len() > 0 && self.labels[0] == "*"@ }
    #[verifier::external_body]
    pub fn num_labels(&self) -> (r: u8) ensures r == self.labels.len() - (if self.wildcard() { 1int } else { 0int }) { unimplemented!() }
    #[verifier::external_body]
    pub fn iter(&self) -> (r: LabelIter<'_>) ensures *r.n == *self, r.taken == -1 { unimplemented!() }
    // Name::from_labels over the first `take(n)` labels of an iterator
    #[verifier::external_body]
    pub fn from_labels(it: LabelIter<'_>) -> (r: Result<Name, ProtoError>)
        requires 0 <= it.taken <= it.n.labels.len()
        ensures r matches Ok(n) ==> n.labels == it.n.labels.subrange(0, it.taken)
    { unimplemented!() }
    #[verifier::external_body]
    pub fn clone(&self) -> (r: Name) ensures r == *self { unimplemented!() }
    #[verifier::external_body]
    pub fn into(self) -> (r: LowerName) ensures r.n == self { unimplemented!() }
}
impl<'a> LabelIter<'a> {
    // the LAST label (DoubleEndedIterator::next_back on a fresh iterator)
    #[verifier::external_body]
    pub fn next_back(&mut self) -> (r: Option<RawLabel>)
        requires old(self).taken == -1
        ensures match r { Some(l) => old(self).n.labels.len() > 0 && l.s == old(self).n.labels.last(), None => old(self).n.labels.len() == 0 }
    { unimplemented!() }
    #[verifier::external_body]
    pub fn take(self, n: usize) -> (r: LabelIter<'a>) requires self.taken == -1 ensures r.n == self.n, r.taken == (if n <= self.n.labels.len() { n as int } else { self.n.labels.len() as int }) { unimplemented!() }
}
pub struct LowerName { pub n: Name }
pub struct Record { pub name: Name, pub rtype: RecordType, pub data: int }
impl Record { #[verifier::external_body] pub fn record_type(&self) -> (r: RecordType) ensures r == self.rtype { unimplemented!() } }
pub struct Message { pub answers: Vec<Record> }
// decoding of the packet's DNS payload: its answer section
#[verifier::external_body]
pub fn signed_packet_to_hickory_message(p: &SignedPacket) -> (r: Result<Message, ProtoError>) ensures r matches Ok(m) ==> m.answers@ == p.answers { unimplemented!() }
pub struct RrKey { pub name: LowerName, pub rtype: RecordType }
impl RrKey { #[verifier::external_body] pub fn new(name: LowerName, rtype: RecordType) -> (r: RrKey) ensures r.name == name, r.rtype == rtype { unimplemented!() } }
pub struct RecordSet { pub id: int }
impl RecordSet {
    #[verifier::external_body] pub fn serial(&self) -> u32 { unimplemented!() }
}
// the output map with a ghost log of every record that went into it (new set or existing set)
pub struct BTreeMap<K, V> { pub added: Seq<Record>, pub k: core::marker::PhantomData<(K, V)> }
impl BTreeMap<RrKey, Arc<RecordSet>> {
    #[verifier::external_body]
    pub fn new() -> (r: Self) ensures r.added.len() == 0 { unimplemented!() }
    // rule R28: the `match output.entry(key) { Vacant => insert(new set from record), Occupied => insert record into the set }`
    // idiom adds the record to the set filed under `key`, whichever arm runs
    #[verifier::external_body]
    pub fn add_record(&mut self, key: RrKey, record: Record)
        requires key.name.n == record.name && key.rtype == record.rtype
        ensures final(self).added == old(self).added.push(record)
    { unimplemented!() }
}

// ---- THE RULE: which answers of the packet are served, and under which name
pub open spec fn served(zone: Seq<char>, a: Record) -> bool {
    a.rtype != RecordType::SOA && a.rtype != RecordType::NS && a.name.labels.len() >= 1 && a.name.labels.last() == zone
}
// the record as filed in the zone: same type and data (its owner name is rewritten relative to the zone; how exactly is
// not part of the property and is not pinned here — for wildcard names hickory's label count excludes the `*`)
pub open spec fn same_record(r: Record, a: Record) -> bool { r.rtype == a.rtype && r.data == a.data }

pub open spec fn from_answer<F: Fn(&Record) -> bool>(zone: Seq<char>, answers: Seq<Record>, filter: F, r: Record) -> bool {
    exists|j: int| 0 <= j < answers.len() && served(zone, #[trigger] answers[j]) && call_ensures(filter, (&answers[j],), true) && same_record(r, answers[j])
}
//@fn iroh-dns-server/src/util.rs signed_packet_to_hickory_records_without_origin props=C36 ret=r letelsecontinue
//@| requires forall|rec: &Record| #[trigger] call_requires(filter, (rec,))
//@| ensures
//@|     r matches Ok((zone, out)) ==> zone.s == z32_of(signed_packet.key)
//@|         // everything that goes into the zone is an answer of THIS packet that lies under the signer's zone label, is
//@|         // neither SOA nor NS and was accepted by the caller's filter — filed with its type and data unchanged
//@|         && forall|i: int| 0 <= i < out.added.len() ==> from_answer(zone.s, signed_packet.answers, filter, #[trigger] out.added[i]),
//@rwx A2 1
//@- for mut record in answers(?:\.into_iter\(\))? \{
//@+ let ghost a0 = answers@; for mut record in it: answers {
//@loop 1
//@| invariant
//@|     it.seq() == a0, a0 == signed_packet.answers, common_zone.s == z32_of(signed_packet.key),
//@|     forall|rec: &Record| #[trigger] call_requires(filter, (rec,)),
//@|     forall|i: int| 0 <= i < output.added.len() ==> from_answer(common_zone.s, signed_packet.answers, filter, #[trigger] output.added[i]),
//@ins before 1
//@- let name = &record.name;
//@| let ghost rec0 = record;
//@ins before 1
//@- let rrkey = RrKey::new(
//@| proof { assert(same_record(record, rec0)); assert(rec0 == a0[it.index@ as int]); assert(served(common_zone.s, signed_packet.answers[it.index@ as int])); }
//@rwx R28 1
//@- (?s)match output\.entry\(rrkey\) \{\s*btree_map::Entry::Vacant\(e\) => \{[^{}]*\}\s*btree_map::Entry::Occupied\(mut e\) => \{[^{}]*\}\s*\}
//@+ output.add_record(rrkey, record);
//@end
} // verus!
fn main() {}
