//@unit captive_portal props=C13
// C13 — the captive-portal probe echoes a challenge exactly when it is well formed.
use vstd::prelude::*;
use vstd::std_specs::cmp::OrdSpec;
use vstd::std_specs::iter::IteratorSpec;
// format! with one `{}` placeholder (Display of a &str): result characterised by `fmt1_spec` below
macro_rules! format { ($f:literal, $x:expr) => { fmt1($f, $x) }; }
verus! {
//@include shims/std_wide.rs

// ---- Iterator::all over a slice iterator (DESIGN §2.1 / rule R8): assumed spec over an uninterpreted item sequence,
// tied to vstd's iterator model by one axiom
pub uninterp spec fn slice_iter_seq<'a, T>(it: core::slice::Iter<'a, T>) -> Seq<&'a T>;
pub assume_specification<'a, T, F: FnMut(&'a T) -> bool> [<core::slice::Iter<'a, T> as Iterator>::all] (it: &mut core::slice::Iter<'a, T>, f: F) -> (r: bool)
    where core::slice::Iter<'a, T>: Sized
    ensures
        r ==> forall|i: int| 0 <= i < slice_iter_seq(*old(it)).len() ==> call_ensures(f, (#[trigger] slice_iter_seq(*old(it))[i],), true),
        !r ==> exists|i: int| 0 <= i < slice_iter_seq(*old(it)).len() && call_ensures(f, (#[trigger] slice_iter_seq(*old(it))[i],), false);
#[verifier::external_body]
pub broadcast proof fn axiom_slice_iter_seq<'a, T>(it: core::slice::Iter<'a, T>)
    ensures #[trigger] slice_iter_seq(it) == it.remaining()
{}
// char classification (std semantics)
pub assume_specification [char::is_ascii_lowercase] (c: &char) -> (r: bool) ensures r == ('a' <= *c && *c <= 'z');
pub assume_specification [char::is_ascii_uppercase] (c: &char) -> (r: bool) ensures r == ('A' <= *c && *c <= 'Z');
pub assume_specification [char::is_ascii_digit] (c: &char) -> (r: bool) ensures r == ('0' <= *c && *c <= '9');
pub assume_specification [char::is_ascii_alphanumeric] (c: &char) -> (r: bool) ensures r == (('a' <= *c && *c <= 'z') || ('A' <= *c && *c <= 'Z') || ('0' <= *c && *c <= '9'));
pub assume_specification [char::is_ascii_alphabetic] (c: &char) -> (r: bool) ensures r == (('a' <= *c && *c <= 'z') || ('A' <= *c && *c <= 'Z'));

// ---- THE RULE of the property
pub open spec fn challenge_char(c: char) -> bool {
    ('a' <= c && c <= 'z') || ('A' <= c && c <= 'Z') || ('0' <= c && c <= '9') || c == '.' || c == '-' || c == '_'
}
pub open spec fn well_formed(b: Seq<u8>) -> bool {
    1 <= b.len() <= 63 && forall|i: int| 0 <= i < b.len() ==> challenge_char(#[trigger] b[i] as char)
}
pub open spec fn as_chars(b: Seq<u8>) -> Seq<char> { Seq::new(b.len(), |i: int| b[i] as char) }

// ---- trusted shims: http / hyper (ghost view: header list and status)
pub struct ToStrError;
pub struct HeaderValue { pub bytes: Vec<u8> }
impl HeaderValue {
    pub open spec fn view(&self) -> Seq<u8> { self.bytes@ }
    #[verifier::external_body] pub fn is_empty(&self) -> (r: bool) ensures r == (self@.len() == 0) { unimplemented!() }
    #[verifier::external_body] pub fn len(&self) -> (r: usize) ensures r == self@.len() { unimplemented!() }
    #[verifier::external_body] pub fn as_bytes(&self) -> (r: &[u8]) ensures r@ == self@ { unimplemented!() }
    // http: to_str succeeds iff every byte is visible ASCII (32..=126) or tab
    #[verifier::external_body]
    pub fn to_str(&self) -> (r: Result<&str, ToStrError>)
        ensures r is Ok <==> (forall|i: int| 0 <= i < self@.len() ==> (32 <= #[trigger] self@[i] <= 126 || self@[i] == 9)),
                r matches Ok(s) ==> s@ == as_chars(self@)
    { unimplemented!() }
}
pub struct HeaderMap { pub entries: Seq<(Seq<char>, Seq<u8>)> }   // ghost content only
pub uninterp spec fn first_value(m: HeaderMap, name: Seq<char>) -> Option<Seq<u8>>;   // value of the first header with that (case-insensitive) name
impl HeaderMap {
    #[verifier::external_body]
    pub fn get(&self, name: &str) -> (r: Option<&HeaderValue>)
        ensures match r { Some(v) => first_value(*self, name@) == Some(v@), None => first_value(*self, name@) is None }
    { unimplemented!() }
}
pub mod hyper { pub mod body { pub trait Body {} } }
pub struct Request<B> { pub headers: HeaderMap, pub body: B }
impl<B> Request<B> {
    #[verifier::external_body] pub fn headers(&self) -> (r: &HeaderMap) ensures *r == self.headers { unimplemented!() }
}
pub struct StatusCode(pub u16);
impl StatusCode { pub const NO_CONTENT: StatusCode = StatusCode(204); }
pub struct BytesBody;
#[verifier::external_body] pub fn body_empty() -> BytesBody { unimplemented!() }
pub struct HttpError;
pub struct HyperError;
pub type HyperResult<T> = Result<T, HyperError>;
// `challenge.to_str()?` converts the error with From (Box<dyn Error>): any error value
impl From<ToStrError> for HyperError { #[verifier::external_body] fn from(e: ToStrError) -> HyperError { unimplemented!() } }
// rule R23: `Box::new(err) as HyperError` (unsizing cast to a boxed trait object)
#[verifier::external_body] pub fn box_err(e: HttpError) -> HyperError { unimplemented!() }
pub open spec fn valid_header_value(v: Seq<char>) -> bool { forall|i: int| 0 <= i < v.len() ==> (32 <= (#[trigger] v[i]) as u32 <= 126 || v[i] as u32 == 9) }
// http::response::Builder: accumulates headers and a status; an invalid header value poisons it; body() fails iff poisoned
pub struct ResponseBuilder { pub headers: Seq<(Seq<char>, Seq<char>)>, pub status: int, pub ok: bool }
pub struct Response<B> { pub headers: Seq<(Seq<char>, Seq<char>)>, pub status: int, pub body: B }
impl ResponseBuilder {
    #[verifier::external_body]
    pub fn header(self, name: &str, value: String) -> (r: ResponseBuilder)
        ensures r.headers == self.headers.push((name@, value@)), r.status == self.status, r.ok == (self.ok && valid_header_value(value@))
    { unimplemented!() }
    #[verifier::external_body]
    pub fn status(self, s: StatusCode) -> (r: ResponseBuilder)
        ensures r.headers == self.headers, r.status == s.0, r.ok == self.ok
    { unimplemented!() }
    #[verifier::external_body]
    pub fn body<B>(self, b: B) -> (r: Result<Response<B>, HttpError>)
        ensures r is Ok <==> self.ok, r matches Ok(resp) ==> resp.headers == self.headers && resp.status == self.status
    { unimplemented!() }
}
// format!("<literal with one {}>", x)
pub uninterp spec fn fmt1_spec(f: Seq<char>, x: Seq<char>) -> Seq<char>;
#[verifier::external_body]
pub fn fmt1(f: &str, x: &str) -> (r: String) ensures r@ == fmt1_spec(f@, x@) { unimplemented!() }
// what std's formatting does for this one format string (any other format string stays uninterpreted)
pub broadcast axiom fn fmt1_response(x: Seq<char>)
    ensures #[trigger] fmt1_spec("response {}"@, x) == "response "@ + x;

//@item iroh-relay/src/server.rs const NO_CONTENT_CHALLENGE_HEADER pub
//@item iroh-relay/src/server.rs const NO_CONTENT_RESPONSE_HEADER pub

//@fn iroh-relay/src/server.rs is_challenge_char props=C13 ret=r
//@| ensures r == challenge_char(c)
//@end

pub open spec fn echoed(hs: Seq<(Seq<char>, Seq<char>)>, base: Seq<(Seq<char>, Seq<char>)>, ch: Seq<u8>) -> bool {
    hs == base.push((NO_CONTENT_RESPONSE_HEADER@, "response "@ + as_chars(ch)))
}

//@fn iroh-relay/src/server.rs serve_no_content_handler props=C13 ret=res letchains
//@| requires response.ok
//@| ensures
//@|     // every request is answered, with 204
//@|     res matches Ok(resp) && resp.status == 204,
//@|     // the response header is added exactly for a well-formed challenge, and then it is `response <challenge>` ...
//@|     res matches Ok(resp) ==> (first_value(r.headers, NO_CONTENT_CHALLENGE_HEADER@) matches Some(ch) && well_formed(ch))
//@|         ==> echoed(resp.headers, response.headers, first_value(r.headers, NO_CONTENT_CHALLENGE_HEADER@).unwrap()),
//@|     // ... and any other request (no challenge, empty, 64 or more characters, a character outside the set) gets none
//@|     res matches Ok(resp) ==> !(first_value(r.headers, NO_CONTENT_CHALLENGE_HEADER@) matches Some(ch) && well_formed(ch))
//@|         ==> resp.headers == response.headers,
//@rw D2 1
//@- <B: hyper::body::Body>
//@+ <B>
//@rwx R8 1
//@- (?s)let (\w+) = \|(\w+): &HeaderValue\| \{\n(.*?)\2\s*\.as_bytes\(\)\s*\.iter\(\)\s*\.all\(\|(\w+)\| ([^\n]*)\)\n(\s*)\};
//@+ let \1 = |\2: &HeaderValue| -> (ok: bool) ensures ok == well_formed(\2@) {\n let mut it_1 = \2.as_bytes().iter(); let ghost s_1 = it_1.remaining(); let all_1 = it_1.all(|\4: &u8| -> (b: bool) ensures b == challenge_char(*\4 as char) { \5 }); proof { all_hint(\2@, s_1, all_1); }\n\3all_1\n\6};
//@rwx R23 1
//@- \.map_err\(\|err\| Box::new\(err\) as HyperError\)
//@+ .map_err(|err: HttpError| -> (o: HyperError) { box_err(err) })
//@ins before 1
//@- : &HeaderValue| -> (ok: bool)
//@| broadcast use axiom_slice_iter_seq, fmt1_response;
//@| proof { reveal_strlit("response {}"); reveal_strlit("response "); }
//@end

// connects the iterator's item sequence with the header bytes (hint used at the `all` call site)
pub proof fn all_hint(b: Seq<u8>, s: Seq<&u8>, a: bool)
    requires s.len() == b.len(), forall|i: int| 0 <= i < b.len() ==> *(#[trigger] s[i]) == b[i],
        a ==> forall|i: int| 0 <= i < s.len() ==> challenge_char(*(#[trigger] s[i]) as char),
        !a ==> exists|i: int| 0 <= i < s.len() && !challenge_char(*(#[trigger] s[i]) as char),
    ensures a == (forall|i: int| 0 <= i < b.len() ==> challenge_char(#[trigger] b[i] as char))
{
    if a { assert forall|i: int| 0 <= i < b.len() implies challenge_char(#[trigger] b[i] as char) by { assert(*s[i] == b[i]); } }
    else { let i = choose|i: int| 0 <= i < s.len() && !challenge_char(*(#[trigger] s[i]) as char); assert(!challenge_char(b[i] as char)); }
}
} // verus!
fn main() {}
