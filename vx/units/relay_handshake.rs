//@unit relay_handshake props=C03
// C03 — relay handshake admits an identity only with proof of its secret key.
use vstd::prelude::*;
use vstd::std_specs::cmp::OrdSpec;
macro_rules! trace { ($($t:tt)*) => {}; }
// n0_error::e! builds the named error value (plus a source location); ensure!(c, E) is `if !c { return Err(e!(E).into()) }`
macro_rules! e {
    (VerificationError :: $($t:tt)*) => { mk_verification_error() };
    (Error :: $($t:tt)*) => { mk_error() };
}
// std's matches!
macro_rules! matches { ($e:expr, $p:pat) => { match $e { $p => true, _ => false } }; }
macro_rules! anyerr { ($($t:tt)*) => { () }; }
macro_rules! ensure { ($cond:expr, $($t:tt)*) => { if !$cond { return Err(into_err(e!($($t)*))); } }; }
verus! {
//@include shims/std_wide.rs
// ---- error values built by the e!/ensure! shims (n0_error's macros add a source location only)
pub struct Error;
#[verifier::external_body] pub fn mk_error() -> Error { unimplemented!() }
#[verifier::external_body] pub fn mk_verification_error() -> VerificationError { unimplemented!() }
#[verifier::external_body] pub fn into_err<A, B>(a: A) -> B { unimplemented!() }   // From::from on error types
#[verifier::external_type_specification]
#[verifier::external_body]
pub struct ExTryFromSliceError(core::array::TryFromSliceError);

// ---- futures returned by trait methods of foreign streams
#[verifier::external_body]
#[verifier::reject_recursive_types(T)]
pub struct Fut<T> { t: core::marker::PhantomData<T> }
#[verifier::external]
impl<T> core::future::Future for Fut<T> { type Output = T; fn poll(self: core::pin::Pin<&mut Self>, cx: &mut core::task::Context<'_>) -> core::task::Poll<T> { unimplemented!() } }

pub struct Bytes;
#[derive(PartialEq, Eq, Clone, Copy, Structural)]
pub enum FrameType { ServerChallenge, ClientAuth, ServerConfirmsAuth, ServerDeniesAuth, Other }
impl FrameType {
    // any tag an adversary chooses to send
    #[verifier::external_body]
    pub fn from_bytes(b: &mut Bytes) -> (r: Result<FrameType, Error>) { unimplemented!() }
}

pub mod iroh_base { pub use super::SignatureError; }
// the real error enum; the e!/ensure! shims build ANY of its values (mk_verification_error), so code that distinguishes
// variants is checked for every variant
//@item iroh-relay/src/protos/handshake.rs enum VerificationError pub

// ---- property-level uninterpreted vocabulary
pub uninterp spec fn ed_valid(pk: PublicKey, msg: Seq<u8>, sig: Seq<u8>) -> bool;    // verify_strict accepts (pk, msg, sig)
pub uninterp spec fn fresh(ch: Seq<u8>) -> bool;                                     // challenge drawn from the RNG in this handshake
pub uninterp spec fn blake3_derive_key(context: Seq<char>, material: Seq<u8>) -> Seq<u8>;
pub uninterp spec fn km_of(session: int, label: Seq<u8>, context: Option<Seq<u8>>) -> Option<Seq<u8>>;  // RFC 5705 exporter of a TLS session
pub uninterp spec fn tls_label() -> Seq<u8>;
pub uninterp spec fn pk_of(sk: SecretKey) -> PublicKey;
pub uninterp spec fn sign_spec(sk: SecretKey, msg: Seq<u8>) -> Seq<u8>;
// ASSUMPTION (Ed25519 correctness): a signature made with sk verifies under sk's public key
pub broadcast axiom fn ed_sign_verifies(sk: SecretKey, msg: Seq<u8>)
    ensures #[trigger] ed_valid(pk_of(sk), msg, sign_spec(sk, msg));

// ---- trusted shims: iroh_base keys
#[derive(Clone, Copy, PartialEq, Eq)]
pub struct PublicKey { pub b: [u8; 32] }
pub struct SignatureError;
pub struct Signature { pub b: [u8; 64] }
impl Signature {
    #[verifier::external_body]
    pub fn from_bytes(b: &[u8; 64]) -> (r: Signature) ensures r.b@ == b@ { unimplemented!() }
    #[verifier::external_body]
    pub fn to_bytes(&self) -> (r: [u8; 64]) ensures r@ == self.b@ { unimplemented!() }
}
impl PublicKey {
    #[verifier::external_body]
    pub fn verify(&self, message: &[u8], sig: &Signature) -> (r: Result<(), SignatureError>)
        ensures r is Ok <==> ed_valid(*self, message@, sig.b@)
    { unimplemented!() }
    #[verifier::external_body]
    pub fn as_bytes(&self) -> (r: &[u8; 32]) ensures r@ == self.b@ { unimplemented!() }
}
pub struct SecretKey { pub s: [u8; 32] }
impl SecretKey {
    #[verifier::external_body]
    pub fn public(&self) -> (r: PublicKey) ensures r == pk_of(*self) { unimplemented!() }
    #[verifier::external_body]
    pub fn sign(&self, msg: &[u8]) -> (r: Signature) ensures r.b@ == sign_spec(*self, msg@) { unimplemented!() }
}
pub mod blake3 {
    use vstd::prelude::*;
    #[verifier::external_body]
    pub fn derive_key(context: &str, key_material: &[u8]) -> (r: [u8; 32])
        ensures r@ == super::blake3_derive_key(context@, key_material@)
    { unimplemented!() }
}
#[derive(Clone)]
pub struct HeaderValue;
impl HeaderValue {
    #[verifier::external_body]
    pub fn as_ref(&self) -> (r: &[u8]) { unimplemented!() }
}
pub mod data_encoding {
    use vstd::prelude::*;
    pub struct DecodeError;
    pub struct Encoding;
    impl Encoding {
        #[verifier::external_body]
        pub fn decode(&self, b: &[u8]) -> (r: Result<Vec<u8>, DecodeError>) { unimplemented!() }
    }
    pub const BASE64URL_NOPAD: Encoding = Encoding;
}
pub mod postcard {
    use vstd::prelude::*;
    pub struct PcError;
    // decoding is some partial function of the bytes: ANY value of the target type may come out
    #[verifier::external_body]
    pub fn from_bytes<T>(b: &[u8]) -> (r: Result<T, PcError>) { unimplemented!() }
}
pub mod rand {
    use vstd::prelude::*;
    pub struct ThreadRng;
    #[verifier::external_body]
    pub fn rng() -> ThreadRng { unimplemented!() }
}

// ---- the connection: a stream/sink of frames plus (maybe) a TLS exporter
pub trait HasSession { spec fn session(&self) -> int; }
pub trait ExportKeyingMaterial: HasSession {
    fn export_keying_material(&self, output: [u8; 32], label: &[u8], context: Option<&[u8]>) -> (r: Option<[u8; 32]>)
        ensures
            (match r { Some(a) => Some(a@), None => None::<Seq<u8>> })
                == km_of(self.session(), label@, match context { Some(c) => Some(c@), None => None::<Seq<u8>> }),
            r matches Some(a) ==> a@.len() == 32;
}
pub trait BytesStreamSink: HasSession {
    spec fn sent(&self) -> Seq<FrameType>;      // ghost log: tags of the frames written so far
    // the adversary: any frame, any error, end of stream
    fn try_next(&mut self) -> (r: Fut<Result<Option<Bytes>, Error>>)
        ensures final(self).session() == old(self).session(), final(self).sent() == old(self).sent();
}

//@item iroh-relay/src/protos/handshake.rs const DOMAIN_SEP_CHALLENGE pub
// the label's bytes are abstracted as the spec constant tls_label() (byte-string literals have no spec value in Verus)
//@item iroh-relay/src/protos/handshake.rs const DOMAIN_SEP_TLS_EXPORT_LABEL pub execconst assume_value
//@| ensures DOMAIN_SEP_TLS_EXPORT_LABEL@ == tls_label()

//@item iroh-relay/src/protos/handshake.rs struct KeyMaterialClientAuth
//@item iroh-relay/src/protos/handshake.rs struct ServerChallenge
//@item iroh-relay/src/protos/handshake.rs struct ClientAuth
//@item iroh-relay/src/protos/handshake.rs struct ServerConfirmsAuth
//@item iroh-relay/src/protos/handshake.rs struct ServerDeniesAuth pubfields derive=Clone
//@item iroh-relay/src/protos/handshake.rs struct SuccessfulAuthentication
//@item iroh-relay/src/protos/handshake.rs enum Mechanism derive=Clone,Copy,PartialEq,Eq

pub trait Frame { spec fn tag_spec() -> FrameType; }
impl Frame for ServerChallenge { open spec fn tag_spec() -> FrameType { FrameType::ServerChallenge } }
impl Frame for &ServerChallenge { open spec fn tag_spec() -> FrameType { FrameType::ServerChallenge } }
impl Frame for ClientAuth { open spec fn tag_spec() -> FrameType { FrameType::ClientAuth } }
impl Frame for ServerConfirmsAuth { open spec fn tag_spec() -> FrameType { FrameType::ServerConfirmsAuth } }
impl Frame for ServerDeniesAuth { open spec fn tag_spec() -> FrameType { FrameType::ServerDeniesAuth } }
impl ServerChallenge { pub const TAG: FrameType = FrameType::ServerChallenge; }
impl ClientAuth { pub const TAG: FrameType = FrameType::ClientAuth; }
impl ServerConfirmsAuth { pub const TAG: FrameType = FrameType::ServerConfirmsAuth; }
impl ServerDeniesAuth { pub const TAG: FrameType = FrameType::ServerDeniesAuth; }

// write_frame: postcard + sink plumbing is trusted; what it does to the ghost log is the contract
#[verifier::external_body]
pub async fn write_frame<F: Frame, I: BytesStreamSink>(io: &mut I, frame: F) -> (r: Result<(), Error>)
    ensures final(io).session() == old(io).session(),
            r is Ok ==> final(io).sent() == old(io).sent().push(F::tag_spec()),
            r is Err ==> (final(io).sent() == old(io).sent() || final(io).sent() == old(io).sent().push(F::tag_spec())),
{ unimplemented!() }
#[verifier::external_body]
pub fn deserialize_frame<F>(frame: Bytes) -> (r: Result<F, Error>) { unimplemented!() }

#[verifier::external_body]
pub fn slice_try_into_arr<const N: usize>(s: &[u8]) -> (r: Result<[u8; N], core::array::TryFromSliceError>)
    ensures r is Ok <==> s@.len() == N, r matches Ok(a) ==> a@ == s@
{ s.try_into() }
#[verifier::external_body]
pub fn array_eq<const N: usize>(a: &[u8; N], b: &[u8; N]) -> (r: bool) ensures r == (a@ == b@) { a == b }
#[verifier::external_body]
pub fn str_into_string(s: &str) -> (r: String) { s.into() }

// ---- what "the client proved possession of K" means
pub open spec fn challenge_msg(ch: Seq<u8>) -> Seq<u8> { blake3_derive_key(DOMAIN_SEP_CHALLENGE@, ch) }
// key-material proof: the exporter output bound to the CLAIMED key, suffix passed through, prefix signed by that key
pub open spec fn km_ok(session: int, a: KeyMaterialClientAuth) -> bool {
    match km_of(session, tls_label(), Some(a.public_key.b@)) {
        Some(m) => m.len() == 32 && m.subrange(16, 32) == a.key_material_suffix@
            && ed_valid(a.public_key, m.subrange(0, 16), a.signature@),
        None => false,
    }
}
pub open spec fn authenticated(k: PublicKey, m: Mechanism, session: int) -> bool {
    match m {
        Mechanism::SignedKeyMaterial => exists|a: KeyMaterialClientAuth| a.public_key == k && #[trigger] km_ok(session, a),
        Mechanism::SignedChallenge => exists|ch: Seq<u8>, sig: Seq<u8>| fresh(ch) && #[trigger] ed_valid(k, challenge_msg(ch), sig),
    }
}

impl ServerChallenge {
    // the only source of `fresh`: a challenge drawn from the RNG inside this call
    #[verifier::external_body]
    pub fn new<R>(rng: &mut R) -> (r: ServerChallenge) ensures fresh(r.challenge@) { unimplemented!() }

//@fn iroh-relay/src/protos/handshake.rs ServerChallenge::message_to_sign props=C03 ret=r
//@| ensures r@ == challenge_msg(self.challenge@)
//@end
}

impl ClientAuth {
//@fn iroh-relay/src/protos/handshake.rs ClientAuth::new props=C03 ret=r
//@| ensures r.public_key == pk_of(*secret_key), r.signature@ == sign_spec(*secret_key, challenge_msg(challenge.challenge@))
//@end

//@fn iroh-relay/src/protos/handshake.rs ClientAuth::verify props=C03 ret=r
//@| ensures r is Ok <==> ed_valid(self.public_key, challenge_msg(challenge.challenge@), self.signature@)
//@rw A3 1
//@- .map_err(Box::new)
//@+ .map_err(|b: VerificationError| -> (o: Box<VerificationError>) { Box::new(b) })
//@end
}

impl KeyMaterialClientAuth {
//@fn iroh-relay/src/protos/handshake.rs KeyMaterialClientAuth::new props=C03 ret=r
//@| ensures
//@|     r matches Some(a) ==> (a.public_key == pk_of(*secret_key) && (km_of(io.session(), tls_label(), Some(pk_of(*secret_key).b@)) matches Some(m)
//@|         && m.len() == 32 && a.key_material_suffix@ == m.subrange(16, 32) && a.signature@ == sign_spec(*secret_key, m.subrange(0, 16)))),
//@|     r is None <==> km_of(io.session(), tls_label(), Some(pk_of(*secret_key).b@)) is None,
//@rw R12 1
//@- suffix.try_into().expect("hardcoded length")
//@+ slice_try_into_arr::<16>(suffix).expect("hardcoded length")
//@end

//@fn iroh-relay/src/protos/handshake.rs KeyMaterialClientAuth::verify props=C03 ret=r
//@| ensures r is Ok <==> km_ok(io.session(), *self)
//@rw R12 1
//@- suffix.try_into().expect("hardcoded length")
//@+ slice_try_into_arr::<16>(suffix).expect("hardcoded length")
//@rw R11 1
//@- suffix == self.key_material_suffix,
//@+ array_eq::<16>(&suffix, &self.key_material_suffix),
//@rw A3 1
//@- .map_err(Box::new)
//@+ .map_err(|b: VerificationError| -> (o: Box<VerificationError>) { Box::new(b) })
//@end
}

//@fn iroh-relay/src/protos/handshake.rs read_frame props=C03 ret=r
//@| ensures
//@|     final(io).sent() == old(io).sent(),
//@|     final(io).session() == old(io).session(),
//@|     r matches Ok((t, _)) ==> expected_types@.contains(t),
//@rw R1 *
//@- .map_err(|err| e!(Error::Websocket, anyerr!(err)))?
//@+ .map_err(|_err| e!(Error::Websocket, anyerr!(err)))?
//@end

//@fn iroh-relay/src/protos/handshake.rs serverside props=C03 ret=r
//@| ensures
//@|     final(io).session() == old(io).session(),
//@|     // the reported identity is one the client proved possession of, by one of the two mechanisms, in THIS session
//@|     r matches Ok(a) ==> authenticated(a.client_key, a.mechanism, old(io).session()),
//@|     // the only frames the server writes are one challenge, optionally followed by one denial: a key-material header
//@|     // that does not verify (different material, no material on the server's side, bad signature) never ends the
//@|     // handshake by itself — the challenge round follows, which is what lets an honest client always get in
//@|     final(io).sent() == old(io).sent() || final(io).sent() == old(io).sent().push(FrameType::ServerChallenge)
//@|         || final(io).sent() == old(io).sent().push(FrameType::ServerChallenge).push(FrameType::ServerDeniesAuth),
//@rwx R1 *
//@- \.map_err\(\|_\| \{
//@+ .map_err(|_w| {
//@rwx R15 *
//@- reason: ("[^"]*")\.into\(\),
//@+ reason: str_into_string(\1),
//@end

//@fn iroh-relay/src/protos/handshake.rs clientside props=C03 ret=r
//@| ensures final(io).session() == old(io).session()
//@end

impl SuccessfulAuthentication {
//@fn iroh-relay/src/protos/handshake.rs SuccessfulAuthentication::accept props=C03 ret=r
//@| ensures
//@|     final(io).session() == old(io).session(),
//@|     r matches Ok(k) ==> k == self.client_key && final(io).sent() == old(io).sent().push(FrameType::ServerConfirmsAuth),
//@|     r is Err ==> (final(io).sent() == old(io).sent() || final(io).sent() == old(io).sent().push(FrameType::ServerConfirmsAuth)),
//@end

//@fn iroh-relay/src/protos/handshake.rs SuccessfulAuthentication::deny props=C03 ret=r
//@| ensures
//@|     final(io).session() == old(io).session(),
//@|     // the denial frame is written (or the write itself failed): never a confirmation
//@|     final(io).sent() == old(io).sent() || final(io).sent() == old(io).sent().push(FrameType::ServerDeniesAuth),
//@rw R15 1
//@- reason.unwrap_or_else(|| "not authorized".into());
//@+ reason.unwrap_or_else(|| -> (o: String) { str_into_string("not authorized") });
//@end

//@fn iroh-relay/src/protos/handshake.rs SuccessfulAuthentication::authorize_if props=C03 ret=r
//@| ensures
//@|     final(io).session() == old(io).session(),
//@|     // a denial never yields an admitted connection and never writes a confirmation
//@|     access is Deny ==> r is Err && (final(io).sent() == old(io).sent() || final(io).sent() == old(io).sent().push(FrameType::ServerDeniesAuth)),
//@|     r matches Ok(k) ==> access is Allow && k == self.client_key && final(io).sent() == old(io).sent().push(FrameType::ServerConfirmsAuth),
//@end
}

//@item iroh-relay/src/server.rs enum Access

// ---- access control (server.rs): trusted shims for the policy object and the disconnect guard
use std::sync::Arc;
pub struct EndpointIdT(pub PublicKey);
#[derive(Clone, Copy, PartialEq, Eq)]
pub struct ConnectionId(pub u64);
pub struct ClientRequest { pub connection_id: ConnectionId, pub endpoint_id: PublicKey }
pub uninterp spec fn policy_decision(request: ClientRequest) -> Access;
pub trait DynAccessControl {
    // the policy's verdict for this request (any verdict; named so the contract can refer to it)
    fn on_connect(&self, request: &ClientRequest) -> (r: Fut<Access>);
}
pub struct OnDisconnectGuard { pub armed: bool, pub endpoint_id: PublicKey, pub connection_id: ConnectionId }
impl OnDisconnectGuard {
    #[verifier::external_body]
    pub fn for_access_control(access: Arc<dyn DynAccessControl>, request: &ClientRequest) -> (r: OnDisconnectGuard)
        ensures r.armed, r.endpoint_id == request.endpoint_id, r.connection_id == request.connection_id
    { unimplemented!() }
}
impl SuccessfulAuthentication {
//@fn iroh-relay/src/protos/handshake.rs SuccessfulAuthentication::authorize_with props=C03 ret=r
//@| ensures
//@|     final(io).session() == old(io).session(),
//@|     // a guard (= an admitted, registered connection) exists only after the confirmation frame was written, for this request's ids
//@|     r matches Ok(g) ==> g.armed && g.endpoint_id == request.endpoint_id && g.connection_id == request.connection_id
//@|         && final(io).sent() == old(io).sent().push(FrameType::ServerConfirmsAuth),
//@|     r is Err ==> (final(io).sent() == old(io).sent() || final(io).sent() == old(io).sent().push(FrameType::ServerDeniesAuth)
//@|         || final(io).sent() == old(io).sent().push(FrameType::ServerConfirmsAuth)),
//@end
}

// ---- honest-client composition (exec tests verified against the callee CONTRACTS only)
// challenge path: an honest client holding sk is accepted for the challenge it was given
pub fn honest_challenge_roundtrip(sk: &SecretKey, ch: &ServerChallenge) -> (r: Result<(), Box<VerificationError>>)  // [C03]
    ensures r is Ok
{
    broadcast use ed_sign_verifies;
    let auth = ClientAuth::new(sk, ch);
    auth.verify(ch)
}
// key-material path: if both ends export the same material for sk's key, the honest header verifies
pub fn honest_key_material_roundtrip<C: ExportKeyingMaterial, S: ExportKeyingMaterial>(sk: &SecretKey, client_io: &C, server_io: &S) -> (r: Option<Result<(), Box<VerificationError>>>)  // [C03]
    requires km_of(client_io.session(), tls_label(), Some(pk_of(*sk).b@)) == km_of(server_io.session(), tls_label(), Some(pk_of(*sk).b@)),
    ensures r matches Some(v) ==> v is Ok,
            r is None <==> km_of(client_io.session(), tls_label(), Some(pk_of(*sk).b@)) is None,
{
    broadcast use ed_sign_verifies;
    match KeyMaterialClientAuth::new(sk, client_io) {
        Some(a) => Some(a.verify(server_io)),
        None => None,
    }
}
} // verus!
fn main() {}
