//@unit relay_codec props=C10
// C10 — relay frames encode and decode exactly, and decoding is total.
use vstd::prelude::*;
use vstd::std_specs::cmp::OrdSpec;
use std::num::NonZeroU16;
macro_rules! e {
    (Error :: $($t:tt)*) => { mk_error() };
    ($($err:tt)::+ { $($body:tt)* }) => { $($err)::+ { $($body)* } };
    ($($err:tt)::+) => { $($err)::+ {} };
}
macro_rules! ensure { ($cond:expr, $($t:tt)*) => { if !$cond { return Err(e!($($t)*)); } }; }
verus! {
//@include shims/std_wide.rs
//@include shims/bytes.rs
impl Bytes {
    #[verifier::external_body]
    pub fn get_u8(&mut self) -> (r: u8)
        requires old(self)@.len() >= 1     // bytes panics otherwise
        ensures r == old(self)@[0], final(self)@ == old(self)@.subrange(1, old(self)@.len() as int)
    { unimplemented!() }
    #[verifier::external_body]
    pub fn get_u16(&mut self) -> (r: u16)
        requires old(self)@.len() >= 2
        ensures r == be16(old(self)@[0], old(self)@[1]), final(self)@ == old(self)@.subrange(2, old(self)@.len() as int)
    { unimplemented!() }
    #[verifier::external_body]
    pub fn slice(&self, r: core::ops::RangeFrom<usize>) -> (o: Bytes)
        requires r.start <= self@.len()
        ensures o@ == self@.subrange(r.start as int, self@.len() as int)
    { unimplemented!() }
    #[verifier::external_body]
    pub fn as_ref(&self) -> (r: &[u8]) ensures r@ == self@ { unimplemented!() }
}
pub open spec fn be16(hi: u8, lo: u8) -> u16 { ((hi as u16) * 256 + (lo as u16)) as u16 }
// rule R17: `&content[..n]` on the foreign type Bytes
#[verifier::external_body]
pub fn bytes_prefix(b: &Bytes, n: usize) -> (o: &[u8])
    requires n <= b@.len()
    ensures o@ == b@.subrange(0, n as int)
{ unimplemented!() }

// ---- bytes::BufMut: a buffer with a ghost view of everything written so far
pub trait BufMut: Sized {
    spec fn written(&self) -> Seq<u8>;
    fn put_u8(&mut self, n: u8)
        ensures final(self).written() == old(self).written().push(n);
    fn put_u16(&mut self, n: u16)      // big endian
        ensures final(self).written() == old(self).written().push((n / 256) as u8).push((n % 256) as u8);
    fn put(&mut self, src: &[u8])
        ensures final(self).written() == old(self).written() + src@;
}

pub struct Error;
#[verifier::external_body] pub fn mk_error() -> Error { unimplemented!() }
pub struct SignatureError;
pub struct FrameTypeError;
impl From<SignatureError> for Error { #[verifier::external_body] fn from(e: SignatureError) -> Error { unimplemented!() } }
impl From<FrameTypeError> for Error { #[verifier::external_body] fn from(e: FrameTypeError) -> Error { unimplemented!() } }


//@item iroh-relay/src/protos/relay.rs const MAX_PACKET_SIZE
//@item iroh-relay/src/protos/relay.rs struct Datagrams
//@include shims/relay_wire.rs
impl noq_proto::EcnCodepoint {
    pub open spec fn bits(self) -> u8 { match self { noq_proto::EcnCodepoint::Ect0 => 2u8, noq_proto::EcnCodepoint::Ect1 => 1u8, noq_proto::EcnCodepoint::Ce => 3u8 } }
}
impl PublicKey {
    #[verifier::external_body]
    pub fn as_ref(&self) -> (r: &[u8]) ensures r@ == self.b@ { unimplemented!() }
}
pub struct KeyCache;
impl KeyCache {
    // PublicKey::try_from on the slice: 32 bytes that are a valid curve point
    #[verifier::external_body]
    pub fn key_from_slice(&self, slice: &[u8]) -> (r: Result<PublicKey, SignatureError>)
        ensures r matches Ok(k) ==> slice@.len() == 32 && k.b@ == slice@,
                r is Ok <==> slice@.len() == 32 && valid_point(slice@)
    { unimplemented!() }
}
pub uninterp spec fn valid_point(b: Seq<u8>) -> bool;

//@item iroh-relay/src/protos/common.rs enum FrameType derive=Clone,Copy,PartialEq,Eq,Structural
impl FrameType {
    // QUIC varint of the discriminant: all frame types are < 64, i.e. one byte equal to the discriminant
    // (FrameType::encoded_len == 1 is proved in unit relay_sink)
    #[verifier::external_body]
    pub fn write_to<O: BufMut>(&self, dst: O) -> (r: O)
        ensures (*self as u32) < 64 ==> r.written() == dst.written().push((*self as u32) as u8)
    { unimplemented!() }
    // VarInt::decode + from_repr.  For a first byte below 64 (the canonical one-byte encoding): that byte is the tag.
    // Other (longer, non-canonical) encodings may also be accepted by the real decoder: any result.
    #[verifier::external_body]
    pub fn from_bytes(buf: &mut Bytes) -> (r: Result<FrameType, FrameTypeError>)
        ensures
            r is Ok ==> exists|k: int| #![trigger old(buf)@.subrange(k, old(buf)@.len() as int)] 1 <= k <= 8 && k <= old(buf)@.len() && final(buf)@ == old(buf)@.subrange(k, old(buf)@.len() as int),
            old(buf)@.len() >= 1 && old(buf)@[0] < 64 ==> final(buf)@ == old(buf)@.subrange(1, old(buf)@.len() as int)
                && (r matches Ok(t) ==> (t as u32) == old(buf)@[0] as u32)
                && (r is Err ==> forall|t: FrameType| #[trigger] tag_of(t) != old(buf)@[0] as u32),
    { unimplemented!() }
    #[verifier::external_body]
    pub fn encoded_len(&self) -> (r: usize) ensures 1 <= r <= 4, (*self as u32) < 64 ==> r == 1 { unimplemented!() }
}

//@item iroh-relay/src/protos/relay.rs enum ClientToRelayMsg
pub open spec fn tag_of(t: FrameType) -> u32 { t as u32 }

// ================= Datagrams =================
pub open spec fn ecn_byte(e: Option<noq_proto::EcnCodepoint>) -> u8 { match e { Some(c) => c.bits(), None => 0u8 } }
pub open spec fn enc_dg(d: Datagrams) -> Seq<u8> {
    seq![ecn_byte(d.ecn)]
        + (match d.segment_size { Some(s) => seq![(s@ / 256) as u8, (s@ % 256) as u8], None => Seq::<u8>::empty() })
        + d.contents@
}
impl Datagrams {
//@fn iroh-relay/src/protos/relay.rs Datagrams::write_to props=C10 ret=r
//@| ensures r.written() == dst.written() + enc_dg(*self)
//@rwx A3 1
//@- \.map_or\(0, \|ecn\| (.+?)\);
//@+ .map_or(0, |ecn: noq_proto::EcnCodepoint| -> (o: u8) ensures o == ecn.bits() { ecn_as_u8(ecn) });
//@rw R22 1
//@- dst.put_u16(segment_size.into());
//@+ dst.put_u16(u16::from(segment_size));
//@rw R17 1
//@- dst.put(self.contents.as_ref());
//@+ dst.put(self.contents.as_ref());
//@ins before 1
//@- dst
//@| proof { assert(r_written_hint(dst.written())); }
//@end

//@fn iroh-relay/src/protos/relay.rs Datagrams::encoded_len props=C10 ret=r
//@| requires self.contents@.len() <= 0x1000_0000
//@| ensures r == enc_dg(*self).len()
//@rw R1 *
//@- .map_or(0, |_| 2)
//@+ .map_or(0, |_w: NonZeroU16| -> (o: usize) ensures o == 2 { 2 })
//@end

//@fn iroh-relay/src/protos/relay.rs Datagrams::from_bytes props=C10 ret=r
//@| ensures
//@|     // total: Err exactly when the header is missing, otherwise the decoded fields
//@|     r is Err <==> bytes@.len() < (if is_batch { 3int } else { 1 }),
//@|     r matches Ok(d) ==> d.ecn == dec_ecn(bytes@[0])
//@|         && (if is_batch { nz16_is(d.segment_size, be16(bytes@[1], bytes@[2])) } else { d.segment_size is None })
//@|         && d.contents@ == bytes@.subrange(if is_batch { 3int } else { 1 }, bytes@.len() as int),
//@end
}
pub open spec fn r_written_hint(s: Seq<u8>) -> bool { true }
pub open spec fn dec_ecn(x: u8) -> Option<noq_proto::EcnCodepoint> {
    if x == 2 { Some(noq_proto::EcnCodepoint::Ect0) } else if x == 1 { Some(noq_proto::EcnCodepoint::Ect1) } else if x == 3 { Some(noq_proto::EcnCodepoint::Ce) } else { None }
}
// NonZeroU16::new(x): Some(n) with n == x exactly when x != 0 (vstd's specification)
pub open spec fn nz16_is(o: Option<NonZeroU16>, x: u16) -> bool { (o is Some <==> x != 0) && (o matches Some(n) ==> n@ == x) }
// `ecn as u8` on the foreign enum noq_proto::EcnCodepoint (discriminants Ect0 = 0b10, Ect1 = 0b01, Ce = 0b11)
#[verifier::external_body]
pub fn ecn_as_u8(e: noq_proto::EcnCodepoint) -> (r: u8) ensures r == e.bits() { unimplemented!() }

// round trip: decoding the encoding of a batch (read with the batch flag its frame type carries) gives it back
pub proof fn lemma_dg_roundtrip(d: Datagrams, got: Datagrams)  // [C10]
    requires
        ({
            let b = enc_dg(d);
            let is_batch = d.segment_size is Some;
            &&& got.ecn == dec_ecn(b[0])
            &&& (if is_batch { nz16_is(got.segment_size, be16(b[1], b[2])) } else { got.segment_size is None })
            &&& got.contents@ == b.subrange(if is_batch { 3int } else { 1 }, b.len() as int)
        }),
    ensures got.ecn == d.ecn, got.contents@ == d.contents@,
            (d.segment_size is None ==> got.segment_size is None), (d.segment_size matches Some(s) ==> got.segment_size matches Some(g) && g@ == s@)
{
    let b = enc_dg(d);
    match d.segment_size {
        Some(s) => {
            assert(b[0] == ecn_byte(d.ecn));
            assert(b[1] == (s@ / 256) as u8 && b[2] == (s@ % 256) as u8);
            assert(be16(b[1], b[2]) == s@) by (nonlinear_arith) requires b[1] == (s@ / 256) as u8, b[2] == (s@ % 256) as u8, 0 <= s@ <= 65535;
            assert(b.subrange(3, b.len() as int) =~= d.contents@);
        }
        None => {
            assert(b.subrange(1, b.len() as int) =~= d.contents@);
        }
    }
}

// ================= RelayToClientMsg (client-side decoder): totality and version gating =================
//@item iroh-relay/src/http.rs enum ProtocolVersion derive=Clone,Copy,PartialEq,Eq,Structural
// derived PartialOrd: declaration order (V1 < V2)
pub open spec fn ver_rank(v: ProtocolVersion) -> int { match v { ProtocolVersion::V1 => 1, ProtocolVersion::V2 => 2 } }
impl PartialOrd for ProtocolVersion { #[verifier::external_body] fn partial_cmp(&self, o: &Self) -> Option<core::cmp::Ordering> { unimplemented!() } }
impl vstd::std_specs::cmp::PartialOrdSpecImpl for ProtocolVersion {
    open spec fn obeys_partial_cmp_spec() -> bool { true }
    open spec fn partial_cmp_spec(&self, o: &Self) -> Option<core::cmp::Ordering> {
        if ver_rank(*self) < ver_rank(*o) { Some(core::cmp::Ordering::Less) } else if ver_rank(*self) == ver_rank(*o) { Some(core::cmp::Ordering::Equal) } else { Some(core::cmp::Ordering::Greater) }
    }
}
pub struct Duration { pub ms: u64 }
impl Duration {
    #[verifier::external_body]
    pub fn from_millis(ms: u64) -> (r: Duration) ensures r.ms == ms { unimplemented!() }
}
pub struct Utf8Error;
impl From<Utf8Error> for Error { #[verifier::external_body] fn from(e: Utf8Error) -> Error { unimplemented!() } }
pub struct StrRef<'a> { pub b: &'a [u8] }
impl<'a> StrRef<'a> { #[verifier::external_body] pub fn to_owned(&self) -> String { unimplemented!() } }
// std::str::from_utf8 (rule R9-style redirect: its &str result is only turned into a String)
#[verifier::external_body]
pub fn str_from_utf8<'a>(b: &'a [u8]) -> (r: Result<StrRef<'a>, Utf8Error>) { unimplemented!() }
#[verifier::external_type_specification]
#[verifier::external_body]
pub struct ExTryFromSliceError(core::array::TryFromSliceError);
#[verifier::external_body]
pub fn slice_try_into_arr<const N: usize>(s: &[u8]) -> (r: Result<[u8; N], core::array::TryFromSliceError>)
    ensures r is Ok <==> s@.len() == N, r matches Ok(a) ==> a@ == s@
{ s.try_into() }
#[verifier::external_body]
pub fn u32_from_be_bytes(b: [u8; 4]) -> u32 { u32::from_be_bytes(b) }
#[verifier::external_body]
pub fn bytes_suffix(b: &Bytes, n: usize) -> (o: &[u8])
    requires n <= b@.len()
    ensures o@ == b@.subrange(n as int, b@.len() as int)
{ unimplemented!() }
//@item iroh-relay/src/protos/relay.rs enum Status
//@item iroh-relay/src/protos/relay.rs enum RelayToClientMsg
impl Status {
//@fn iroh-relay/src/protos/relay.rs Status::write_to props=C10 ret=r
//@| ensures r.written() == dst.written().push(match *self { Status::Healthy => 0u8, Status::SameEndpointIdConnected => 1u8, Status::RateLimited => 2u8, Status::Unknown(d) => d })
//@end
//@fn iroh-relay/src/protos/relay.rs Status::from_bytes props=C10 ret=r
//@| ensures
//@|     r is Err <==> bytes@.len() == 0,
//@|     r matches Ok(s) ==> s == (match bytes@[0] { 0u8 => Status::Healthy, 1u8 => Status::SameEndpointIdConnected, 2u8 => Status::RateLimited, n => Status::Unknown(n) }),
//@end
}
impl RelayToClientMsg {
//@fn iroh-relay/src/protos/relay.rs RelayToClientMsg::from_bytes props=C10 ret=r
//@| ensures
//@|     // total (no panic for any bytes: every index / slice / conversion precondition is discharged), and version gating:
//@|     r matches Ok(RelayToClientMsg::Health { .. }) ==> protocol_version == ProtocolVersion::V1,
//@|     r matches Ok(RelayToClientMsg::Status(_)) ==> ver_rank(protocol_version) >= 2,
//@|     (r matches Ok(m) && content@.len() >= 1 && content@[0] < 64) ==> content@.len() - 1 <= MAX_PACKET_SIZE,
//@rwx R17 3
//@- &content\[\.\.([A-Za-z0-9_:]+)\]
//@+ bytes_prefix(&content, \1)
//@rw R9 1
//@- std::str::from_utf8(&content)?.to_owned()
//@+ str_from_utf8(content.as_ref())?.to_owned()
//@rwx R12 1
//@- u32::from_be_bytes\(\s*content\[\.\.4\]\s*\.try_into\(\)
//@+ u32_from_be_bytes(slice_try_into_arr::<4>(bytes_prefix(&content, 4))
//@rwx R12 1
//@- u32::from_be_bytes\(\s*content\[4\.\.\]\s*\.try_into\(\)
//@+ u32_from_be_bytes(slice_try_into_arr::<4>(bytes_suffix(&content, 4))
//@rwx R1 *
//@- \.map_err\(\|_\| e!
//@+ .map_err(|_w| e!
//@end
}

// ================= ClientToRelayMsg =================
pub open spec fn c2r_typ(m: ClientToRelayMsg) -> FrameType {
    match m {
        ClientToRelayMsg::Datagrams { datagrams, .. } => if datagrams.segment_size is Some { FrameType::ClientToRelayDatagramBatch } else { FrameType::ClientToRelayDatagram },
        ClientToRelayMsg::Ping(_) => FrameType::Ping,
        ClientToRelayMsg::Pong(_) => FrameType::Pong,
    }
}
pub open spec fn enc_c2r(m: ClientToRelayMsg) -> Seq<u8> {
    seq![(c2r_typ(m) as u32) as u8] + (match m {
        ClientToRelayMsg::Datagrams { dst_endpoint_id, datagrams } => dst_endpoint_id.b@ + enc_dg(datagrams),
        ClientToRelayMsg::Ping(d) => d@,
        ClientToRelayMsg::Pong(d) => d@,
    })
}
impl ClientToRelayMsg {
//@fn iroh-relay/src/protos/relay.rs ClientToRelayMsg::typ props=C10 ret=r
//@| ensures r == c2r_typ(*self), (r as u32) < 64
//@end

//@fn iroh-relay/src/protos/relay.rs ClientToRelayMsg::encoded_len props=C10 ret=r
//@| requires *self matches ClientToRelayMsg::Datagrams { datagrams, .. } ==> datagrams.contents@.len() <= 0x1000_0000
//@| ensures r == enc_c2r(*self).len()    // predicted length == actual length
//@end
    #[verifier::external_body]
    pub fn to_bytes(&self) -> (r: BytesMut) ensures r@ == enc_c2r(*self) { unimplemented!() }   // write_to into an empty buffer (write_to is verified below)

//@fn iroh-relay/src/protos/relay.rs ClientToRelayMsg::write_to props=C10 ret=r
//@| ensures r.written() == dst.written() + enc_c2r(*self)
//@rwx R17 2
//@- dst\.put\(&data\[\.\.\]\);
//@+ dst.put(array8_as_slice(data));
//@end

//@fn iroh-relay/src/protos/relay.rs ClientToRelayMsg::from_bytes props=C10 ret=r
//@| ensures
//@|     // what an accepted datagram/ping/pong frame with a canonical (one-byte) type decodes to
//@|     (content@.len() >= 1 && content@[0] < 64) ==> (r matches Ok(m) ==> c2r_decodes(content@, m)),
//@|     // total, and accepted exactly on these conditions (canonical one-byte frame type)
//@|     (content@.len() >= 1 && content@[0] < 64) ==> (r is Ok <==> c2r_accepts(content@)),
//@rwx R17 3
//@- &content\[\.\.([A-Za-z0-9_:]+)\]
//@+ bytes_prefix(&content, \1)
//@ins before 1
//@- let frame_type = FrameType::from_bytes(&mut content)?;
//@| let ghost whole = content@;
//@ins before 1
//@- Self::Ping(data)
//@| proof { assert(content@.subrange(0, 8) =~= content@); }
//@ins before 1
//@- Self::Pong(data)
//@| proof { assert(content@.subrange(0, 8) =~= content@); }
//@ins before 1
//@- Self::Datagrams {
//@| proof {
//@|     if whole.len() >= 1 && whole[0] < 64 {
//@|         let body = content@;
//@|         assert(body == whole.subrange(1, whole.len() as int));
//@|         let sl = body.subrange(32, body.len() as int);
//@|         let k: int = if frame_type == FrameType::ClientToRelayDatagramBatch { 3 } else { 1 };
//@|         assert(sl.subrange(k, sl.len() as int) =~= body.subrange(32 + k, body.len() as int));
//@|         assert(sl[0] == body[32]);
//@|         if k == 3 { assert(sl[1] == body[33] && sl[2] == body[34]); }
//@|     }
//@| }
//@end
}
pub struct BytesMut { pub b: Seq<u8> }
impl View for BytesMut { type V = Seq<u8>; open spec fn view(&self) -> Seq<u8> { self.b } }
impl BytesMut { #[verifier::external_body] pub fn freeze(self) -> (r: Bytes) ensures r@ == self@ { unimplemented!() } }

// ---- the client's sink (client/conn.rs)
pub struct AnyError;
//@item iroh-relay/src/client/conn.rs enum SendError
pub struct WsConn;
pub uninterp spec fn sent_on_wire(b: Seq<u8>) -> bool;
impl WsConn {
    #[verifier::external_body]
    pub fn start_send(&mut self, item: Bytes) -> (r: Result<(), AnyError>) ensures r is Ok ==> sent_on_wire(item@) { unimplemented!() }
}
pub struct Conn { pub conn: WsConn }
impl Conn {
//@fn iroh-relay/src/client/conn.rs Sink<ClientToRelayMsg>@Conn::start_send props=C10 ret=r
//@| requires frame matches ClientToRelayMsg::Datagrams { datagrams, .. } ==> datagrams.contents@.len() <= 0x1000_0000
//@| ensures
//@|     // the sender-side limit: what goes on the wire is the encoding, within MAX_PACKET_SIZE and non-empty
//@|     r is Ok ==> sent_on_wire(enc_c2r(frame)) && enc_c2r(frame).len() <= MAX_PACKET_SIZE
//@|         && (frame matches ClientToRelayMsg::Datagrams { datagrams, .. } ==> datagrams.contents@.len() > 0),
//@|     r matches Err(SendError::ExceedsMaxPacketSize { .. }) <==> enc_c2r(frame).len() > MAX_PACKET_SIZE,
//@rw R7 1
//@- mut self: Pin<&mut Self>
//@+ &mut self
//@rw R7 1
//@- Pin::new(&mut self.conn)
//@+ self.conn
//@rw D5 1
//@- Result<(), Self::Error>
//@+ Result<(), SendError>
//@rw A3 1
//@- .map_err(Into::into)
//@+ .map_err(|e: AnyError| -> (o: SendError) ensures o is StreamError { SendError::StreamError { source: e } })
//@end
}
#[verifier::external_body]
pub fn array8_as_slice(a: &[u8; 8]) -> (r: &[u8]) ensures r@ == a@ { &a[..] }

pub open spec fn c2r_accepts(b: Seq<u8>) -> bool {
    let body = b.subrange(1, b.len() as int);
    let t = b[0] as u32;
    &&& 1 + body.len() <= MAX_PACKET_SIZE
    &&& if t == tag_of(FrameType::ClientToRelayDatagram) || t == tag_of(FrameType::ClientToRelayDatagramBatch) {
            body.len() >= 32 && valid_point(body.subrange(0, 32))
                && body.len() - 32 >= (if t == tag_of(FrameType::ClientToRelayDatagramBatch) { 3int } else { 1 })
        } else if t == tag_of(FrameType::Ping) || t == tag_of(FrameType::Pong) {
            body.len() == 8
        } else { false }
}
pub open spec fn c2r_decodes(b: Seq<u8>, m: ClientToRelayMsg) -> bool {
    let body = b.subrange(1, b.len() as int);
    &&& (c2r_typ(m) as u32) == b[0] as u32 || (m is Datagrams && ((b[0] as u32 == FrameType::ClientToRelayDatagram as u32) || (b[0] as u32 == FrameType::ClientToRelayDatagramBatch as u32)))
    &&& match m {
        ClientToRelayMsg::Ping(d) => body.len() == 8 && d@ == body,
        ClientToRelayMsg::Pong(d) => body.len() == 8 && d@ == body,
        ClientToRelayMsg::Datagrams { dst_endpoint_id, datagrams } => {
            let is_batch = b[0] as u32 == FrameType::ClientToRelayDatagramBatch as u32;
            &&& body.len() >= 32 + (if is_batch { 3int } else { 1 })
            &&& dst_endpoint_id.b@ == body.subrange(0, 32)
            &&& datagrams.ecn == dec_ecn(body[32])
            &&& (if is_batch { nz16_is(datagrams.segment_size, be16(body[33], body[34])) } else { datagrams.segment_size is None })
            &&& datagrams.contents@ == body.subrange(32 + (if is_batch { 3int } else { 1 }), body.len() as int)
        }
    }
}

// ---- round trip and limit agreement (lemmas over the contracts)
// decoding the encoding gives the message back (keys: PublicKey values are valid points by construction)
pub proof fn lemma_c2r_roundtrip(m: ClientToRelayMsg, got: ClientToRelayMsg)  // [C10]
    requires c2r_decodes(enc_c2r(m), got), m matches ClientToRelayMsg::Datagrams { datagrams, .. } ==> datagrams.contents@.len() < 0x1000_0000
    ensures
        got is Ping == m is Ping, got is Pong == m is Pong, got is Datagrams == m is Datagrams,
        m is Ping ==> got->Ping_0@ == m->Ping_0@,
        m is Pong ==> got->Pong_0@ == m->Pong_0@,
        m is Datagrams ==> ({
            let gk = got->Datagrams_dst_endpoint_id; let gd = got->Datagrams_datagrams;
            let k = m->Datagrams_dst_endpoint_id; let d = m->Datagrams_datagrams;
            gk.b@ == k.b@ && gd.ecn == d.ecn && gd.contents@ == d.contents@
            && (d.segment_size is None ==> gd.segment_size is None)
            && (d.segment_size matches Some(s) ==> gd.segment_size matches Some(g) && g@ == s@)
        }),
{
    let b = enc_c2r(m);
    let body = b.subrange(1, b.len() as int);
    assert(b[0] == (c2r_typ(m) as u32) as u8);
    match m {
        ClientToRelayMsg::Ping(d) => { assert(body =~= d@); }
        ClientToRelayMsg::Pong(d) => { assert(body =~= d@); }
        ClientToRelayMsg::Datagrams { dst_endpoint_id, datagrams } => {
            let e = enc_dg(datagrams);
            assert(body =~= dst_endpoint_id.b@ + e);
            assert(body.subrange(0, 32) =~= dst_endpoint_id.b@);
            assert(body.subrange(32, body.len() as int) =~= e);
            let gd = got->Datagrams_datagrams;
            let is_batch = datagrams.segment_size is Some;
            assert(e[0] == body[32]);
            if is_batch {
                assert(e[1] == body[33] && e[2] == body[34]);
                assert(e.subrange(3, e.len() as int) =~= body.subrange(35, body.len() as int));
            } else {
                assert(e.subrange(1, e.len() as int) =~= body.subrange(33, body.len() as int));
            }
            lemma_dg_roundtrip(datagrams, gd);
        }
    }
}
// any message the sending client's size check accepts (encoded length within MAX_PACKET_SIZE, non-empty batch,
// destination key a valid point — true of every PublicKey value) is accepted by the relay's decoder
pub proof fn lemma_sender_limit_implies_decoder_accepts(m: ClientToRelayMsg)  // [C10]
    requires
        enc_c2r(m).len() <= MAX_PACKET_SIZE,
        m matches ClientToRelayMsg::Datagrams { dst_endpoint_id, datagrams } ==> valid_point(dst_endpoint_id.b@),
    ensures c2r_accepts(enc_c2r(m))
{
    let b = enc_c2r(m);
    let body = b.subrange(1, b.len() as int);
    match m {
        ClientToRelayMsg::Ping(d) => { assert(body =~= d@); }
        ClientToRelayMsg::Pong(d) => { assert(body =~= d@); }
        ClientToRelayMsg::Datagrams { dst_endpoint_id, datagrams } => {
            assert(body =~= dst_endpoint_id.b@ + enc_dg(datagrams));
            assert(body.subrange(0, 32) =~= dst_endpoint_id.b@);
        }
    }
}
} // verus!
fn main() {}
