//@unit relay_sink props=C05,C10
// C05 (sink side of the queue invariant) — a forwardable packet is never rejected for size or emptiness by the
//      receiving connection's sink, so it cannot end the receiver's connection.
// C10 (limit agreement, length arithmetic) — predicted lengths and the sender-side size checks.
use vstd::prelude::*;
use std::num::NonZeroU16;
use vstd::std_specs::cmp::OrdSpec;
// n0_error::e! builds the named error value (it only adds a `meta` source location); ensure!(c, E) returns Err(E.into())
macro_rules! e {
    ($($err:tt)::+ { $($body:tt)* }) => { $($err)::+ { $($body)* } };
    ($($err:tt)::+) => { $($err)::+ {} };
}
macro_rules! ensure { ($cond:expr, $($t:tt)*) => { if !$cond { return Err(e!($($t)*)); } }; }
verus! {
//@include shims/bytes.rs
//@include shims/std_wide.rs
pub open spec fn int_pow(b: int, e: nat) -> int decreases e { if e == 0 { 1 } else { b * int_pow(b, (e - 1) as nat) } }
pub assume_specification [u32::pow] (b: u32, e: u32) -> (r: u32)
    requires int_pow(b as int, e as nat) <= u32::MAX   // overflow panics in debug builds
    ensures r == int_pow(b as int, e as nat);

pub struct StreamError;
pub struct Duration;
//@item iroh-relay/src/protos/relay.rs const MAX_PACKET_SIZE
//@item iroh-relay/src/protos/relay.rs struct Datagrams
//@include shims/relay_wire.rs
//@item iroh-relay/src/protos/common.rs enum FrameType derive=Clone,Copy,PartialEq,Eq,Structural
//@| #[repr(u32)]
// num_enum::IntoPrimitive: the discriminant
impl From<FrameType> for u32 { #[verifier::external_body] fn from(v: FrameType) -> (r: u32) { v as u32 } }
impl vstd::std_specs::convert::FromSpecImpl<FrameType> for u32 {
    open spec fn obeys_from_spec() -> bool { true }
    open spec fn from_spec(v: FrameType) -> u32 { v as u32 }
}
//@item iroh-relay/src/protos/relay.rs enum Status
//@item iroh-relay/src/protos/relay.rs enum RelayToClientMsg
//@item iroh-relay/src/protos/relay.rs enum ClientToRelayMsg
//@item iroh-relay/src/server/streams.rs enum SendError

pub open spec fn ft_len(t: FrameType) -> int { if (t as u32) < 64 { 1 } else if (t as u32) < 16384 { 2 } else { 4 } }

impl FrameType {
//@fn iroh-relay/src/protos/common.rs FrameType::encoded_len props=C05,C10 ret=r
//@| ensures r == ft_len(*self), r == 1
//@ins before 1
//@- let x: u32 = (*self).into();
//@| proof {
//@|     assert(int_pow(2, 6) == 64) by (compute);
//@|     assert(int_pow(2, 14) == 16384) by (compute);
//@|     assert(int_pow(2, 30) == 1073741824) by (compute);
//@| }
//@end
}

impl Datagrams {
//@fn iroh-relay/src/protos/relay.rs Datagrams::encoded_len props=C05,C10 ret=r
//@| requires self.contents@.len() <= 0x1000_0000
//@| ensures r == dg_wire_len(*self)
//@rw R1 *
//@- .map_or(0, |_| 2)
//@+ .map_or(0, |_w: NonZeroU16| -> (o: usize) ensures o == 2 { 2 })
//@end
}

impl Status {
//@fn iroh-relay/src/protos/relay.rs Status::encoded_len props=C10 ret=r
//@| ensures r == 1
//@end
}

pub open spec fn r2c_payload_len(m: RelayToClientMsg) -> int {
    match m {
        RelayToClientMsg::Datagrams { datagrams, .. } => 32 + dg_wire_len(datagrams),
        RelayToClientMsg::EndpointGone(_) => 32,
        RelayToClientMsg::Ping(_) => 8,
        RelayToClientMsg::Pong(_) => 8,
        RelayToClientMsg::Status(_) => 1,
        RelayToClientMsg::Restarting { .. } => 8,
        RelayToClientMsg::Health { problem } => utf8_len(problem@) as int,
    }
}
pub open spec fn c2r_payload_len(m: ClientToRelayMsg) -> int {
    match m {
        ClientToRelayMsg::Ping(_) => 8,
        ClientToRelayMsg::Pong(_) => 8,
        ClientToRelayMsg::Datagrams { datagrams, .. } => 32 + dg_wire_len(datagrams),
    }
}
pub open spec fn empty_datagrams(m: RelayToClientMsg) -> bool {
    m matches RelayToClientMsg::Datagrams { datagrams, .. } && datagrams.contents@.len() == 0
}
pub open spec fn small(d: Datagrams) -> bool { d.contents@.len() <= 0x1000_0000 }

impl RelayToClientMsg {
//@fn iroh-relay/src/protos/relay.rs RelayToClientMsg::typ props=C10 ret=r
//@| ensures (r as u32) < 64,
//@|     *self matches RelayToClientMsg::Datagrams { datagrams, .. } ==> r == (if datagrams.segment_size is Some { FrameType::RelayToClientDatagramBatch } else { FrameType::RelayToClientDatagram })
//@end

//@fn iroh-relay/src/protos/relay.rs RelayToClientMsg::encoded_len props=C05,C10 ret=r
//@| requires *self matches RelayToClientMsg::Datagrams { datagrams, .. } ==> small(datagrams),
//@|          *self matches RelayToClientMsg::Health { problem } ==> utf8_len(problem@) <= 0x1000_0000
//@| ensures r == 1 + r2c_payload_len(*self)
//@end
    #[verifier::external_body]
    pub fn to_bytes(&self) -> BytesMut { unimplemented!() }
}
impl ClientToRelayMsg {
//@fn iroh-relay/src/protos/relay.rs ClientToRelayMsg::typ props=C10 ret=r
//@| ensures (r as u32) < 64
//@end

//@fn iroh-relay/src/protos/relay.rs ClientToRelayMsg::encoded_len props=C10 ret=r
//@| requires *self matches ClientToRelayMsg::Datagrams { datagrams, .. } ==> small(datagrams)
//@| ensures r == 1 + c2r_payload_len(*self)
//@end
    #[verifier::external_body]
    pub fn to_bytes(&self) -> BytesMut { unimplemented!() }
}
pub struct BytesMut;
impl BytesMut { #[verifier::external_body] pub fn freeze(self) -> Bytes { unimplemented!() } }

// ---- the sinks
pub struct KeyCache;
pub trait InnerSink {
    // the websocket sink: may fail with its own stream error
    fn start_send(&mut self, item: Bytes) -> (r: Result<(), StreamError>);
}
//@item iroh-relay/src/server/streams.rs struct RelayedStream pubfields

impl<S: InnerSink> RelayedStream<S> {
//@fn iroh-relay/src/server/streams.rs Sink<RelayToClientMsg>@RelayedStream::start_send props=C05,C10 ret=r
//@| requires item matches RelayToClientMsg::Datagrams { datagrams, .. } ==> small(datagrams),
//@|          item matches RelayToClientMsg::Health { problem } ==> utf8_len(problem@) <= 0x1000_0000
//@| ensures
//@|     // the size / emptiness rejections happen exactly on these conditions ...
//@|     r matches Err(SendError::ExceedsMaxPacketSize { .. }) <==> 1 + r2c_payload_len(item) > MAX_PACKET_SIZE,
//@|     r matches Err(SendError::EmptyPacket { .. }) <==> (1 + r2c_payload_len(item) <= MAX_PACKET_SIZE && empty_datagrams(item)),
//@|     // ... so a forwardable packet (the queue invariant of unit relay_forward) is never rejected by them   [C05]
//@|     (item matches RelayToClientMsg::Datagrams { datagrams, .. } && forwardable(datagrams)) ==>
//@|         !(r matches Err(SendError::ExceedsMaxPacketSize { .. })) && !(r matches Err(SendError::EmptyPacket { .. })),
//@rw R7 1
//@- mut self: Pin<&mut Self>
//@+ &mut self
//@rw R7 1
//@- Pin::new(&mut self.inner)
//@+ self.inner
//@rw D5 1
//@- Result<(), Self::Error>
//@+ Result<(), SendError>
//@rw A3 1
//@- .map_err(Into::into)
//@+ .map_err(|e: StreamError| -> (o: SendError) ensures o is StreamError { SendError::StreamError { source: e } })
//@end
}
} // verus!
fn main() {}
