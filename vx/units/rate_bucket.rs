//@unit rate_bucket props=C09
// C09 — Relay per-client receive rate stays within the configured bucket.
use vstd::prelude::*;
use vstd::std_specs::cmp::OrdSpec;
macro_rules! ensure { ($cond:expr, $($t:tt)*) => { if !$cond { return Err(mk_invalid_bucket_config()); } }; }
verus! {
//@include shims/time.rs
//@include shims/std_wide.rs

// error value built by the `ensure!` shim (n0_error's macro builds it from the struct literal + location)
pub struct InvalidBucketConfig;
#[verifier::external_body]
pub fn mk_invalid_bucket_config() -> InvalidBucketConfig { InvalidBucketConfig }

//@item iroh-relay/src/server/streams.rs struct Bucket pubfields

pub open spec fn min_int(a: int, b: int) -> int { if a <= b { a } else { b } }
// `as u32` of a u128 millisecond count, exactly as the implementation truncates it
pub open spec fn u32_trunc(x: int) -> int { ((x as u128) as u32) as int }

// refill per period computed by `new`
pub open spec fn refill_of(bytes_per_second: int, period_ns: int) -> int {
    clamp_i64(bytes_per_second * (period_ns / 1_000_000)) / 1000
}
pub open spec fn config_ok(max: int, bytes_per_second: int, period_ns: int) -> bool {
    max > 0 && bytes_per_second > 0 && 0 < period_ns / 1_000_000 <= u32::MAX && refill_of(bytes_per_second, period_ns) > 0
}

// whole periods elapsed at clock reading `now`, exactly as the implementation counts them
pub open spec fn periods_at(b: Bucket, now: int) -> int {
    let el = if now >= b.last_fill@ { now - b.last_fill@ } else { 0 };
    u32_trunc(el / 1_000_000) / (b.refill_period@ / 1_000_000)
}

// one refill step at clock reading `now`
pub open spec fn refill_step(a: Bucket, b: Bucket, now: int) -> bool {
    let p = periods_at(a, now);
    &&& b.max == a.max && b.refill == a.refill && b.refill_period == a.refill_period
    // the credited amount saturates at i64::MAX (only reachable with astronomically large rates)
    &&& b.fill == min_int(a.max as int, a.fill + min_int(p * a.refill, i64::MAX as int))
    &&& b.last_fill@ == a.last_fill@ + p * a.refill_period@
    &&& b.last_fill@ <= (if now >= a.last_fill@ { now } else { a.last_fill@ }) + p * 999_999   // only the sub-millisecond part of the period can run ahead
}

pub open spec fn bytes_i64(n: usize) -> int { if n as int > i64::MAX { i64::MAX as int } else { n as int } }

// one consume step after the refill
pub open spec fn consume_step(a: Bucket, b: Bucket, n: usize, r: Result<(), time::Instant>) -> bool {
    let f = clamp_i64(a.fill - bytes_i64(n));
    let missing = clamp_i64(-f);
    let k = min_int(clamp_i64(missing / (a.refill as int) + 1), u32::MAX as int);
    &&& b.max == a.max && b.refill == a.refill && b.refill_period == a.refill_period && b.last_fill == a.last_fill
    &&& b.fill == f
    &&& (r is Ok <==> f > 0)
    &&& (r matches Err(t) ==> t@ == a.last_fill@ + k * a.refill_period@)
}

impl Bucket {
    pub open spec fn wf(&self) -> bool {
        &&& self.max > 0 && self.refill > 0 && self.fill <= self.max
        &&& 0 < self.refill_period@ / 1_000_000 <= u32::MAX
        &&& 0 <= self.last_fill@ <= time::now_max() + 0x1_0000_0000 * 999_999
    }

//@fn iroh-relay/src/server/streams.rs Bucket::new props=C09 ret=r
//@| ensures
//@|     r is Ok <==> config_ok(max as int, bytes_per_second as int, refill_period@),
//@|     r matches Ok(b) ==> b.wf() && b.fill == max && b.max == max && b.refill_period == refill_period
//@|         && b.refill == refill_of(bytes_per_second as int, refill_period@),
//@ins before 1
//@- let refill = bytes_per_second
//@| broadcast use time::time_axioms;
//@end

//@fn iroh-relay/src/server/streams.rs Bucket::update_state props=C09
//@| requires old(self).wf()
//@| ensures
//@|     final(self).wf(),
//@|     exists|now: int| 0 <= now <= time::now_max() && refill_step(*old(self), *final(self), now),
//@rw R10 1
//@- self.last_fill += self.refill_period * refill_periods;
//@+ self.last_fill = self.last_fill + self.refill_period * refill_periods;
//@ins before 1
//@- let now = time::Instant::now();
//@| broadcast use time::time_axioms;
//@ins before 1
//@- if refill_periods 
//@| proof {
//@|     let el = if now@ >= self.last_fill@ { now@ - self.last_fill@ } else { 0 };
//@|     let pm = self.refill_period@ / 1_000_000;
//@|     assert(refill_periods as int == periods_at(*self, now@));
//@|     assert(refill_periods as int * pm <= el / 1_000_000) by (nonlinear_arith)
//@|         requires refill_periods as int == u32_trunc(el / 1_000_000) / pm, pm > 0, el >= 0, u32_trunc(el / 1_000_000) <= el / 1_000_000;
//@|     assert(self.refill_period@ <= pm * 1_000_000 + 999_999);
//@|     assert(refill_periods as int * self.refill_period@ <= refill_periods as int * pm * 1_000_000 + refill_periods as int * 999_999) by (nonlinear_arith)
//@|         requires self.refill_period@ <= pm * 1_000_000 + 999_999, refill_periods >= 0;
//@|     assert(refill_periods as int * pm * 1_000_000 <= el) by (nonlinear_arith)
//@|         requires refill_periods as int * pm <= el / 1_000_000, el >= 0;
//@|     assert(refill_periods as int * 999_999 <= 0x1_0000_0000 * 999_999) by (nonlinear_arith) requires refill_periods <= 0xffff_ffff;
//@|     assert(self.refill_period@ * refill_periods == refill_periods as int * self.refill_period@) by (nonlinear_arith);
//@|     assert(self.refill as int * (refill_periods as i64) as int == periods_at(*self, now@) * self.refill) by (nonlinear_arith)
//@|         requires refill_periods as int == periods_at(*self, now@), (refill_periods as i64) as int == refill_periods as int;
//@|     assert(periods_at(*self, now@) * self.refill >= 0) by (nonlinear_arith)
//@|         requires periods_at(*self, now@) >= 0, self.refill > 0;
//@|     if refill_periods == 0 {
//@|         assert(periods_at(*self, now@) * self.refill == 0) by (nonlinear_arith) requires periods_at(*self, now@) == 0;
//@|         assert(periods_at(*self, now@) * self.refill_period@ == 0) by (nonlinear_arith) requires periods_at(*self, now@) == 0;
//@|         assert(refill_step(*old(self), *self, now@));
//@|     }
//@| }
//@ins before 1
//@- self.last_fill = self.last_fill + self.refill_period * refill_periods;
//@| proof {
//@|     // (hint anchored on the clock update, not on how the fill is computed)
//@|     let pr = periods_at(*old(self), now@) * old(self).refill;
//@|     assert(clamp_i64(old(self).fill + clamp_i64(pr)) == min_int(i64::MAX as int, old(self).fill + min_int(pr, i64::MAX as int)));
//@|     assert(self.fill == min_int(old(self).max as int, old(self).fill + min_int(pr, i64::MAX as int)));
//@| }
//@ins after 1
//@- self.last_fill = self.last_fill + self.refill_period * refill_periods;
//@| proof { assert(refill_step(*old(self), *self, now@)); }
//@end

//@fn iroh-relay/src/server/streams.rs Bucket::consume props=C09 ret=r
//@| requires old(self).wf()
//@| ensures
//@|     final(self).wf(),
//@|     exists|mid: Bucket, now: int| 0 <= now <= time::now_max() && mid.wf()
//@|         && refill_step(*old(self), mid, now) && consume_step(mid, *final(self), bytes, r),
//@ins before 1
//@- let bytes = i64::try_from(bytes).unwrap_or(i64::MAX);
//@| let ghost bytes0 = bytes;
//@ins after 1
//@- self.update_state();
//@| broadcast use time::time_axioms;
//@| let ghost mid = *self;
//@| let ghost now0 = choose|now: int| 0 <= now <= time::now_max() && refill_step(*old(self), mid, now);
//@ins before 1
//@- if self.fill 
//@| proof { if self.fill > 0 { assert(consume_step(mid, *self, bytes0, Ok::<(), time::Instant>(()))); } }
//@ins before 1
//@- Err(self.last_fill +
//@| proof {
//@|     assert(periods_needed as int * self.refill_period@ <= 0xffff_ffff * (0x1_0000_0000 * 1_000_000)) by (nonlinear_arith)
//@|         requires 0 <= periods_needed <= 0xffff_ffff, 0 <= self.refill_period@ <= 0x1_0000_0000 * 1_000_000;
//@|     assert(self.refill_period@ * periods_needed == periods_needed as int * self.refill_period@) by (nonlinear_arith);
//@| }
//@end
}

// ---- property-level lemmas over the contracts (never over the bodies)

// (a) resumption is neither early nor late: at the returned deadline the refills make the fill positive,
//     one period earlier they do not (when nothing saturated).
pub proof fn lemma_deadline_minimal(a: Bucket, b: Bucket, n: usize, t: time::Instant)  // [C09]
    requires a.wf(), consume_step(a, b, n, Err::<(), time::Instant>(t)),
             a.fill - bytes_i64(n) > i64::MIN,
             (-(a.fill - bytes_i64(n))) / (a.refill as int) + 1 < u32::MAX,
    ensures ({
        let f = a.fill - bytes_i64(n);
        let k = (-f) / (a.refill as int) + 1;
        &&& t@ == a.last_fill@ + k * a.refill_period@
        &&& f + k * a.refill >= 1
        &&& f + (k - 1) * a.refill <= 0
    })
{
    let f = a.fill - bytes_i64(n);
    let rf = a.refill as int;
    assert(f <= 0);
    let q = (-f) / rf;
    assert(q * rf <= -f < q * rf + rf) by (nonlinear_arith) requires q == (-f) / rf, rf > 0, -f >= 0;
    assert(f + (q + 1) * rf >= 1) by (nonlinear_arith) requires -f < q * rf + rf;
    assert(f + (q + 1 - 1) * rf <= 0) by (nonlinear_arith) requires q * rf <= -f;
}

// (b) rate bound.  G = bytes consumed so far, P = refill periods credited so far.
//     Invariant: fill + G <= max + refill * P.  Each refill+consume step preserves it
//     (when the i64 debt does not saturate), so after any history
//     G <= max + refill * P - fill; whenever a read was allowed (fill > 0 before it),
//     G <= max + refill * P + (that one read).
pub open spec fn credit_inv(b: Bucket, g: int, p: int) -> bool { b.fill + g <= b.max + b.refill * p }

pub proof fn lemma_rate_step(a: Bucket, mid: Bucket, b: Bucket, now: int, n: usize, r: Result<(), time::Instant>, g: int, p: int)  // [C09]
    requires a.wf(), refill_step(a, mid, now), consume_step(mid, b, n, r), credit_inv(a, g, p),
             mid.fill - bytes_i64(n) >= i64::MIN,
    ensures credit_inv(b, g + bytes_i64(n), p + periods_at(a, now)),
            b.max == a.max, b.refill == a.refill,
{
    let pp = periods_at(a, now);
    assert(a.refill * (p + pp) == a.refill * p + pp * a.refill) by (nonlinear_arith);
}

pub proof fn lemma_new_establishes_inv(b: Bucket)  // [C09]
    requires b.wf(), b.fill == b.max
    ensures credit_inv(b, 0, 0)
{
    assert(b.refill * 0 == 0);
}

// a granted read (Ok) leaves tokens, a throttled one (Err) names a deadline in the future of last_fill
pub proof fn lemma_ok_means_tokens(a: Bucket, b: Bucket, n: usize, r: Result<(), time::Instant>)  // [C09]
    requires consume_step(a, b, n, r)
    ensures r is Ok ==> b.fill > 0, r is Err ==> b.fill <= 0
{
}
} // verus!
fn main() {}
