//@unit path_state props=C22
// C22 — address resolution for a connect is answered exactly once and correctly.
use vstd::prelude::*;
use vstd::std_specs::cmp::OrdSpec;
macro_rules! trace { ($($t:tt)*) => {}; }
macro_rules! debug { ($($t:tt)*) => {}; }
macro_rules! warn { ($($t:tt)*) => {}; }
macro_rules! e {
    ($($err:tt)::+ { $($body:tt)* }) => { $($err)::+ { $($body)* } };
    ($($err:tt)::+) => { $($err)::+ {} };
}
// std's matches!
macro_rules! matches { ($e:expr, $p:pat) => { match $e { $p => true, _ => false } }; }
verus! {
//@include shims/std_wide.rs
use std::sync::Arc;

// ---- trusted shims: addresses (opaque payloads), clock, metrics counters
pub struct SocketAddr { pub id: int }
pub struct RelayUrl { pub id: int }
pub struct EndpointId { pub id: int }
impl PartialEq for EndpointId { #[verifier::external_body] fn eq(&self, o: &Self) -> bool { unimplemented!() } }
impl vstd::std_specs::cmp::PartialEqSpecImpl for EndpointId {
    open spec fn obeys_eq_spec() -> bool { true }
    open spec fn eq_spec(&self, o: &Self) -> bool { self.id == o.id }
}
pub struct CustomAddr { pub id: int }
pub mod transports {
    use vstd::prelude::*;
    pub enum Addr { Ip(super::SocketAddr), Relay(super::RelayUrl, super::EndpointId), Custom(super::CustomAddr) }
    pub struct FourTuple { pub id: u8 }
    impl Addr {
        pub fn is_relay(&self) -> (r: bool) ensures r == (*self is Relay) { match self { Addr::Relay(_, _) => true, _ => false } }
    }
}
#[derive(Clone, Copy)]
pub struct Instant { pub t: int }
impl Instant { #[verifier::external_body] pub fn now() -> Instant { unimplemented!() } }
pub struct Counter;
impl Counter { #[verifier::external_body] pub fn inc(&self) -> u64 { unimplemented!() } }
pub struct SocketMetrics {
    pub transport_ip_paths_added: Counter, pub transport_relay_paths_added: Counter, pub transport_custom_paths_added: Counter,
    pub transport_ip_paths_removed: Counter, pub transport_relay_paths_removed: Counter, pub transport_custom_paths_removed: Counter,
}
//@item iroh/src/socket/remote_map.rs enum Source
impl Clone for Source { #[verifier::external_body] fn clone(&self) -> (r: Source) ensures r == *self { unimplemented!() } }

// ---- trusted shims: hash maps viewed as Map (rustc_hash::FxHashMap, std HashMap), VecDeque, tokio oneshot
#[verifier::external_body]
#[verifier::reject_recursive_types(K)]
#[verifier::reject_recursive_types(V)]
pub struct HashMap<K, V> { k: core::marker::PhantomData<(K, V)> }
impl<K, V> View for HashMap<K, V> { type V = Map<K, V>; uninterp spec fn view(&self) -> Map<K, V>; }
pub type FxHashMap<K, V> = HashMap<K, V>;
#[verifier::reject_recursive_types(K)]
#[verifier::reject_recursive_types(V)]
pub struct Entry<'a, K, V> { pub map: &'a mut HashMap<K, V>, pub key: K }
impl<K, V> HashMap<K, V> {
    #[verifier::external_body]
    pub fn is_empty(&self) -> (r: bool) ensures r == (forall|k: K| !#[trigger] self@.contains_key(k)) { unimplemented!() }
    #[verifier::external_body]
    pub fn insert(&mut self, k: K, v: V) -> (r: Option<V>) ensures final(self)@ == old(self)@.insert(k, v) { unimplemented!() }
    #[verifier::external_body]
    pub fn entry<'a>(&'a mut self, key: K) -> (r: Entry<'a, K, V>)
        ensures *r.map == *old(self), r.key == key, *final(self) == *final(r.map)
    { unimplemented!() }
    // a reference to the value slot of an existing key; writes through it change exactly that slot, keys unchanged
    #[verifier::external_body]
    pub fn get_mut<'a>(&'a mut self, key: &K) -> (r: Option<&'a mut V>)
        ensures match r {
            Some(v) => old(self)@.contains_key(*key) && *v == old(self)@[*key] && final(self)@ == old(self)@.insert(*key, *final(v)),
            None => !old(self)@.contains_key(*key) && final(self)@ == old(self)@,
        }
    { unimplemented!() }
}
impl<'a, K, V: Default> Entry<'a, K, V> {
    // the value slot of `key`, inserting V::default() first if the key is absent
    #[verifier::external_body]
    pub fn or_default(self) -> (r: &'a mut V)
        ensures
            old(self.map)@.contains_key(self.key) ==> *r == old(self.map)@[self.key],
            final(self.map)@ == old(self.map)@.insert(self.key, *final(r)),
    { unimplemented!() }
}
pub mod oneshot {
    use vstd::prelude::*;
    // the sending half of a tokio oneshot channel: consumed by `send`, not Clone — a request can be answered at most once
    #[verifier::external_body]
    #[verifier::reject_recursive_types(T)]
    pub struct Sender<T> { t: core::marker::PhantomData<T> }
    pub uninterp spec fn answered<T>(tx: Sender<T>, v: T) -> bool;
    impl<T> Sender<T> {
        #[verifier::external_body]
        pub fn send(self, v: T) -> (r: Result<(), T>) ensures answered(self, v) { unimplemented!() }
        // whether the receiving half is gone: ANY answer (it depends on the requester, not on this state)
        #[verifier::external_body]
        pub fn is_closed(&self) -> bool { unimplemented!() }
    }
}
use oneshot::answered;
#[verifier::external_body]
#[verifier::reject_recursive_types(T)]
pub struct VecDeque<T> { t: core::marker::PhantomData<T> }
impl<T> View for VecDeque<T> { type V = Seq<T>; uninterp spec fn view(&self) -> Seq<T>; }
impl<T> VecDeque<T> {
    #[verifier::external_body]
    pub fn is_empty(&self) -> (r: bool) ensures r == (self@.len() == 0) { unimplemented!() }
    #[verifier::external_body]
    pub fn push_back(&mut self, v: T) ensures final(self)@ == old(self)@.push(v) { unimplemented!() }
    #[verifier::external_body]
    pub fn front(&self) -> (r: Option<&T>) ensures match r { Some(x) => self@.len() > 0 && *x == self@[0], None => self@.len() == 0 } { unimplemented!() }
    #[verifier::external_body]
    pub fn back(&self) -> (r: Option<&T>) ensures match r { Some(x) => self@.len() > 0 && *x == self@[self@.len() - 1], None => self@.len() == 0 } { unimplemented!() }
    #[verifier::external_body]
    pub fn len(&self) -> (r: usize) ensures r == self@.len() { unimplemented!() }
    #[verifier::external_body]
    pub fn pop_front(&mut self) -> (r: Option<T>)
        ensures match r { Some(x) => old(self)@.len() > 0 && x == old(self)@[0] && final(self)@ == old(self)@.subrange(1, old(self)@.len() as int), None => old(self)@.len() == 0 && final(self)@ == old(self)@ }
    { unimplemented!() }
    // rule R27: `drain(..)` used as a for-loop source: all elements in order, the deque is left empty
    #[verifier::external_body]
    pub fn drain_all(&mut self) -> (r: Vec<T>) ensures r@ == old(self)@, final(self)@.len() == 0 { unimplemented!() }
}
//@item iroh/src/address_lookup.rs enum AddressLookupFailed
pub struct Error { pub id: int }   // address_lookup::Error (one service's failure): opaque
impl Clone for AddressLookupFailed { #[verifier::external_body] fn clone(&self) -> (r: AddressLookupFailed) ensures r == *self { unimplemented!() } }
#[verifier::external_body]
pub fn result_clone(r: &Result<(), AddressLookupFailed>) -> (o: Result<(), AddressLookupFailed>) ensures o == *r { unimplemented!() }

//@item iroh/src/socket/remote_map/remote_state/path_state.rs enum PathStatus
//@item iroh/src/socket/remote_map/remote_state/path_state.rs struct PathState pubfields
impl Default for PathStatus { #[verifier::external_body] fn default() -> (r: PathStatus) ensures r is Unknown { unimplemented!() } }
impl Default for PathState { #[verifier::external_body] fn default() -> (r: PathState) ensures r.status is Unknown { unimplemented!() } }
//@item iroh/src/socket/remote_map/remote_state/path_state.rs struct RemotePathState pubfields

pub type Paths = Map<transports::Addr, PathState>;
pub type Tx = oneshot::Sender<Result<(), AddressLookupFailed>>;
pub open spec fn no_paths(m: Paths) -> bool { forall|a: transports::Addr| !#[trigger] m.contains_key(a) }

// ---- ASSUMED contract of the callee prune_non_relay_paths (property C23; its body is an iterator/sort/HashSet/retain
// pipeline out of Verus' reach): pruning only removes paths, never changes a kept one, and never empties a non-empty set
#[verifier::external_body]
pub fn prune_non_relay_paths(paths: &mut FxHashMap<transports::Addr, PathState>)
    ensures
        final(paths)@.dom().subset_of(old(paths)@.dom()),
        forall|a: transports::Addr| final(paths)@.contains_key(a) ==> #[trigger] final(paths)@[a] == old(paths)@[a],
        !no_paths(old(paths)@) ==> !no_paths(final(paths)@),
{ unimplemented!() }

// what every queued request is answered with when the queue is flushed
pub open spec fn flush_result(paths: Paths, err: Option<AddressLookupFailed>, r: Result<(), AddressLookupFailed>) -> bool {
    if !no_paths(paths) { r is Ok } else { match err { Some(e) => r == Err::<(), AddressLookupFailed>(e), None => r matches Err(AddressLookupFailed::NoResults { .. }) } }
}
pub open spec fn all_answered(q: Seq<Tx>, paths: Paths, err: Option<AddressLookupFailed>) -> bool {
    q.len() == 0 || exists|r: Result<(), AddressLookupFailed>| #[trigger] flush_result(paths, err, r) && forall|i: int| 0 <= i < q.len() ==> #[trigger] answered(q[i], r)
}

// a flush while a path is known answers with success
pub proof fn lemma_flush_ok(q: Seq<Tx>, paths: Paths, err: Option<AddressLookupFailed>)
    requires all_answered(q, paths, err), !no_paths(paths)
    ensures forall|i: int| 0 <= i < q.len() ==> #[trigger] answered(q[i], Ok::<(), AddressLookupFailed>(()))
{
    if q.len() > 0 {
        let r = choose|r: Result<(), AddressLookupFailed>| #[trigger] flush_result(paths, err, r) && forall|i: int| 0 <= i < q.len() ==> #[trigger] answered(q[i], r);
        match r { Ok(u) => { assert(u == ()); assert(r == Ok::<(), AddressLookupFailed>(())); } Err(_) => {} }
    }
}

impl RemotePathState {
    // representation invariant: requests only wait while no path is known
    pub open spec fn wf(&self) -> bool { self.pending_resolve_requests@.len() > 0 ==> no_paths(self.paths@) }

//@fn iroh/src/socket/remote_map/remote_state/path_state.rs RemotePathState::prune_paths props=C22
//@| ensures
//@|     final(self).paths@.dom().subset_of(old(self).paths@.dom()),
//@|     !no_paths(old(self).paths@) ==> !no_paths(final(self).paths@),
//@|     final(self).pending_resolve_requests == old(self).pending_resolve_requests,
//@end

//@fn iroh/src/socket/remote_map/remote_state/path_state.rs RemotePathState::emit_pending_resolve_requests props=C22
//@| ensures
//@|     final(self).paths == old(self).paths,
//@|     // every queued request is answered, each with the same verdict: Ok iff a path is known, else the lookup's error
//@|     final(self).pending_resolve_requests@.len() == 0,
//@|     all_answered(old(self).pending_resolve_requests@, old(self).paths@, address_lookup_error),
//@rwx R27 1
//@- for (\w+) in self\.pending_resolve_requests\.drain\(\.\.\) \{
//@+ let drained_ = self.pending_resolve_requests.drain_all(); let ghost q0 = drained_@; for \1 in it: drained_ {
//@loop 1
//@| invariant it.seq() == q0, forall|i: int| 0 <= i < it.index@ ==> #[trigger] answered(q0[i], result),
//@rwx R9 1
//@- (\w+)\.send\(result\.clone\(\)\)\.ok\(\);
//@+ \1.send(result_clone(&result)).ok();
//@atend
//@| proof { assert(flush_result(old(self).paths@, address_lookup_error, result)); }
//@end

//@fn iroh/src/socket/remote_map/remote_state/path_state.rs RemotePathState::resolve_remote props=C22
//@| requires old(self).wf()
//@| ensures
//@|     final(self).wf(), final(self).paths == old(self).paths,
//@|     // a path is already known: answered with success immediately; otherwise the request waits
//@|     !no_paths(old(self).paths@) ==> answered(tx, Ok::<(), AddressLookupFailed>(())) && final(self).pending_resolve_requests == old(self).pending_resolve_requests,
//@|     no_paths(old(self).paths@) ==> final(self).pending_resolve_requests@ == old(self).pending_resolve_requests@.push(tx),
//@end

//@fn iroh/src/socket/remote_map/remote_state/path_state.rs RemotePathState::address_lookup_finished props=C22
//@| requires old(self).wf()
//@| ensures
//@|     final(self).wf(), final(self).paths == old(self).paths,
//@|     // a finished lookup run answers everything that is still waiting
//@|     final(self).pending_resolve_requests@.len() == 0,
//@|     all_answered(old(self).pending_resolve_requests@, old(self).paths@, match result { Ok(_) => None, Err(e) => Some(e) }),
//@end

//@fn iroh/src/socket/remote_map/remote_state/path_state.rs RemotePathState::insert_multiple props=C22
//@| requires old(self).wf()
//@| ensures
//@|     final(self).wf(),
//@|     // nothing known before and nothing added: nothing happens (no bogus failure while a lookup is in flight)
//@|     (no_paths(old(self).paths@) && addrs@.len() == 0) ==> no_paths(final(self).paths@) && final(self).pending_resolve_requests == old(self).pending_resolve_requests,
//@|     // the first known path answers everything that waits, with success
//@|     addrs@.len() > 0 ==> !no_paths(final(self).paths@) && final(self).pending_resolve_requests@.len() == 0
//@|         && forall|i: int| 0 <= i < old(self).pending_resolve_requests@.len() ==> #[trigger] answered(old(self).pending_resolve_requests@[i], Ok::<(), AddressLookupFailed>(())),
//@|     // known paths are never all lost
//@|     !no_paths(old(self).paths@) ==> !no_paths(final(self).paths@),
//@rw R27 1
//@- addrs: impl Iterator<Item = transports::Addr>,
//@+ addrs: Vec<transports::Addr>,
//@rwx A2 1
//@- for addr in addrs \{
//@+ let ghost a0 = addrs@; for addr in it: addrs {
//@loop 1
//@| invariant it.seq() == a0, self.pending_resolve_requests == old(self).pending_resolve_requests,
//@|     old(self).paths@.dom().subset_of(self.paths@.dom()),
//@|     forall|i: int| 0 <= i < it.index@ ==> self.paths@.contains_key(#[trigger] a0[i]),
//@|     it.index@ == 0 ==> self.paths == old(self).paths,
//@|     it.index@ > 0 ==> self.paths@.contains_key(a0[0]),
//@ins after 1
//@- self.emit_pending_resolve_requests(None);
//@| proof { lemma_flush_ok(old(self).pending_resolve_requests@, self.paths@, None); }
//@end

//@fn iroh/src/socket/remote_map/remote_state/path_state.rs RemotePathState::insert_open_path props=C22
//@| requires old(self).wf()
//@| ensures
//@|     final(self).wf(), !no_paths(final(self).paths@), final(self).pending_resolve_requests@.len() == 0,
//@|     forall|i: int| 0 <= i < old(self).pending_resolve_requests@.len() ==> #[trigger] answered(old(self).pending_resolve_requests@[i], Ok::<(), AddressLookupFailed>(())),
//@ins before 1
//@- let state = self.paths.entry(addr).or_default();
//@| let ghost a_ = addr;
//@ins before 1
//@- self.emit_pending_resolve_requests(None);
//@| proof { assert(self.paths@.contains_key(a_)); }
//@ins after 1
//@- self.emit_pending_resolve_requests(None);
//@| proof { lemma_flush_ok(old(self).pending_resolve_requests@, self.paths@, None); }
//@end

//@fn iroh/src/socket/remote_map/remote_state/path_state.rs RemotePathState::abandoned_path props=C22
//@| requires old(self).wf()
//@| ensures
//@|     // abandoning a path never removes it from the set of known paths
//@|     final(self).wf(), final(self).paths@.dom() == old(self).paths@.dom(), final(self).pending_resolve_requests == old(self).pending_resolve_requests,
//@end

//@fn iroh/src/socket/remote_map/remote_state/path_state.rs RemotePathState::resolve_requests_is_empty props=C22 ret=r
//@| ensures r == (self.pending_resolve_requests@.len() == 0)
//@end
//@fn iroh/src/socket/remote_map/remote_state/path_state.rs RemotePathState::is_empty props=C22 ret=r
//@| ensures r == no_paths(self.paths@)
//@end
}

// ======== the remote-state actor's side (remote_state.rs): when a resolve request is queued a lookup runs, and every
// end of a lookup run flushes the queue
#[derive(Clone, Copy)]
pub struct EndpointIdC { pub id: int }
pub struct TransportAddr { pub id: int }
pub struct BTreeSet<T> { pub items: Seq<T> }
pub struct EndpointAddr { pub id: EndpointId, pub addrs: BTreeSet<TransportAddr> }
pub struct AddressLookupItem { pub endpoint_id: EndpointId, pub id: int }
impl AddressLookupItem {
    #[verifier::external_body] pub fn endpoint_id(&self) -> (r: EndpointId) ensures r == self.endpoint_id { unimplemented!() }
    #[verifier::external_body] pub fn provenance(&self) -> &'static str { unimplemented!() }
    #[verifier::external_body] pub fn into_endpoint_addr(self) -> EndpointAddr { unimplemented!() }
}
// rule R15: <str as ToString>::to_string
#[verifier::external_body] pub fn str_to_string(s: &str) -> String { unimplemented!() }
impl Clone for EndpointId { #[verifier::external_body] fn clone(&self) -> (r: EndpointId) ensures r == *self { unimplemented!() } }
impl Copy for EndpointId {}
// converts the supported transport addresses; the result has at most as many entries (unsupported kinds are skipped)
#[verifier::external_body]
pub fn to_transports_addr(endpoint_id: EndpointId, addrs: BTreeSet<TransportAddr>) -> (r: Vec<transports::Addr>)
    ensures r@.len() <= addrs.items.len()
{ unimplemented!() }
// the merged stream of lookup results of one run (futures BoxStream): opaque
#[verifier::external_body]
#[verifier::reject_recursive_types(T)]
pub struct BoxStream<T> { t: core::marker::PhantomData<T> }
pub struct AddressLookupServices { pub id: int }
//@item iroh/src/socket/remote_map/remote_state.rs struct State keep=endpoint_id,address_lookup,paths,selected_path,address_lookup_stream pubfields pub

impl State {
    // trigger_address_lookup (ASSUMED contract; its body builds a filter_map adapter over the services' stream): afterwards
    // a lookup run is in progress unless a path is already selected; nothing else changes
    #[verifier::external_body]
    pub fn trigger_address_lookup(&mut self)
        ensures final(self).paths == old(self).paths, final(self).address_lookup_stream is Some || final(self).selected_path is Some
    { unimplemented!() }

//@fn iroh/src/socket/remote_map/remote_state.rs State::handle_msg_resolve_remote props=C22
//@| requires old(self).paths.wf()
//@| ensures
//@|     final(self).paths.wf(),
//@|     // a path is known (before, or through the addresses supplied with the request): answered with success at once,
//@|     // together with everything that was still waiting
//@|     !no_paths(final(self).paths.paths@) ==> answered(tx, Ok::<(), AddressLookupFailed>(())) && final(self).paths.pending_resolve_requests@.len() == 0,
//@|     // no path known: the request waits, and a lookup run is in progress that will end in handle_address_lookup_item
//@|     no_paths(final(self).paths.paths@) ==> final(self).paths.pending_resolve_requests@ == old(self).paths.pending_resolve_requests@.push(tx)
//@|         && (final(self).address_lookup_stream is Some || final(self).selected_path is Some),
//@|     !no_paths(old(self).paths.paths@) ==> !no_paths(final(self).paths.paths@),
//@end

//@fn iroh/src/socket/remote_map/remote_state.rs State::handle_address_lookup_item props=C22
//@| requires old(self).paths.wf()
//@| ensures
//@|     final(self).paths.wf(),
//@|     // EVERY end of a lookup run (stream exhausted, or failed) answers all waiting requests: success if a path is known,
//@|     // else the lookup's error / NoResults — and only an end of a run produces failures
//@|     item is None ==> final(self).paths.pending_resolve_requests@.len() == 0 && final(self).address_lookup_stream is None
//@|         && all_answered(old(self).paths.pending_resolve_requests@, old(self).paths.paths@, None),
//@|     item matches Some(Err(e)) ==> final(self).paths.pending_resolve_requests@.len() == 0 && final(self).address_lookup_stream is None
//@|         && all_answered(old(self).paths.pending_resolve_requests@, old(self).paths.paths@, Some(e)),
//@|     // an item of a running lookup never produces a failure: it either makes a path known (all answered with success) or changes nothing for the queue
//@|     item matches Some(Ok(_)) ==> (no_paths(final(self).paths.paths@) ==> final(self).paths.pending_resolve_requests == old(self).paths.pending_resolve_requests),
//@|     !no_paths(old(self).paths.paths@) ==> !no_paths(final(self).paths.paths@),
//@rw R15 *
//@- item.provenance().to_string()
//@+ str_to_string(item.provenance())
//@end
}
} // verus!
fn main() {}
