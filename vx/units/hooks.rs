//@unit hooks props=C42
// C42 — connection hooks gate every connection: the hook lists short-circuit correctly.
use vstd::prelude::*;
use vstd::std_specs::cmp::OrdSpec;
macro_rules! debug { ($($t:tt)*) => {}; }
macro_rules! event { ($($t:tt)*) => {}; }
// n0_error::e! / ensure! (the macro only adds a source location); variants carrying a source are built by `?` conversions
macro_rules! e {
    ($($err:tt)::+ { $($body:tt)* }) => { $($err)::+ { $($body)* } };
    ($($err:tt)::+) => { $($err)::+ {} };
}
macro_rules! ensure { ($cond:expr, $($t:tt)*) => { if !$cond { return Err(e!($($t)*)); } }; }
verus! {
//@include shims/std_wide.rs
#[derive(Clone, Copy, PartialEq, Eq, Structural)]
pub struct EndpointId { pub k: int }
pub struct EndpointAddr { pub id: EndpointId }
pub struct VarInt(pub u64);
impl VarInt {
    #[verifier::external_body] pub fn from_u32(x: u32) -> (r: VarInt) ensures r.0 == x { unimplemented!() }
    #[verifier::external_body] pub fn into_inner(self) -> (r: u64) ensures r == self.0 { unimplemented!() }
}
// an established connection as built by conn_from_noq_conn (same field names as the real type)
pub mod noq { use vstd::prelude::*; pub struct Connection { pub id: int } }
pub struct PathStateReceiver { pub id: int }
pub struct StaticInfo { pub endpoint_id: EndpointId, pub alpn: Vec<u8> }
pub struct HandshakeCompletedData { pub info: StaticInfo, pub paths: PathStateReceiver }
pub struct Connection { pub data: HandshakeCompletedData, pub inner: noq::Connection }
//@item iroh/src/endpoint/hooks.rs enum BeforeConnectOutcome
//@item iroh/src/endpoint/hooks.rs enum AfterHandshakeOutcome

// a hook's verdict for given arguments (any function: hooks are user code)
pub trait DynEndpointHooks {
    spec fn verdict_before(&self, remote_addr: EndpointAddr, alpn: Seq<u8>) -> BeforeConnectOutcome;
    spec fn verdict_after(&self, conn: Connection) -> AfterHandshakeOutcome;
}
// rule R19: awaiting the boxed future returned by a foreign trait method is redirected to an async shim whose
// ensures names the awaited value
#[verifier::external_body]
pub async fn await_before_connect(hook: &Box<dyn DynEndpointHooks>, remote_addr: &EndpointAddr, alpn: &[u8]) -> (r: BeforeConnectOutcome)
    ensures r == hook.verdict_before(*remote_addr, alpn@)
{ unimplemented!() }
#[verifier::external_body]
pub async fn await_after_handshake(hook: &Box<dyn DynEndpointHooks>, conn: &Connection) -> (r: AfterHandshakeOutcome)
    ensures r == hook.verdict_after(*conn)
{ unimplemented!() }

//@item iroh/src/endpoint/hooks.rs struct EndpointHooksList pubfields pub

impl EndpointHooksList {
//@fn iroh/src/endpoint/hooks.rs EndpointHooksList::before_connect props=C42 ret=r
//@| ensures
//@|     // accepted iff every installed hook accepts
//@|     r is Accept <==> forall|i: int| 0 <= i < self.inner@.len() ==> (#[trigger] self.inner@[i]).verdict_before(*remote_addr, alpn@) is Accept,
//@rw R19 1
//@- hook.before_connect(remote_addr, alpn).await
//@+ await_before_connect(hook, remote_addr, alpn).await
//@rw R6 1
//@- BeforeConnectOutcome::Accept => continue,
//@+ BeforeConnectOutcome::Accept => {}
//@rwx A2 1
//@- for hook in (.+) \{
//@+ for hook in it: \1 {
//@loop 1
//@| invariant
//@|     forall|i: int| 0 <= i < it.index@ ==> (#[trigger] self.inner@[i]).verdict_before(*remote_addr, alpn@) is Accept,
//@end

//@fn iroh/src/endpoint/hooks.rs EndpointHooksList::after_handshake props=C42 ret=r
//@| ensures
//@|     r is Accept <==> forall|i: int| 0 <= i < self.inner@.len() ==> (#[trigger] self.inner@[i]).verdict_after(*conn) is Accept,
//@|     // a rejection is the FIRST rejecting hook's own verdict (error code and reason included)
//@|     r is Reject ==> exists|k: int| 0 <= k < self.inner@.len() && r == (#[trigger] self.inner@[k]).verdict_after(*conn)
//@|         && forall|i: int| 0 <= i < k ==> (#[trigger] self.inner@[i]).verdict_after(*conn) is Accept,
//@rw R19 1
//@- hook.after_handshake(conn).await
//@+ await_after_handshake(hook, conn).await
//@rw R6 1
//@- AfterHandshakeOutcome::Accept => continue,
//@+ AfterHandshakeOutcome::Accept => {}
//@rwx A2 1
//@- for hook in (.+) \{
//@+ for hook in it: \1 {
//@loop 1
//@| invariant
//@|     forall|i: int| 0 <= i < it.index@ ==> (#[trigger] self.inner@[i]).verdict_after(*conn) is Accept,
//@end
}

// ======== conn_from_noq_conn: the only place an established `Connection` is built.  Its returned `async move` block is
// extracted as a function over the variables it captures (rule R4b).
pub enum ConnectingError { ConnectionError, HandshakeFailure, InternalConsistencyError, LocallyRejected }
impl From<RemoteStateActorStoppedError> for ConnectingError { #[verifier::external_body] fn from(e: RemoteStateActorStoppedError) -> (r: ConnectingError) ensures r is InternalConsistencyError { unimplemented!() } }
// the future returned by EndpointInner::register_connection
#[verifier::external_body]
pub struct RegisterFut { _p: () }
#[verifier::external_body]
pub async fn await_register(f: RegisterFut) -> (r: Result<PathStateReceiver, RemoteStateActorStoppedError>) { unimplemented!() }
pub open spec fn all_accept_after(hooks: EndpointHooksList, conn: Connection) -> bool {
    forall|i: int| 0 <= i < hooks.inner@.len() ==> (#[trigger] hooks.inner@[i]).verdict_after(conn) is Accept
}
impl Connection {
    // closing a connection that a hook rejected must use that hook's own error code and reason
    #[verifier::external_body]
    pub fn close(&self, error_code: VarInt, reason: &[u8])
        requires exists|h: Box<dyn DynEndpointHooks>| (#[trigger] h.verdict_after(*self)) matches AfterHandshakeOutcome::Reject { error_code: c, reason: rs } && c == error_code && rs@ == reason@   // [C42]
    { unimplemented!() }
}
//@arm iroh/src/endpoint/connection.rs conn_from_noq_conn props=C42 name=conn_block block
//@- Ok(async move
//@| pub async fn conn_block(fut: RegisterFut, info: StaticInfo, conn: noq::Connection, inner: std::sync::Arc<EndpointInner>) -> (r: Result<Connection, ConnectingError>)
//@|     ensures
//@|         // an established connection comes out only if every after-handshake hook accepted THIS connection
//@|         r matches Ok(c) ==> all_accept_after(inner.hooks, c) && c.inner == conn && c.data.info == info,
//@rw R19 1
//@- let paths = fut.await?;
//@+ let paths = await_register(fut).await?;
//@end

// ======== Endpoint::connect_with_opts: connect preconditions
// error enum of endpoint.rs without its foreign payloads
pub enum ConnectWithOptsError { SelfConnect, NoAddress, Noq, InternalConsistencyError, LocallyRejected, EndpointClosed, InvalidAlpn }
pub struct AddressLookupFailed; pub struct RemoteStateActorStoppedError; pub struct QuicConnectError;
impl From<AddressLookupFailed> for ConnectWithOptsError { #[verifier::external_body] fn from(e: AddressLookupFailed) -> (r: ConnectWithOptsError) ensures r is NoAddress { unimplemented!() } }
impl From<RemoteStateActorStoppedError> for ConnectWithOptsError { #[verifier::external_body] fn from(e: RemoteStateActorStoppedError) -> (r: ConnectWithOptsError) ensures r is InternalConsistencyError { unimplemented!() } }
impl From<QuicConnectError> for ConnectWithOptsError { #[verifier::external_body] fn from(e: QuicConnectError) -> (r: ConnectWithOptsError) ensures r is Noq { unimplemented!() } }
pub struct TransportArc;
impl Clone for TransportArc { #[verifier::external_body] fn clone(&self) -> TransportArc { unimplemented!() } }
pub struct QuicTransportConfig;
impl QuicTransportConfig { #[verifier::external_body] pub fn to_inner_arc(&self) -> TransportArc { unimplemented!() } }
//@item iroh/src/endpoint.rs struct ConnectOptions pubfields
pub struct ClientConfig { pub alpns: Seq<Seq<u8>> }
pub open spec fn alpn_views(v: Seq<Vec<u8>>) -> Seq<Seq<u8>> { Seq::new(v.len(), |i: int| v[i]@) }
pub struct StaticConfig { pub transport_config: QuicTransportConfig }
impl StaticConfig {
    #[verifier::external_body]
    pub fn create_client_config(&self, alpn_protocols: Vec<Vec<u8>>, transport_config: TransportArc) -> (r: ClientConfig)
        ensures r.alpns == alpn_views(alpn_protocols@)
    { unimplemented!() }
}
pub struct MappedAddr; pub struct SocketAddr;
impl MappedAddr { #[verifier::external_body] pub fn private_socket_addr(&self) -> SocketAddr { unimplemented!() } }
pub struct NoqConnecting;
pub struct NoqEndpoint;
pub uninterp spec fn name_encode(id: EndpointId) -> Seq<char>;
impl NoqEndpoint {
    // the QUIC/TLS handshake starts here: the primary protocol name offered must be non-empty.
    // (Observation, not part of the property: an empty entry in ConnectOptions::additional_alpns is not rejected
    // either and makes rustls hit a debug assertion; only the primary name is covered by C42.)
    #[verifier::external_body]
    pub fn connect_with(&self, config: ClientConfig, addr: SocketAddr, server_name: &String) -> (r: Result<NoqConnecting, QuicConnectError>)
        requires config.alpns.len() >= 1 && config.alpns[0].len() > 0,   // [C42]
    { unimplemented!() }
}
pub mod tls { pub mod name {
    use vstd::prelude::*;
    #[verifier::external_body]
    pub fn encode(id: super::super::EndpointId) -> (r: String) ensures r@ == super::super::name_encode(id) { unimplemented!() }
} }
pub struct EndpointInner { pub hooks: EndpointHooksList, pub static_config: StaticConfig, pub noq: NoqEndpoint }
impl EndpointInner {
    #[verifier::external_body]
    pub async fn resolve_remote(&self, addr: EndpointAddr) -> (r: Result<Result<MappedAddr, AddressLookupFailed>, RemoteStateActorStoppedError>) { unimplemented!() }
    #[verifier::external_body]
    pub fn noq_endpoint(&self) -> (r: &NoqEndpoint) ensures *r == self.noq { unimplemented!() }
}
pub struct Endpoint { pub inner: std::sync::Arc<EndpointInner>, pub my_id: EndpointId }
impl Clone for Endpoint { #[verifier::external_body] fn clone(&self) -> (r: Endpoint) ensures r == *self { unimplemented!() } }
pub struct Connecting { pub remote: EndpointId }
impl Connecting { #[verifier::external_body] pub fn new(c: NoqConnecting, ep: Endpoint, remote: EndpointId) -> (r: Connecting) ensures r.remote == remote { unimplemented!() } }
pub mod span {
    pub struct Span;
    impl Span { #[verifier::external_body] pub fn current() -> Span { unimplemented!() } }
}
use span::Span;
pub trait IntoAddr { spec fn addr(&self) -> EndpointAddr; fn into(self) -> (r: EndpointAddr) ensures r == self.addr(); }
pub open spec fn all_accept_before(hooks: EndpointHooksList, addr: EndpointAddr, alpn: Seq<u8>) -> bool {
    forall|i: int| 0 <= i < hooks.inner@.len() ==> (#[trigger] hooks.inner@[i]).verdict_before(addr, alpn) is Accept
}
impl Endpoint {
    #[verifier::external_body]
    pub fn is_closed(&self) -> bool { unimplemented!() }
    #[verifier::external_body]
    pub fn id(&self) -> (r: EndpointId) ensures r == self.my_id { unimplemented!() }

//@fn iroh/src/endpoint.rs Endpoint::connect_with_opts props=C42 ret=r
//@| ensures
//@|     // a connection attempt gets as far as a `Connecting` only if every hook accepted, the remote is not ourselves
//@|     // and the protocol name is non-empty
//@|     r is Ok ==> all_accept_before(self.inner.hooks, endpoint_addr.addr(), alpn@) && endpoint_addr.addr().id != self.my_id && alpn@.len() > 0,
//@|     endpoint_addr.addr().id == self.my_id ==> r is Err,
//@|     alpn@.len() == 0 ==> r is Err,
//@|     r matches Ok(c) ==> c.remote == endpoint_addr.addr().id,
//@rw D5 1
//@- endpoint_addr: impl Into<EndpointAddr>,
//@+ endpoint_addr: impl IntoAddr,
//@rwx D1 1
//@-         Span::current\(\)\.record\("remote", tracing::field::display\(endpoint_id\.fmt_short\(\)\)\);\n
//@+
//@rwx A3 1
//@- \.map\(\|cfg\| (.+?)\)\n
//@+ .map(|cfg: QuicTransportConfig| -> (o: TransportArc) { \1 })\n
//@rw R18 1
//@- alpn_protocols.extend(options.additional_alpns);
//@+ let mut additional = options.additional_alpns; alpn_protocols.append(&mut additional);
//@end
}
} // verus!
fn main() {}
