//@unit hooks props=C42
// C42 — connection hooks gate every connection: the hook lists short-circuit correctly.
use vstd::prelude::*;
use vstd::std_specs::cmp::OrdSpec;
verus! {
//@include shims/std_wide.rs
pub struct EndpointAddr { pub id: int }
pub struct Connection { pub id: int }
pub struct VarInt(pub u64);
//@item iroh/src/endpoint/hooks.rs enum BeforeConnectOutcome
//@item iroh/src/endpoint/hooks.rs enum AfterHandshakeOutcome

// a hook's verdict for given arguments (any function: hooks are user code)
pub trait DynEndpointHooks {
    spec fn verdict_before(&self, remote_addr: EndpointAddr, alpn: Seq<u8>) -> BeforeConnectOutcome;
    spec fn verdict_after(&self, conn: Connection) -> AfterHandshakeOutcome;
}
// rule R19: awaiting the boxed future returned by a foreign trait method is redirected to an async shim whose
// ensures names the awaited value
#[verifier::external_body]
pub async fn await_before_connect(hook: &Box<dyn DynEndpointHooks>, remote_addr: &EndpointAddr, alpn: &[u8]) -> (r: BeforeConnectOutcome)
    ensures r == hook.verdict_before(*remote_addr, alpn@)
{ unimplemented!() }
#[verifier::external_body]
pub async fn await_after_handshake(hook: &Box<dyn DynEndpointHooks>, conn: &Connection) -> (r: AfterHandshakeOutcome)
    ensures r == hook.verdict_after(*conn)
{ unimplemented!() }

//@item iroh/src/endpoint/hooks.rs struct EndpointHooksList pubfields pub

impl EndpointHooksList {
//@fn iroh/src/endpoint/hooks.rs EndpointHooksList::before_connect props=C42 ret=r
//@| ensures
//@|     // accepted iff every installed hook accepts
//@|     r is Accept <==> forall|i: int| 0 <= i < self.inner@.len() ==> (#[trigger] self.inner@[i]).verdict_before(*remote_addr, alpn@) is Accept,
//@rw R19 1
//@- hook.before_connect(remote_addr, alpn).await
//@+ await_before_connect(hook, remote_addr, alpn).await
//@rw R6 1
//@- BeforeConnectOutcome::Accept => continue,
//@+ BeforeConnectOutcome::Accept => {}
//@rwx A2 1
//@- for hook in (.+) \{
//@+ for hook in it: \1 {
//@loop 1
//@| invariant
//@|     forall|i: int| 0 <= i < it.index@ ==> (#[trigger] self.inner@[i]).verdict_before(*remote_addr, alpn@) is Accept,
//@end

//@fn iroh/src/endpoint/hooks.rs EndpointHooksList::after_handshake props=C42 ret=r
//@| ensures
//@|     r is Accept <==> forall|i: int| 0 <= i < self.inner@.len() ==> (#[trigger] self.inner@[i]).verdict_after(*conn) is Accept,
//@|     // a rejection is the FIRST rejecting hook's own verdict (error code and reason included)
//@|     r is Reject ==> exists|k: int| 0 <= k < self.inner@.len() && r == (#[trigger] self.inner@[k]).verdict_after(*conn)
//@|         && forall|i: int| 0 <= i < k ==> (#[trigger] self.inner@[i]).verdict_after(*conn) is Accept,
//@rw R19 1
//@- hook.after_handshake(conn).await
//@+ await_after_handshake(hook, conn).await
//@rw R6 1
//@- AfterHandshakeOutcome::Accept => continue,
//@+ AfterHandshakeOutcome::Accept => {}
//@rwx A2 1
//@- for hook in (.+) \{
//@+ for hook in it: \1 {
//@loop 1
//@| invariant
//@|     forall|i: int| 0 <= i < it.index@ ==> (#[trigger] self.inner@[i]).verdict_after(*conn) is Accept,
//@end
}
} // verus!
fn main() {}
