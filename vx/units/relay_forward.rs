//@unit relay_forward props=C04,C05
// C04 (reduced) — the relay forwards datagrams only to the addressed endpoint, with the true sender, unchanged.
// C05 — nothing a client sends gets another client's connection closed: every packet queued for a receiver
//        is one its sink accepts (queue invariant), unforwardable frames are dropped or end the sender's own connection.
use vstd::prelude::*;
use std::num::NonZeroU16;
use std::sync::Arc;
use vstd::std_specs::cmp::OrdSpec;
macro_rules! trace { ($($t:tt)*) => {}; }
macro_rules! debug { ($($t:tt)*) => {}; }
macro_rules! warn { ($($t:tt)*) => {}; }
macro_rules! e {
    (HandleFrameError :: $($t:tt)*) => { mk_handle_frame_error() };
    (Error :: $($t:tt)*) => { mk_error() };
}
macro_rules! ensure { ($cond:expr, $($t:tt)*) => { if !$cond { return Err(into_err(e!($($t)*))); } }; }
// std's ready! (same definition, over the Poll shim)
macro_rules! ready { ($e:expr $(,)?) => { match $e { Poll::Ready(t) => t, Poll::Pending => { return Poll::Pending; } } }; }
verus! {
pub struct Error;
pub struct HandleFrameError;
pub struct RecvError;
pub type RelayRecvError = RecvError;
pub struct RelaySendError;
pub mod tokio { pub mod time { pub mod error { pub struct Elapsed; } } }
//@item iroh-relay/src/server/client.rs enum WriteFrameError
pub struct SignatureError;
pub struct StreamError;
#[verifier::external_body] pub fn mk_error() -> Error { unimplemented!() }
#[verifier::external_body] pub fn mk_handle_frame_error() -> HandleFrameError { unimplemented!() }
#[verifier::external_body] pub fn into_err<A, B>(a: A) -> B { unimplemented!() }
// `?` conversions between the error enums (derived From impls)
impl From<RecvError> for HandleFrameError { #[verifier::external_body] fn from(e: RecvError) -> HandleFrameError { unimplemented!() } }
impl From<WriteFrameError> for HandleFrameError { #[verifier::external_body] fn from(e: WriteFrameError) -> HandleFrameError { unimplemented!() } }
impl From<SignatureError> for Error { #[verifier::external_body] fn from(e: SignatureError) -> Error { unimplemented!() } }
impl From<FrameTypeError> for Error { #[verifier::external_body] fn from(e: FrameTypeError) -> Error { unimplemented!() } }
impl From<Error> for RecvError { #[verifier::external_body] fn from(e: Error) -> RecvError { unimplemented!() } }
impl From<StreamError> for RecvError { #[verifier::external_body] fn from(e: StreamError) -> RecvError { unimplemented!() } }
pub struct FrameTypeError;

//@include shims/task.rs
//@include shims/bytes.rs
impl Bytes {
    #[verifier::external_body]
    pub fn get_u8(&mut self) -> (r: u8)
        requires old(self)@.len() >= 1     // bytes panics otherwise
        ensures r == old(self)@[0], final(self)@ == old(self)@.subrange(1, old(self)@.len() as int)
    { unimplemented!() }
    #[verifier::external_body]
    pub fn get_u16(&mut self) -> (r: u16)
        requires old(self)@.len() >= 2
        ensures r == (old(self)@[0] as u16) * 256 + (old(self)@[1] as u16), final(self)@ == old(self)@.subrange(2, old(self)@.len() as int)
    { unimplemented!() }
    #[verifier::external_body]
    pub fn slice(&self, r: core::ops::RangeFrom<usize>) -> (o: Bytes)
        requires r.start <= self@.len()
        ensures o@ == self@.subrange(r.start as int, self@.len() as int)
    { unimplemented!() }
}
// `&content[..n]`: panics when n > len
// rule R17: `&content[..n]` (Index<RangeTo> on the foreign type Bytes) is redirected to this function
#[verifier::external_body]
pub fn bytes_prefix(b: &Bytes, n: usize) -> (o: &[u8])
    requires n <= b@.len()
    ensures o@ == b@.subrange(0, n as int)
{ unimplemented!() }
//@include shims/std_wide.rs

//@item iroh-relay/src/protos/relay.rs const MAX_PACKET_SIZE
//@item iroh-relay/src/protos/relay.rs struct Datagrams
//@include shims/relay_wire.rs

//@item iroh-relay/src/protos/common.rs enum FrameType derive=Clone,Copy,PartialEq,Eq,Structural
impl FrameType {
    // VarInt decoding of the tag: any tag, consuming 1, 2, 4 or 8 bytes (QUIC varint; non-minimal encodings are accepted)
    #[verifier::external_body]
    pub fn from_bytes(buf: &mut Bytes) -> (r: Result<FrameType, FrameTypeError>)
        ensures r is Ok ==> exists|k: int| #![trigger old(buf)@.subrange(k, old(buf)@.len() as int)] 1 <= k <= 8 && k <= old(buf)@.len() && final(buf)@ == old(buf)@.subrange(k, old(buf)@.len() as int)
    { unimplemented!() }
    // verified in unit relay_sink (same source function); here only its value for the datagram tags is needed
    #[verifier::external_body]
    pub fn encoded_len(&self) -> (r: usize) ensures 1 <= r <= 4, (*self as u32) < 64 ==> r == 1 { unimplemented!() }
}

//@item iroh-relay/src/protos/relay.rs enum ClientToRelayMsg

pub struct KeyCache;
impl KeyCache {
    // a key cache lookup is PublicKey::try_from on the slice (curve-point validation)
    #[verifier::external_body]
    pub fn key_from_slice(&self, slice: &[u8]) -> (r: Result<PublicKey, SignatureError>)
        ensures r matches Ok(k) ==> slice@.len() == 32 && k.b@ == slice@
    { unimplemented!() }
}

impl Datagrams {
//@fn iroh-relay/src/protos/relay.rs Datagrams::encoded_len props=C05 ret=r
//@| requires self.contents@.len() <= 0x1000_0000
//@| ensures r == dg_wire_len(*self)
//@rw R1 *
//@- .map_or(0, |_| 2)
//@+ .map_or(0, |_w: NonZeroU16| -> (o: usize) ensures o == 2 { 2 })
//@end

//@fn iroh-relay/src/protos/relay.rs Datagrams::from_bytes props=C04,C05 ret=r
//@| ensures
//@|     r matches Ok(d) ==> d.contents@ == bytes@.subrange(if is_batch { 3int } else { 1 }, bytes@.len() as int)
//@|         && (d.segment_size is Some ==> is_batch)
//@|         && d.contents@.len() == bytes@.len() - (if is_batch { 3int } else { 1 }),
//@end
}

// what the relay's decoder guarantees about a message it accepted
pub open spec fn decoded_ok(m: ClientToRelayMsg) -> bool {
    m matches ClientToRelayMsg::Datagrams { datagrams, .. } ==> 1 + 32 + dg_wire_len(datagrams) <= MAX_PACKET_SIZE
}

impl ClientToRelayMsg {
//@fn iroh-relay/src/protos/relay.rs ClientToRelayMsg::from_bytes props=C05 ret=r
//@| ensures r matches Ok(m) ==> decoded_ok(m)
//@rwx R17 3
//@- &content\[\.\.([A-Za-z0-9_:]+)\]
//@+ bytes_prefix(&content, \1)
//@ins before 1
//@- Self::Datagrams {
//@| proof {
//@|     assert((frame_type as u32) < 64);
//@|     assert(dg_wire_len(datagrams) <= content@.len() - 32);
//@| }
//@end
}

// ---- the per-client queues (tokio mpsc): trusted shim.  QUEUE INVARIANT of C05: everything put on a receiver's
// packet queue must be forwardable, because the receiver's actor turns a sink error into its own exit
// (`self.send_packet(packet).await.map_err(|err| e!(RunError::PacketSend, err))?` inside run_inner's select! loop).
pub mod mpsc {
    use vstd::prelude::*;
    pub enum TrySendError<T> { Full(T), Closed(T) }
    #[verifier::external_body]
    #[verifier::reject_recursive_types(T)]
    pub struct Sender<T> { t: core::marker::PhantomData<T> }
}
use mpsc::TrySendError;
pub uninterp spec fn enqueued(q: mpsc::Sender<Packet>, p: Packet) -> bool;
impl mpsc::Sender<Packet> {
    #[verifier::external_body]
    pub fn try_send(&self, p: Packet) -> (r: Result<(), TrySendError<Packet>>)
        requires forwardable(p.data)   // [C05]
        ensures r is Ok ==> enqueued(*self, p)
    { unimplemented!() }
}

//@item iroh-relay/src/server/client.rs struct Packet pubfields
// derived Clone of Packet: a faithful copy
impl Clone for Packet { #[verifier::external_body] fn clone(&self) -> (r: Packet) ensures r == *self { unimplemented!() } }
pub struct CancellationToken { pub id: int }
impl CancellationToken {
    #[verifier::external_body] pub fn is_cancelled(&self) -> bool { unimplemented!() }
    #[verifier::external_body] pub fn cancel(&self) { unimplemented!() }
}
//@item iroh-relay/src/server/client.rs struct Client keep=endpoint_id,packet_queue,done pubfields pub

impl Client {
//@fn iroh-relay/src/server/client.rs Client::try_send_packet props=C04,C05 ret=r
//@| requires forwardable(data)  // [C05]
//@| ensures r is Ok ==> enqueued(self.packet_queue, Packet { src, data })  // [C04]
//@end
    #[verifier::external_body]
    pub fn start_shutdown(&self) { unimplemented!() }
}

// ---- the registry (DashMap): a lookup yields the entry registered under exactly that key, or nothing
//@item iroh-relay/src/server/clients.rs struct ClientState pubfields pub
pub uninterp spec fn registered(c: Clients, id: EndpointId, st: ClientState) -> bool;
pub struct ClientsMap;
pub struct SentToMap;
pub struct Ref<'a> { pub st: &'a ClientState }
impl<'a> core::ops::Deref for Ref<'a> { type Target = ClientState; #[verifier::external_body] fn deref(&self) -> (r: &ClientState) ensures *r == *self.st { unimplemented!() } }
pub struct Inner { pub clients: ClientsMap, pub sent_to: SentToMap }
pub struct Clients(pub std::sync::Arc<Inner>);
pub uninterp spec fn registered_in(m: ClientsMap, id: EndpointId, st: ClientState) -> bool;
pub uninterp spec fn not_registered(m: ClientsMap, id: EndpointId) -> bool;
impl ClientsMap {
    #[verifier::external_body]
    pub fn get<'a>(&'a self, k: &EndpointId) -> (r: Option<Ref<'a>>)
        ensures r matches Some(e) ==> registered_in(*self, *k, *e.st),
                r is None ==> not_registered(*self, *k)
    { unimplemented!() }
}
pub struct SentToEntry;
pub struct SentToSet;
impl SentToMap { #[verifier::external_body] pub fn entry(&self, k: EndpointId) -> SentToEntry { unimplemented!() } }
impl SentToEntry { #[verifier::external_body] pub fn or_default(self) -> SentToSet { unimplemented!() } }
impl SentToSet { #[verifier::external_body] pub fn insert(&mut self, k: EndpointId) -> bool { unimplemented!() } }

pub struct Counter;
impl Counter { #[verifier::external_body] pub fn inc(&self) { } #[verifier::external_body] pub fn inc_by(&self, n: u64) { } }
pub struct Metrics { pub send_packets_recv: Counter, pub send_packets_dropped: Counter, pub send_packets_sent: Counter, pub bytes_recv: Counter, pub bytes_sent: Counter, pub got_ping: Counter, pub sent_pong: Counter }
pub enum SendError { Full, Closed }
pub struct ForwardPacketError { pub reason: SendError }
impl ForwardPacketError { #[verifier::external_body] pub fn new(reason: SendError) -> ForwardPacketError { unimplemented!() } }

// C04: a packet accepted for forwarding is either dropped (nobody registered under the ADDRESSED id) or put on the
// queue of the connection registered under exactly that id, carrying the given source id and the unchanged batch.
pub open spec fn delivered_or_dropped(c: Clients, dst: EndpointId, src: EndpointId, data: Datagrams) -> bool {
    ||| not_registered(c.0.clients, dst)
    ||| exists|st: ClientState| #[trigger] registered_in(c.0.clients, dst, st) && enqueued(st.active.packet_queue, Packet { src, data })
}

impl Clients {
//@fn iroh-relay/src/server/clients.rs Clients::send_packet props=C04,C05 ret=r
//@| requires forwardable(data)  // [C05]
//@| ensures r is Ok ==> delivered_or_dropped(*self, dst, src, data)  // [C04]
//@end
}

// ---- the per-connection actor (server/client.rs)
pub struct OnDisconnectGuard { pub endpoint_id: EndpointId }
impl OnDisconnectGuard {
    // the id this connection authenticated as (set once from the handshake result, see unit relay_handshake)
    #[verifier::external_body]
    pub fn endpoint_id(&self) -> (r: EndpointId) ensures r == self.endpoint_id { unimplemented!() }
}
pub struct PingTracker;
impl PingTracker { #[verifier::external_body] pub fn pong_received(&mut self, data: [u8; 8]) { unimplemented!() } }
//@item iroh-relay/src/server/streams.rs struct RelayedStream pubfields
//@item iroh-relay/src/protos/relay.rs enum Status
//@item iroh-relay/src/protos/relay.rs enum RelayToClientMsg
pub struct Duration;   // only carried inside RelayToClientMsg::Restarting
//@item iroh-relay/src/server/client.rs struct Actor keep=stream,guard,clients,ping_tracker,metrics pubfields pub
pub uninterp spec fn wrote(f: RelayToClientMsg) -> bool;
// ghost history of the connection's sink: every frame a write was ATTEMPTED for, in order.  A write that times out or
// fails may already have queued its frame in the sink (Sink::send = poll_ready, start_send, poll_flush: only the flush
// waits for the peer), so an attempt counts whether or not it reports success.
pub uninterp spec fn attempts<S>(s: RelayedStream<S>) -> Seq<RelayToClientMsg>;
impl<S> Actor<S> {
    // tokio::time::timeout(self.timeout, self.stream.send(frame)): Ok only if the frame went into the sink
    #[verifier::external_body]
    pub async fn write_frame(&mut self, frame: RelayToClientMsg) -> (r: Result<(), WriteFrameError>)
        ensures r is Ok ==> wrote(frame),
                attempts(final(self).stream) == attempts(old(self).stream).push(frame),
                final(self).guard == old(self).guard, final(self).clients == old(self).clients
    { unimplemented!() }

//@fn iroh-relay/src/server/client.rs Actor::handle_frame_send_packet props=C04,C05 ret=r
//@| requires 1 + 32 + dg_wire_len(data) <= MAX_PACKET_SIZE   // what the decoder established (decoded_ok)
//@| ensures
//@|     // attributed to the authenticated id of THIS connection, addressed id as lookup key, batch unchanged; empty batches are dropped
//@|     r is Ok ==> data.contents@.len() == 0 || delivered_or_dropped(self.clients, dst, self.guard.endpoint_id, data),  // [C04]
//@end

//@fn iroh-relay/src/server/client.rs Actor::handle_frame props=C04,C05 ret=r
//@| requires maybe_frame matches Some(Ok(m)) ==> decoded_ok(m)
//@| ensures
//@|     final(self).guard == old(self).guard, final(self).clients == old(self).clients,
//@|     // a forwarding failure (queue full, receiver gone, nobody there) never ends the SENDER's connection either:
//@|     // Err only for its own stream end / decode error / write error
//@|     (maybe_frame matches Some(Ok(m)) && m is Datagrams) ==> r is Ok,
//@end

//@fn iroh-relay/src/server/client.rs Actor::send_raw props=C04 ret=r
//@| ensures
//@|     r is Ok ==> wrote(RelayToClientMsg::Datagrams { remote_endpoint_id: packet.src, datagrams: packet.data }),
//@|     // exactly one write attempt, of exactly this batch attributed to its source
//@|     attempts(final(self).stream) == attempts(old(self).stream).push(RelayToClientMsg::Datagrams { remote_endpoint_id: packet.src, datagrams: packet.data }),
//@end

//@fn iroh-relay/src/server/client.rs Actor::send_packet props=C04 ret=r
//@| ensures
//@|     r is Ok ==> wrote(RelayToClientMsg::Datagrams { remote_endpoint_id: packet.src, datagrams: packet.data }),
//@|     // a queued packet is handed to the sink at most once (here: exactly one attempt), whatever the outcome
//@|     attempts(final(self).stream) == attempts(old(self).stream).push(RelayToClientMsg::Datagrams { remote_endpoint_id: packet.src, datagrams: packet.data }),
//@end
}

// ---- the receive side of the connection: only what the decoder accepted reaches handle_frame
pub trait InnerStream {
    // the websocket layer: any bytes, any error, end of stream
    fn poll_next(&mut self, cx: &mut Context<'_>) -> (r: Poll<Option<Result<Bytes, StreamError>>>);
}
impl<S: InnerStream> RelayedStream<S> {
//@fn iroh-relay/src/server/streams.rs Stream@RelayedStream::poll_next props=C05 ret=r
//@| ensures r matches Poll::Ready(Some(Ok(m))) ==> decoded_ok(m)
//@rw R7 1
//@- mut self: Pin<&mut Self>
//@+ &mut self
//@rw R7 1
//@- Pin::new(&mut self.inner).poll_next(cx)
//@+ self.inner.poll_next(cx)
//@rw D5 1
//@- Poll<Option<Self::Item>>
//@+ Poll<Option<Result<ClientToRelayMsg, RecvError>>>
//@rw A3 1
//@- .map_err(Into::into))
//@+ .map_err(|e: Error| -> (o: RecvError) { e.into() }))
//@end
}
} // verus!
fn main() {}
