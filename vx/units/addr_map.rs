//@unit addr_map props=C18
// C18 (map half) — mapped addresses form a stable bijection: the critical sections of AddrMap.
use vstd::prelude::*;
use vstd::std_specs::cmp::OrdSpec;
macro_rules! trace { ($($t:tt)*) => {}; }
verus! {
//@include shims/std_wide.rs
use ::std::hash::Hash;
use ::std::fmt;
use ::std::sync::Arc;
// `std::sync::Mutex` in the extracted struct resolves to the shim below
pub mod std { pub mod sync { pub use crate::Mutex; } }

// ---- trusted shim: rustc_hash::FxHashMap viewed as Map<K, V>
#[verifier::external_body]
#[verifier::reject_recursive_types(K)]
#[verifier::reject_recursive_types(V)]
pub struct FxHashMap<K, V> { k: core::marker::PhantomData<(K, V)> }
impl<K, V> View for FxHashMap<K, V> { type V = Map<K, V>; uninterp spec fn view(&self) -> Map<K, V>; }
impl<K: Eq + Hash, V> FxHashMap<K, V> {
    #[verifier::external_body]
    pub fn get<'a>(&'a self, k: &K) -> (r: Option<&'a V>)
        ensures match r { Some(v) => self@.contains_key(*k) && *v == self@[*k], None => !self@.contains_key(*k) }
    { unimplemented!() }
    #[verifier::external_body]
    pub fn contains_key(&self, k: &K) -> (r: bool) ensures r == self@.contains_key(*k) { unimplemented!() }
    #[verifier::external_body]
    pub fn insert(&mut self, k: K, v: V) -> (r: Option<V>)
        ensures final(self)@ == old(self)@.insert(k, v)
    { unimplemented!() }
    #[verifier::external_body]
    pub fn remove(&mut self, k: &K) -> (r: Option<V>)
        ensures final(self)@ == old(self)@.remove(*k)
    { unimplemented!() }
}
// Option<&K>::cloned with a faithful Clone (ASSUMPTION: K::clone returns an equal key)
pub trait FaithfulClone: Clone + Sized { }
#[verifier::external_body]
pub fn cloned_key<K: Clone>(o: Option<&K>) -> (r: Option<K>)
    ensures r == (match o { Some(k) => Some(*k), None => None::<K> })
{ unimplemented!() }
#[verifier::external_body]
pub fn clone_key<K: Clone>(k: &K) -> (r: K) ensures r == *k { unimplemented!() }

pub trait MappedAddr: Sized {
    // a random address of this kind: ANY value may come out
    fn generate() -> Self;
}

//@item iroh/src/socket/mapped_addrs.rs struct AddrMapInner pubfields pub
//@| #[verifier::reject_recursive_types(K)]
//@| #[verifier::reject_recursive_types(V)]

impl<K, V> AddrMapInner<K, V> {
    // representation invariant under the mutex: the two maps are mutually inverse
    pub open spec fn inv(&self) -> bool {
        &&& forall|k: K| self.addrs@.contains_key(k) ==> self.lookup@.contains_key(#[trigger] self.addrs@[k]) && self.lookup@[self.addrs@[k]] == k
        &&& forall|v: V| self.lookup@.contains_key(v) ==> self.addrs@.contains_key(#[trigger] self.lookup@[v]) && self.addrs@[self.lookup@[v]] == v
    }
}

// ---- std::sync::Mutex around the two maps.  ASSUMPTIONS: mutual exclusion, never poisoned.  What a thread finds
// when it acquires the lock is ANY state satisfying the representation invariant (other threads may have run any
// number of critical sections in between); what it must leave behind is checked at the end of each critical section.
pub struct PoisonError;
#[verifier::external] impl core::fmt::Debug for PoisonError { fn fmt(&self, f: &mut core::fmt::Formatter<'_>) -> core::fmt::Result { Ok(()) } }
#[verifier::external_body]
#[verifier::reject_recursive_types(T)]
pub struct Mutex<T> { t: core::marker::PhantomData<T> }
#[verifier::external_body]
#[verifier::reject_recursive_types(K)]
#[verifier::reject_recursive_types(V)]
pub struct MutexGuard<'a, K, V> { g: core::marker::PhantomData<&'a mut (K, V)> }
impl<'a, K, V> MutexGuard<'a, K, V> { pub uninterp spec fn st(&self) -> AddrMapInner<K, V>; }
impl<'a, K, V> core::ops::Deref for MutexGuard<'a, K, V> {
    type Target = AddrMapInner<K, V>;
    #[verifier::external_body]
    fn deref(&self) -> (r: &AddrMapInner<K, V>) ensures *r == self.st() { unimplemented!() }
}
impl<'a, K, V> core::ops::DerefMut for MutexGuard<'a, K, V> {
    #[verifier::external_body]
    fn deref_mut(&mut self) -> (r: &mut AddrMapInner<K, V>) ensures *r == old(self).st(), final(self).st() == *final(r) { unimplemented!() }
}
impl<K, V> Mutex<AddrMapInner<K, V>> {
    #[verifier::external_body]
    pub fn lock<'a>(&'a self) -> (r: Result<MutexGuard<'a, K, V>, PoisonError>)
        ensures r matches Ok(g) && g.st().inv()
    { unimplemented!() }
}
//@item iroh/src/socket/mapped_addrs.rs struct AddrMap pubfields
//@| #[verifier::reject_recursive_types(K)]
//@| #[verifier::reject_recursive_types(V)]

// what a critical section of `get` must leave behind, relative to the state it found (g0): the invariant, the key
// mapped to the returned address, every mapping it found still there and unchanged, and nothing else added
pub open spec fn get_release_ok<K, V>(g0: AddrMapInner<K, V>, g1: AddrMapInner<K, V>, key: K, r: V) -> bool {
    &&& g1.inv()
    &&& g1.addrs@.contains_key(key) && g1.addrs@[key] == r
    &&& forall|k: K| g0.addrs@.contains_key(k) ==> g1.addrs@.contains_key(k) && g1.addrs@[k] == #[trigger] g0.addrs@[k]
    &&& forall|k: K| #[trigger] g1.addrs@.contains_key(k) ==> k == key || g0.addrs@.contains_key(k)
}

impl<K, V> AddrMap<K, V>
where
    K: Eq + Hash + Clone + fmt::Debug,
    V: MappedAddr + Eq + Hash + Copy + fmt::Debug,
{
//@fn iroh/src/socket/mapped_addrs.rs AddrMap::get props=C18 ret=r bindtail=result_
//@attr
//@| #[verifier::exec_allows_no_decreases_clause]
//@rw R2 *
//@- let addr = loop {
//@+ let addr; loop {
//@rw R2 *
//@- break candidate;
//@+ addr = candidate; break;
//@rwx R11 *
//@- key\.clone\(\)
//@+ clone_key(key)
//@ins after 1
//@- let mut inner = self.inner.lock()
//@| let ghost g0 = inner.st();
//@atend
//@| proof { assert(get_release_ok(g0, inner.st(), *key, result_)); }   // [C18] obligation at the end of the critical section
//@loop 1
//@| invariant inner.st().inv(), inner.st() == g0, !inner.st().addrs@.contains_key(*key)
//@| ensures !inner.st().lookup@.contains_key(addr), inner.st().inv(), inner.st() == g0, !inner.st().addrs@.contains_key(*key)
//@end

//@fn iroh/src/socket/mapped_addrs.rs AddrMap::lookup props=C18 ret=r bindtail=result_
//@rw R11 *
//@- inner.lookup.get(addr).cloned()
//@+ cloned_key(inner.lookup.get(addr))
//@ins after 1
//@- let inner = self.inner.lock()
//@| let ghost g0 = inner.st();
//@atend
//@| proof {
//@|     // translating a synthetic address back yields exactly the key that maps to it
//@|     assert(result_ == (if g0.lookup@.contains_key(*addr) { Some(g0.lookup@[*addr]) } else { None::<K> }));
//@|     assert(result_ matches Some(k) ==> g0.addrs@.contains_key(k) && g0.addrs@[k] == *addr);
//@|     assert(inner.st() == g0);
//@| }
//@end
}

// ---- lemmas over the invariant: no two keys share an address (injectivity), a bijection between the two maps
pub proof fn lemma_never_shared<K, V>(m: AddrMapInner<K, V>, k1: K, k2: K)  // [C18]
    requires m.inv(), m.addrs@.contains_key(k1), m.addrs@.contains_key(k2), m.addrs@[k1] == m.addrs@[k2]
    ensures k1 == k2
{
    assert(m.lookup@[m.addrs@[k1]] == k1);
    assert(m.lookup@[m.addrs@[k2]] == k2);
}
pub proof fn lemma_lookup_inverts_get<K, V>(m: AddrMapInner<K, V>, k: K)  // [C18]
    requires m.inv(), m.addrs@.contains_key(k)
    ensures m.lookup@.contains_key(m.addrs@[k]) && m.lookup@[m.addrs@[k]] == k
{
}
} // verus!
fn main() {}
