//@unit addr_map props=C18
// C18 (map half) — mapped addresses form a stable bijection: the critical sections of AddrMap.
use vstd::prelude::*;
use vstd::std_specs::cmp::OrdSpec;
macro_rules! trace { ($($t:tt)*) => {}; }
verus! {
//@include shims/std_wide.rs
use std::hash::Hash;
use std::fmt;

// ---- trusted shim: rustc_hash::FxHashMap viewed as Map<K, V>
#[verifier::external_body]
#[verifier::reject_recursive_types(K)]
#[verifier::reject_recursive_types(V)]
pub struct FxHashMap<K, V> { k: core::marker::PhantomData<(K, V)> }
impl<K, V> View for FxHashMap<K, V> { type V = Map<K, V>; uninterp spec fn view(&self) -> Map<K, V>; }
impl<K: Eq + Hash, V> FxHashMap<K, V> {
    #[verifier::external_body]
    pub fn get<'a>(&'a self, k: &K) -> (r: Option<&'a V>)
        ensures match r { Some(v) => self@.contains_key(*k) && *v == self@[*k], None => !self@.contains_key(*k) }
    { unimplemented!() }
    #[verifier::external_body]
    pub fn contains_key(&self, k: &K) -> (r: bool) ensures r == self@.contains_key(*k) { unimplemented!() }
    #[verifier::external_body]
    pub fn insert(&mut self, k: K, v: V) -> (r: Option<V>)
        ensures final(self)@ == old(self)@.insert(k, v)
    { unimplemented!() }
    #[verifier::external_body]
    pub fn remove(&mut self, k: &K) -> (r: Option<V>)
        ensures final(self)@ == old(self)@.remove(*k)
    { unimplemented!() }
}
// Option<&K>::cloned with a faithful Clone (ASSUMPTION: K::clone returns an equal key)
pub trait FaithfulClone: Clone + Sized { }
#[verifier::external_body]
pub fn cloned_key<K: Clone>(o: Option<&K>) -> (r: Option<K>)
    ensures r == (match o { Some(k) => Some(*k), None => None::<K> })
{ unimplemented!() }
#[verifier::external_body]
pub fn clone_key<K: Clone>(k: &K) -> (r: K) ensures r == *k { unimplemented!() }

pub trait MappedAddr: Sized {
    // a random address of this kind: ANY value may come out
    fn generate() -> Self;
}
pub struct AddrMap<K, V> { pub p: core::marker::PhantomData<(K, V)> }

//@item iroh/src/socket/mapped_addrs.rs struct AddrMapInner pubfields pub
//@| #[verifier::reject_recursive_types(K)]
//@| #[verifier::reject_recursive_types(V)]

impl<K, V> AddrMapInner<K, V> {
    // representation invariant under the mutex: the two maps are mutually inverse
    pub open spec fn inv(&self) -> bool {
        &&& forall|k: K| self.addrs@.contains_key(k) ==> self.lookup@.contains_key(#[trigger] self.addrs@[k]) && self.lookup@[self.addrs@[k]] == k
        &&& forall|v: V| self.lookup@.contains_key(v) ==> self.addrs@.contains_key(#[trigger] self.lookup@[v]) && self.addrs@[self.lookup@[v]] == v
    }
}

impl<K, V> AddrMap<K, V>
where
    K: Eq + Hash + Clone + fmt::Debug,
    V: MappedAddr + Eq + Hash + Copy + fmt::Debug,
{
//@fn iroh/src/socket/mapped_addrs.rs AddrMap::get props=C18 ret=r
//@| requires old(inner).inv()
//@| ensures
//@|     final(inner).inv(),
//@|     // the key now has exactly this address ...
//@|     final(inner).addrs@.contains_key(*key) && final(inner).addrs@[*key] == r,
//@|     // ... every previously mapped key keeps its address (stability) ...
//@|     forall|k: K| old(inner).addrs@.contains_key(k) ==> final(inner).addrs@.contains_key(k) && final(inner).addrs@[k] == #[trigger] old(inner).addrs@[k],
//@|     // ... and nothing else was added
//@|     forall|k: K| final(inner).addrs@.contains_key(k) ==> k == *key || old(inner).addrs@.contains_key(k),
//@attr
//@| #[verifier::exec_allows_no_decreases_clause]
//@rw R3 1
//@- (&self, key: &K)
//@+ (&self, inner: &mut AddrMapInner<K, V>, key: &K)
//@rw R3 1
//@-         let mut inner = self.inner.lock().expect("poisoned");
//@+
//@rw R2 1
//@- let addr = loop {
//@+ let addr; loop {
//@rw R2 1
//@- break candidate;
//@+ addr = candidate; break;
//@rwx R11 2
//@- key\.clone\(\)
//@+ clone_key(key)
//@loop 1
//@| invariant inner.inv(), *inner == *old(inner), !inner.addrs@.contains_key(*key)
//@| ensures !inner.lookup@.contains_key(addr), inner.inv(), *inner == *old(inner), !inner.addrs@.contains_key(*key)
//@end

//@fn iroh/src/socket/mapped_addrs.rs AddrMap::lookup props=C18 ret=r
//@| requires inner.inv()
//@| ensures
//@|     r == (if inner.lookup@.contains_key(*addr) { Some(inner.lookup@[*addr]) } else { None::<K> }),
//@|     // translating a synthetic address back yields exactly its key
//@|     r matches Some(k) ==> inner.addrs@.contains_key(k) && inner.addrs@[k] == *addr,
//@rw R3 1
//@- (&self, addr: &V)
//@+ (&self, inner: &AddrMapInner<K, V>, addr: &V)
//@rw R3 1
//@-         let inner = self.inner.lock().expect("poisoned");
//@+
//@rw R11 1
//@- inner.lookup.get(addr).cloned()
//@+ cloned_key(inner.lookup.get(addr))
//@end
}

// ---- lemmas over the invariant: no two keys share an address (injectivity), a bijection between the two maps
pub proof fn lemma_never_shared<K, V>(m: AddrMapInner<K, V>, k1: K, k2: K)  // [C18]
    requires m.inv(), m.addrs@.contains_key(k1), m.addrs@.contains_key(k2), m.addrs@[k1] == m.addrs@[k2]
    ensures k1 == k2
{
    assert(m.lookup@[m.addrs@[k1]] == k1);
    assert(m.lookup@[m.addrs@[k2]] == k2);
}
pub proof fn lemma_lookup_inverts_get<K, V>(m: AddrMapInner<K, V>, k: K)  // [C18]
    requires m.inv(), m.addrs@.contains_key(k)
    ensures m.lookup@.contains_key(m.addrs@[k]) && m.lookup@[m.addrs@[k]] == k
{
}
} // verus!
fn main() {}
