//@unit custom_addr props=C02
// C02 (custom transport addresses) — the inline/heap representation is canonical (so derived Eq/Ord/Hash agree with
// byte equality), accessors never panic, and the binary encoding round-trips; parsing arbitrary bytes is total.
#![feature(allocator_api)]
use vstd::prelude::*;
use vstd::std_specs::cmp::OrdSpec;
macro_rules! vec { ($e:expr; $n:expr) => { vec_from_elem($e, $n) }; }
verus! {
//@include shims/std_wide.rs
pub assume_specification<T, A: core::alloc::Allocator> [Vec::<T, A>::into_boxed_slice] (v: Vec<T, A>) -> (r: Box<[T], A>) ensures r@ == v@;
// vec![e; n] (std: n copies of e)
#[verifier::external_body]
pub fn vec_from_elem(e: u8, n: usize) -> (r: Vec<u8>) ensures r@.len() == n, forall|i: int| 0 <= i < n ==> r@[i] == e { unimplemented!() }

// little-endian u64 coding (rule R9: {to,from}_le_bytes cannot be given an assume_specification)
pub uninterp spec fn le64(b: Seq<u8>) -> u64;
pub uninterp spec fn le64_bytes(x: u64) -> Seq<u8>;
pub broadcast axiom fn le64_axioms(x: u64)
    ensures #[trigger] le64_bytes(x).len() == 8, le64(le64_bytes(x)) == x;
pub broadcast axiom fn le64_inj(b: Seq<u8>)
    requires b.len() == 8
    ensures #[trigger] le64_bytes(le64(b)) == b;
#[verifier::external_body]
pub fn u64_from_le_bytes(b: [u8; 8]) -> (r: u64) ensures r == le64(b@) { u64::from_le_bytes(b) }
#[verifier::external_body]
pub fn u64_to_le_bytes(x: u64) -> (r: [u8; 8]) ensures r@ == le64_bytes(x) { x.to_le_bytes() }
// rule R17: `v[..n].copy_from_slice(src)` / `v[n..].copy_from_slice(src)` on a Vec (vstd specifies range IndexMut for
// arrays and slices but not through Vec): std semantics, both panic conditions are preconditions
#[verifier::external_body]
pub fn vec_copy_to_prefix(v: &mut Vec<u8>, n: usize, src: &[u8])
    requires n <= old(v)@.len(), src@.len() == n
    ensures final(v)@ == src@ + old(v)@.subrange(n as int, old(v)@.len() as int)
{ v[..n].copy_from_slice(src) }
#[verifier::external_body]
pub fn vec_copy_to_suffix(v: &mut Vec<u8>, n: usize, src: &[u8])
    requires n <= old(v)@.len(), src@.len() == old(v)@.len() - n
    ensures final(v)@ == old(v)@.subrange(0, n as int) + src@
{ v[n..].copy_from_slice(src) }
// rule R12: <[u8]>::try_into::<[u8; N]>() is Ok iff the lengths agree
pub struct TryFromSliceError;
#[verifier::external] impl core::fmt::Debug for TryFromSliceError { fn fmt(&self, f: &mut core::fmt::Formatter<'_>) -> core::fmt::Result { Ok(()) } }
#[verifier::external_body]
pub fn slice_try_into_arr<const N: usize>(s: &[u8]) -> (r: Result<[u8; N], TryFromSliceError>)
    ensures r is Ok <==> s@.len() == N, r matches Ok(a) ==> a@ == s@
{ unimplemented!() }

//@item iroh-base/src/endpoint_addr.rs enum CustomAddrBytes pubfields pub
//@item iroh-base/src/endpoint_addr.rs struct CustomAddr pubfields

impl CustomAddrBytes {
    // representation invariant needed by every accessor
    pub open spec fn wf(&self) -> bool {
        // (Heap: Rust's own invariant that no allocation exceeds isize::MAX bytes)
        match self { CustomAddrBytes::Inline { size, data } => *size <= 30, CustomAddrBytes::Heap(d) => d@.len() <= isize::MAX }
    }
    // the abstract value: the address bytes
    pub open spec fn bytes(&self) -> Seq<u8> {
        match self { CustomAddrBytes::Inline { size, data } => data@.subrange(0, *size as int), CustomAddrBytes::Heap(d) => d@ }
    }
    // canonical form: inline iff at most 30 bytes, unused inline bytes are zero
    pub open spec fn canonical(&self) -> bool {
        match self {
            CustomAddrBytes::Inline { size, data } => *size <= 30 && forall|i: int| *size <= i < 30 ==> data@[i] == 0,
            CustomAddrBytes::Heap(d) => d@.len() > 30,
        }
    }

//@fn iroh-base/src/endpoint_addr.rs CustomAddrBytes::len props=C02 ret=r
//@| requires self.wf()
//@| ensures r == self.bytes().len()
//@end
//@fn iroh-base/src/endpoint_addr.rs CustomAddrBytes::as_bytes props=C02 ret=r
//@| requires self.wf()           // discharges the slice-index panic condition
//@| ensures r@ == self.bytes()
//@end
//@fn iroh-base/src/endpoint_addr.rs CustomAddrBytes::copy_from_slice props=C02 ret=r
//@| requires data@.len() <= isize::MAX      // Rust's slice invariant
//@| ensures r.canonical(), r.wf(), r.bytes() == data@    // for EVERY byte string: total, canonical, faithful
//@end
}

impl CustomAddr {
    pub open spec fn wf(&self) -> bool { self.data.wf() }
    pub open spec fn canonical(&self) -> bool { self.data.canonical() }
    pub open spec fn enc(&self) -> Seq<u8> { le64_bytes(self.id) + self.data.bytes() }

//@fn iroh-base/src/endpoint_addr.rs CustomAddr::from_parts props=C02 ret=r
//@| requires data@.len() <= isize::MAX      // Rust's slice invariant
//@| ensures r.id == id, r.data.bytes() == data@, r.canonical(), r.wf()
//@end
//@fn iroh-base/src/endpoint_addr.rs CustomAddr::id props=C02 ret=r
//@| ensures r == self.id
//@end
//@fn iroh-base/src/endpoint_addr.rs CustomAddr::data props=C02 ret=r
//@| requires self.wf()
//@| ensures r@ == self.data.bytes()
//@end
//@fn iroh-base/src/endpoint_addr.rs CustomAddr::to_vec props=C02 ret=r
//@| requires self.wf()
//@| ensures r@ == self.enc()
//@rwx R17 1
//@- out\[\.\.8\]\.copy_from_slice\(&self\.id\(\)\.to_le_bytes\(\)\)
//@+ vec_copy_to_prefix(&mut out, 8, &u64_to_le_bytes(self.id()))
//@rwx R17 1
//@- out\[8\.\.\]\.copy_from_slice\((.*)\);
//@+ vec_copy_to_suffix(&mut out, 8, \1);
//@ins before 1
//@- let mut out = vec!
//@| broadcast use le64_axioms;
//@end
//@fn iroh-base/src/endpoint_addr.rs CustomAddr::from_bytes props=C02 ret=r
//@| requires data@.len() <= isize::MAX      // Rust's slice invariant
//@| ensures
//@|     // total on arbitrary bytes; rejected exactly when there is no room for the 8-byte id
//@|     r is Err <==> data@.len() < 8,
//@|     r matches Ok(a) ==> a.wf() && a.canonical() && a.id == le64(data@.subrange(0, 8)) && a.data.bytes() == data@.subrange(8, data@.len() as int),
//@rw R9 1
//@- u64::from_le_bytes(data[..8].try_into().expect("data length checked above"))
//@+ u64_from_le_bytes(slice_try_into_arr::<8>(&data[..8]).expect("data length checked above"))
//@end
}

// ---- property-level lemmas over the contracts
// canonical values with the same bytes are structurally identical: derived PartialEq/Eq/Hash/Ord (which compare the
// representation) therefore agree with equality of the address bytes
pub proof fn lemma_canonical_is_unique(a: CustomAddrBytes, b: CustomAddrBytes)   // [C02]
    requires a.canonical(), b.canonical(), a.bytes() == b.bytes()
    ensures a == b
{
    match (a, b) {
        (CustomAddrBytes::Inline { size: s1, data: d1 }, CustomAddrBytes::Inline { size: s2, data: d2 }) => {
            assert(s1 == s2) by { assert(d1@.subrange(0, s1 as int).len() == s1); assert(d2@.subrange(0, s2 as int).len() == s2); }
            assert forall|i: int| 0 <= i < 30 implies d1@[i] == d2@[i] by {
                if i < s1 { assert(d1@.subrange(0, s1 as int)[i] == d2@.subrange(0, s2 as int)[i]); }
            }
            assert(d1@ =~= d2@);
            assert(d1 == d2);
        }
        (CustomAddrBytes::Heap(x), CustomAddrBytes::Heap(y)) => { assert(x@ == y@); assert(x == y); }
        (CustomAddrBytes::Inline { size, data }, CustomAddrBytes::Heap(y)) => { assert(data@.subrange(0, size as int).len() == size); }
        (CustomAddrBytes::Heap(x), CustomAddrBytes::Inline { size, data }) => { assert(data@.subrange(0, size as int).len() == size); }
    }
}

// binary round trip, composed from the two contracts only: from_bytes(to_vec(a)) == Ok(a) for every canonical a
pub fn check_binary_roundtrip(a: &CustomAddr) -> (r: Result<CustomAddr, &'static str>)   // [C02]
    requires a.wf(), a.canonical(), 8 + a.data.bytes().len() <= isize::MAX
    ensures r matches Ok(b) && b == *a
{
    broadcast use le64_axioms;
    let v = a.to_vec();
    let r = CustomAddr::from_bytes(v.as_slice());
    proof {
        assert(v@.len() >= 8);
        if let Ok(b) = &r {
            assert(v@.subrange(0, 8) =~= le64_bytes(a.id));
            assert(v@.subrange(8, v@.len() as int) =~= a.data.bytes());
            lemma_canonical_is_unique(a.data, b.data);
        }
    }
    r
}
// and the other direction: every byte string of length >= 8 is the encoding of what it parses to
pub fn check_binary_parse_then_encode(d: &[u8]) -> (r: Option<Vec<u8>>)   // [C02]
    requires d@.len() <= isize::MAX
    ensures d@.len() >= 8 ==> (r matches Some(v) && v@ == d@)
{
    broadcast use le64_inj;
    match CustomAddr::from_bytes(d) {
        Ok(a) => {
            let v = a.to_vec();
            proof { assert(v@ =~= d@.subrange(0, 8) + d@.subrange(8, d@.len() as int)); assert(v@ =~= d@); }
            Some(v)
        }
        Err(_) => None,
    }
}
} // verus!
fn main() {}
