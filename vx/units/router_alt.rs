//@unit router_alt props=C41 alt_of=router
// Alternative proof unit for C41 (see vx/run.py alternatives_of): used only when `router` does not verify, e.g. because
// Router no longer has the fields its well-formedness predicate names.  Here nothing links any token to the run task:
// the only way to establish run_finished is to await the run task's handle.
// C41 — Router::shutdown returns only after the run task (handler shutdowns, endpoint close) has finished.
// C40 (reduced) — handle_connection hands a connection only to the handler registered for the negotiated ALPN.
use vstd::prelude::*;
use vstd::std_specs::cmp::OrdSpec;
macro_rules! warn { ($($t:tt)*) => {}; }
macro_rules! debug { ($($t:tt)*) => {}; }
verus! {
//@include shims/std_wide.rs
use std::sync::Arc;
// ---- futures of foreign async trait methods: the awaited value is any value of the type
#[verifier::external_body]
#[verifier::reject_recursive_types(T)]
pub struct Fut<T> { t: core::marker::PhantomData<T> }
#[verifier::external]
impl<T> core::future::Future for Fut<T> { type Output = T; fn poll(self: core::pin::Pin<&mut Self>, cx: &mut core::task::Context<'_>) -> core::task::Poll<T> { unimplemented!() } }

// ======== C41
pub mod n0_future { pub mod task { pub struct JoinError; } }
pub struct Endpoint;
impl Endpoint {
    // resolves when closing STARTS (at_close_start token): says nothing about the run task or the handlers
    #[verifier::external_body]
    pub async fn closed(&self) -> (r: ()) { unimplemented!() }
    #[verifier::external_body]
    pub async fn close(&self) -> (r: ()) { unimplemented!() }
    #[verifier::external_body]
    pub fn is_closed(&self) -> bool { unimplemented!() }
}
// the spawned run task.  Its tail (quoted from RouterBuilder::spawn, not verified: it sits behind a select! loop) is:
//   protocols.shutdown().await; handler_cancel_token.cancel(); endpoint.close().await; ...join remaining tasks
// and its first statement arms `done_token.drop_guard()`, so the done token is cancelled only when the task has finished or was aborted.
pub uninterp spec fn run_finished(r: Router) -> bool;
pub struct AbortOnDropHandle<T> { pub id: int, pub t: core::marker::PhantomData<T> }
pub uninterp spec fn is_run_task_of(h: AbortOnDropHandle<()>, r: Router) -> bool;
pub uninterp spec fn done_token_of(t: CancellationToken, r: Router) -> bool;
pub uninterp spec fn task_slot_of(m: Mutex<Option<AbortOnDropHandle<()>>>, r: Router) -> bool;
// awaiting the handle: Ok means the task ran to completion
#[verifier::external_body]
pub async fn await_handle(h: AbortOnDropHandle<()>) -> (r: Result<(), n0_future::task::JoinError>)
    ensures r is Ok ==> forall|ro: Router| is_run_task_of(h, ro) ==> run_finished(ro)
{ unimplemented!() }
#[derive(Clone, Copy)]
pub struct CancellationToken { pub id: int }
impl CancellationToken {
    #[verifier::external_body]
    pub fn cancel(&self) { unimplemented!() }
    #[verifier::external_body]
    pub fn is_cancelled(&self) -> bool { unimplemented!() }
    // completes only once the token is cancelled; for the done token that is the end of the run task (see above)
    #[verifier::external_body]
    pub async fn cancelled(&self) -> (r: ())
        ensures forall|ro: Router| done_token_of(*self, ro) ==> run_finished(ro)
    { unimplemented!() }
}
pub struct PoisonError;
#[verifier::external] impl core::fmt::Debug for PoisonError { fn fmt(&self, f: &mut core::fmt::Formatter<'_>) -> core::fmt::Result { Ok(()) } }
pub struct Mutex<T> { pub t: T }
pub struct MutexGuard<'a> { pub m: &'a Mutex<Option<AbortOnDropHandle<()>>> }
impl Mutex<Option<AbortOnDropHandle<()>>> {
    // ASSUMPTION: the lock is not poisoned (a poisoned lock means another thread already panicked)
    #[verifier::external_body]
    pub fn lock<'a>(&'a self) -> (r: Result<MutexGuard<'a>, PoisonError>) ensures r matches Ok(g) && *g.m == *self { unimplemented!() }
}
impl<'a> MutexGuard<'a> {
    // Option::take through the guard: whatever handle is in the slot, if any, is the router's run task
    #[verifier::external_body]
    pub fn take(&mut self) -> (r: Option<AbortOnDropHandle<()>>)
        ensures r matches Some(h) ==> forall|ro: Router| task_slot_of(*old(self).m, ro) ==> is_run_task_of(h, ro)
    { unimplemented!() }
}
//@item iroh/src/protocol.rs struct Router pubfields
pub open spec fn router_wf(r: Router) -> bool {
    task_slot_of(*r.task, r)
}

impl Router {
//@fn iroh/src/protocol.rs Router::is_shutdown props=C41 ret=r
//@end

//@fn iroh/src/protocol.rs Router::shutdown props=C41 ret=r
//@| requires router_wf(*self)
//@| ensures r is Ok ==> run_finished(*self)
//@rw R19 1
//@- task.await?;
//@+ await_handle(task).await?;
//@end
}

} // verus!
fn main() {}
