//@unit timestamp props=C33
// C33 — pkarr timestamps are strictly increasing across threads.
use vstd::prelude::*;
use vstd::std_specs::cmp::OrdSpec;
verus! {
//@include shims/std_wide.rs
// ---- trusted shim: one linearizable atomic location (portable_atomic::AtomicU64).
// Rely/guarantee: EVERY write to the location must be strictly greater than the value it replaces
// (precondition of compare_exchange_weak); this is what makes the lemma below apply to all threads.
pub enum Ordering { Relaxed, Acquire, Release, AcqRel, SeqCst }
pub uninterp spec fn written_by_cas(new: u64) -> bool;   // `new` was stored into the location by a successful exchange of this call
#[verifier::external_body]
pub struct AtomicU64 { v: core::sync::atomic::AtomicU64 }
impl AtomicU64 {
    #[verifier::external_body]
    pub const fn new(v: u64) -> AtomicU64 { AtomicU64 { v: core::sync::atomic::AtomicU64::new(v) } }
    // ASSUMPTION (stated bound): the counter never reaches 2^64-1 microseconds (year 586912)
    #[verifier::external_body]
    pub fn load(&self, o: Ordering) -> (r: u64) ensures r < u64::MAX { unimplemented!() }
    #[verifier::external_body]
    pub fn compare_exchange_weak(&self, current: u64, new: u64, s: Ordering, f: Ordering) -> (r: Result<u64, u64>)
        requires new > current   // [C33]
        ensures r matches Ok(v) ==> v == current && written_by_cas(new),
                r matches Err(v) ==> v < u64::MAX
    { unimplemented!() }
    // The other read-modify-write operations, with the same guarantee obligation.  A value counts as
    // `written_by_cas` only if THIS call stored it and it is greater than what it replaced.
    #[verifier::external_body]
    pub fn fetch_max(&self, val: u64, o: Ordering) -> (r: u64)
        ensures r < u64::MAX, val > r ==> written_by_cas(val)   // when val <= r nothing is stored
    { unimplemented!() }
    #[verifier::external_body]
    pub fn fetch_add(&self, val: u64, o: Ordering) -> (r: u64)
        requires val >= 1   // [C33]
        ensures r < u64::MAX, r + val <= u64::MAX ==> written_by_cas((r + val) as u64)
    { unimplemented!() }
    #[verifier::external_body]
    pub fn compare_exchange(&self, current: u64, new: u64, s: Ordering, f: Ordering) -> (r: Result<u64, u64>)
        requires new > current   // [C33]
        ensures r matches Ok(v) ==> v == current && written_by_cas(new),
                r matches Err(v) ==> v < u64::MAX
    { unimplemented!() }
    // blind writes cannot keep the location increasing: using them is a failed obligation
    #[verifier::external_body]
    pub fn store(&self, val: u64, o: Ordering)
        requires false   // [C33]
    { unimplemented!() }
    #[verifier::external_body]
    pub fn swap(&self, val: u64, o: Ordering) -> (r: u64)
        requires false   // [C33]
    { unimplemented!() }
}
//@item iroh-dns/src/pkarr.rs static LAST_TIMESTAMP
//@| exec

pub mod n0_future { pub mod time {
    use vstd::prelude::*;
    pub struct SysTimeError;
    #[verifier::external] impl core::fmt::Debug for SysTimeError { fn fmt(&self, f: &mut core::fmt::Formatter<'_>) -> core::fmt::Result { Ok(()) } }
    #[verifier::external_body]
    pub struct Duration { d: core::time::Duration }
    impl Duration {
        #[verifier::external_body]
        pub fn as_micros(&self) -> u128 { unimplemented!() }
    }
    #[verifier::external_body]
    pub struct SystemTime { t: std::time::SystemTime }
    impl SystemTime {
        #[verifier::external_body]
        pub exec const UNIX_EPOCH: SystemTime ensures true { SystemTime { t: std::time::SystemTime::UNIX_EPOCH } }
        // the wall clock: ANY value, in particular it may go backwards between calls
        #[verifier::external_body]
        pub fn now() -> SystemTime { unimplemented!() }
        // ASSUMPTION: the wall clock is not set before 1970 (otherwise the real code panics in expect())
        #[verifier::external_body]
        pub fn duration_since(&self, earlier: SystemTime) -> (r: Result<Duration, SysTimeError>) ensures r is Ok { unimplemented!() }
    }
} }

//@item iroh-dns/src/pkarr.rs struct Timestamp pubfields derive=Clone,Copy

impl Timestamp {
//@fn iroh-dns/src/pkarr.rs Timestamp::now props=C33 ret=r
//@| // the value returned is the value this call stored with a successful exchange (whose precondition is new > expected)
//@| ensures written_by_cas(r.0),
//@attr
//@| #[verifier::exec_allows_no_decreases_clause]
//@loop 1 optional
//@| invariant last < u64::MAX,
//@end
}

// ---- lemma: along the linearization order of one atomic location, every successful exchange
// reads the value the previous one wrote (expected[i+1] == written[i]) and writes a larger one
// (the precondition above): the written values — i.e. the timestamps handed out — are strictly increasing.
pub proof fn lemma_history_monotonic(expected: Seq<u64>, written: Seq<u64>, i: int, j: int)  // [C33]
    requires
        expected.len() == written.len(),
        forall|k: int| 0 <= k < written.len() ==> #[trigger] written[k] > expected[k],
        forall|k: int| 0 <= k < written.len() - 1 ==> #[trigger] expected[k + 1] == written[k],
        0 <= i < j < written.len(),
    ensures written[i] < written[j]
    decreases j - i
{
    if j == i + 1 {
        assert(expected[i + 1] == written[i]);
        assert(written[j] > expected[j]);
    } else {
        lemma_history_monotonic(expected, written, i, j - 1);
        assert(expected[(j - 1) + 1] == written[j - 1]);
        assert(written[j] > expected[j]);
    }
}
} // verus!
fn main() {}
