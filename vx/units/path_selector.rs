//@unit path_selector props=C24
// C24 — path selection prefers primary paths and resists flapping.
use vstd::prelude::*;
use vstd::std_specs::cmp::OrdSpec;
macro_rules! trace { ($($t:tt)*) => {}; }
pub mod tracing { macro_rules! warn_ { ($($t:tt)*) => {}; } pub(crate) use warn_ as warn; }
verus! {
//@include shims/std_wide.rs
//@include shims/time.rs
use time::Duration;
use std::sync::Arc;

// ---- trusted shims: addresses (opaque payloads), the bias table (rustc_hash::FxHashMap), noq path statistics
pub struct SocketAddrV4 { pub id: int }
pub struct SocketAddrV6 { pub id: int }
pub enum SocketAddr { V4(SocketAddrV4), V6(SocketAddrV6) }
pub struct RelayUrl { pub id: int }
pub struct EndpointId { pub id: int }
pub struct CustomAddr { pub id: u64, pub data: int }
impl CustomAddr { #[verifier::external_body] pub fn id(&self) -> (r: u64) ensures r == self.id { unimplemented!() } }
pub struct IpAddr { pub id: int }
//@item iroh/src/socket/transports.rs enum AddrKind derive=Clone,Copy
//@item iroh/src/socket/transports.rs enum FourTuple
pub mod transports { pub use super::FourTuple; }
#[verifier::external_body]
#[verifier::reject_recursive_types(K)]
#[verifier::reject_recursive_types(V)]
pub struct FxHashMap<K, V> { k: core::marker::PhantomData<(K, V)> }
impl<K, V> View for FxHashMap<K, V> { type V = Map<K, V>; uninterp spec fn view(&self) -> Map<K, V>; }
impl<K, V> FxHashMap<K, V> {
    #[verifier::external_body]
    pub fn default() -> (r: Self) ensures r@ == Map::<K, V>::empty() { unimplemented!() }
    #[verifier::external_body]
    pub fn insert(&mut self, k: K, v: V) -> (r: Option<V>) ensures final(self)@ == old(self)@.insert(k, v) { unimplemented!() }
    #[verifier::external_body]
    pub fn get(&self, k: &K) -> (r: Option<&V>)
        ensures match r { Some(v) => self@.contains_key(*k) && *v == self@[*k], None => !self@.contains_key(*k) }
    { unimplemented!() }
}
#[derive(Clone, Copy)]
pub struct PathStats { pub rtt: Duration }
// where a candidate's statistics come from (a live noq connection): what `stats()` returns is a function of it
#[derive(Clone)]
pub struct StatsSource { pub id: int }
pub uninterp spec fn stats_of(s: StatsSource) -> Option<PathStats>;

//@item iroh/src/socket/biased_rtt_path_selector.rs const IPV6_RTT_ADVANTAGE execconst pub
//@| ensures IPV6_RTT_ADVANTAGE@ == 3_000_000
//@item iroh/src/socket/biased_rtt_path_selector.rs const RTT_SWITCHING_MIN execconst pub
//@| ensures RTT_SWITCHING_MIN@ == 5_000_000
//@item iroh/src/socket/biased_rtt_path_selector.rs enum TransportType derive=Clone,Copy,PartialEq,Eq,Structural pub
//@item iroh/src/socket/biased_rtt_path_selector.rs struct TransportBias derive=Clone,Copy pubfields pub
//@item iroh/src/socket/biased_rtt_path_selector.rs struct BiasedRttPathSelector pubfields pub
//@item iroh/src/socket/remote_map/remote_state.rs struct PathSelectionData derive=Clone pubfields pub
//@item iroh/src/socket/remote_map/remote_state.rs struct PathSelection pubfields pub
pub struct PathSelectionContext<'a> { pub current: Option<&'a FourTuple>, pub paths: Vec<PathSelectionData<'a>> }

// derived PartialOrd/Ord on TransportType: declaration order (Primary < Backup)
pub open spec fn tier_rank(t: TransportType) -> int { match t { TransportType::Primary => 0, TransportType::Backup => 1 } }
pub type Key = (TransportType, i128);
// tuple comparison (std: lexicographic), rule R11
pub open spec fn key_lt_spec(a: Key, b: Key) -> bool { tier_rank(a.0) < tier_rank(b.0) || (a.0 == b.0 && a.1 < b.1) }
#[verifier::external_body]
pub fn key_lt(a: &Key, b: &Key) -> (r: bool) ensures r == key_lt_spec(*a, *b) { unimplemented!() }
pub open spec fn key_le_spec(a: Key, b: Key) -> bool { !key_lt_spec(b, a) }
pub open spec fn key_gt_spec(a: Key, b: Key) -> bool { key_lt_spec(b, a) }
pub open spec fn key_ge_spec(a: Key, b: Key) -> bool { !key_lt_spec(a, b) }
#[verifier::external_body]
pub fn key_le(a: &Key, b: &Key) -> (r: bool) ensures r == key_le_spec(*a, *b) { unimplemented!() }
#[verifier::external_body]
pub fn key_gt(a: &Key, b: &Key) -> (r: bool) ensures r == key_gt_spec(*a, *b) { unimplemented!() }
#[verifier::external_body]
pub fn key_ge(a: &Key, b: &Key) -> (r: bool) ensures r == key_ge_spec(*a, *b) { unimplemented!() }
// Option<&FourTuple> == Option<&FourTuple> (derived PartialEq of FourTuple: structural), rule R11
#[verifier::external_body]
pub fn opt_path_eq(a: Option<&FourTuple>, b: Option<&FourTuple>) -> (r: bool)
    ensures r == (match (a, b) { (Some(x), Some(y)) => *x == *y, (None, None) => true, _ => false })
{ unimplemented!() }

pub open spec fn kind_of(a: FourTuple) -> AddrKind {
    match a {
        FourTuple::Ip { remote, .. } => match remote { SocketAddr::V4(_) => AddrKind::IpV4, SocketAddr::V6(_) => AddrKind::IpV6 },
        FourTuple::Relay { .. } => AddrKind::Relay,
        FourTuple::Custom { remote, .. } => AddrKind::Custom(remote.id),
    }
}
impl FourTuple {
//@fn iroh/src/socket/transports.rs FourTuple::addr_kind props=C24 ret=r
//@| ensures r == kind_of(*self)
//@end
}

impl<'a> PathSelectionData<'a> {
//@fn iroh/src/socket/remote_map/remote_state.rs PathSelectionData::network_path props=C24 ret=r
//@| ensures *r == *self.network_path
//@end
    // noq's path statistics for this candidate, None when they cannot be read (path closed concurrently)
    #[verifier::external_body]
    pub fn stats(&self) -> (r: Option<PathStats>) ensures r == stats_of(self.source) { unimplemented!() }
}
impl<'a> PathSelectionContext<'a> {
//@fn iroh/src/socket/remote_map/remote_state.rs PathSelectionContext::current props=C24 ret=r
//@| ensures r == self.current
//@end
    // rule R27: the boxed iterator over candidate paths is modelled by the list of the items it yields
    #[verifier::external_body]
    pub fn paths_list(&self) -> (r: &Vec<PathSelectionData<'a>>) ensures *r == self.paths { unimplemented!() }
}
impl PathSelection {
//@fn iroh/src/socket/remote_map/remote_state.rs PathSelection::none props=C24 ret=r
//@| ensures r.selection is None
//@end
//@fn iroh/src/socket/remote_map/remote_state.rs PathSelection::set props=C24
//@| ensures final(self).selection == (if old(self).selection is Some { old(self).selection } else { Some(*path.network_path) })
//@rw R9 1
//@- Some(path.network_path.clone())
//@+ Some(four_tuple_clone(path.network_path))
//@end
//@fn iroh/src/socket/remote_map/remote_state.rs PathSelection::selected props=C24 ret=r
//@| ensures match r { Some(a) => self.selection == Some(*a), None => self.selection is None }
//@end
}
// FourTuple::clone (derived): a faithful copy
#[verifier::external_body]
pub fn four_tuple_clone(a: &FourTuple) -> (r: FourTuple) ensures r == *a { unimplemented!() }
// PathSelectionData::clone (derived)
#[verifier::external_body]
pub fn psd_clone<'a>(p: &PathSelectionData<'a>) -> (r: PathSelectionData<'a>) ensures r == *p { unimplemented!() }

// ---- the bias table
pub open spec fn bias_spec(m: Map<AddrKind, TransportBias>, k: AddrKind) -> TransportBias {
    if m.contains_key(k) { m[k] } else { TransportBias { transport_type: TransportType::Primary, rtt_bias: 0 } }
}
pub open spec fn sat_i128(x: int) -> int { if x > i128::MAX { i128::MAX as int } else if x < i128::MIN { i128::MIN as int } else { x } }
pub open spec fn sort_key_spec(m: Map<AddrKind, TransportBias>, a: FourTuple, rtt: int) -> Key {
    let b = bias_spec(m, kind_of(a));
    (b.transport_type, sat_i128(rtt + b.rtt_bias) as i128)
}
// configuration precondition: biases are small enough that the 5 ms hysteresis addition cannot overflow
pub open spec fn bias_ok(b: TransportBias) -> bool { -0x4000_0000_0000_0000_0000_0000_0000_0000 <= b.rtt_bias <= 0x4000_0000_0000_0000_0000_0000_0000_0000 }
pub open spec fn table_wf(m: Map<AddrKind, TransportBias>) -> bool { forall|k: AddrKind| m.contains_key(k) ==> bias_ok(#[trigger] m[k]) }

impl TransportBias {
//@fn iroh/src/socket/biased_rtt_path_selector.rs TransportBias::primary props=C24 ret=r
//@| ensures r == (TransportBias { transport_type: TransportType::Primary, rtt_bias: 0 })
//@end
//@fn iroh/src/socket/biased_rtt_path_selector.rs TransportBias::backup props=C24 ret=r
//@| ensures r == (TransportBias { transport_type: TransportType::Backup, rtt_bias: 0 })
//@end
//@fn iroh/src/socket/biased_rtt_path_selector.rs TransportBias::with_rtt_advantage props=C24 ret=r mutself
//@| requires self.rtt_bias >= 0 - 0x2000_0000_0000_0000_0000_0000_0000_0000
//@| ensures r.transport_type == self.transport_type, r.rtt_bias == self.rtt_bias - advantage@
//@ins before 1
//@- this_.rtt_bias
//@| broadcast use time::time_axioms;
//@end
}

pub open spec fn default_table() -> Map<AddrKind, TransportBias> {
    Map::<AddrKind, TransportBias>::empty()
        .insert(AddrKind::IpV4, TransportBias { transport_type: TransportType::Primary, rtt_bias: 0 })
        .insert(AddrKind::IpV6, TransportBias { transport_type: TransportType::Primary, rtt_bias: (-3_000_000i128) })
        .insert(AddrKind::Relay, TransportBias { transport_type: TransportType::Backup, rtt_bias: 0 })
}

impl BiasedRttPathSelector {
    pub open spec fn table(&self) -> Map<AddrKind, TransportBias> { (*self.biases)@ }
//@fn iroh/src/socket/biased_rtt_path_selector.rs Default@BiasedRttPathSelector::default props=C24 ret=r
//@| ensures
//@|     // IPv4 and IPv6 are primary, IPv6 is credited 3 ms, the relay is a backup path; anything else: primary, no bias
//@|     r.table() == default_table(), table_wf(r.table()),
//@end
//@fn iroh/src/socket/biased_rtt_path_selector.rs BiasedRttPathSelector::bias_for props=C24 ret=r
//@| ensures r == bias_spec(self.table(), kind_of(*addr))
//@end
//@fn iroh/src/socket/biased_rtt_path_selector.rs BiasedRttPathSelector::sort_key props=C24 ret=r
//@| ensures r == sort_key_spec(self.table(), *addr, rtt@)
//@ins before 1
//@- let bias = self.bias_for(addr);
//@| broadcast use time::time_axioms;
//@end
}

// ---- THE RULE of the property, over the list of candidate paths
pub open spec fn has_stats(p: PathSelectionData) -> bool { stats_of(p.source) is Some }
pub open spec fn key_of(m: Map<AddrKind, TransportBias>, p: PathSelectionData) -> Key {
    sort_key_spec(m, *p.network_path, stats_of(p.source).unwrap().rtt@)
}
// k is the best (lowest) key among the first n candidates with readable statistics, attained by candidate j
pub open spec fn best_upto(m: Map<AddrKind, TransportBias>, ps: Seq<PathSelectionData>, n: int, j: int, k: Key) -> bool {
    0 <= j < n && has_stats(ps[j]) && key_of(m, ps[j]) == k
        && forall|i: int| 0 <= i < n && has_stats(#[trigger] ps[i]) ==> !key_lt_spec(key_of(m, ps[i]), k)
}
pub open spec fn is_cur(p: PathSelectionData, cur: Option<&FourTuple>) -> bool { cur matches Some(c) && *c == *p.network_path }
// c is the best key among the first n candidates that ARE the current path (with readable statistics)
pub open spec fn cur_upto(m: Map<AddrKind, TransportBias>, ps: Seq<PathSelectionData>, cur: Option<&FourTuple>, n: int, j: int, c: Key) -> bool {
    0 <= j < n && has_stats(ps[j]) && is_cur(ps[j], cur) && key_of(m, ps[j]) == c
        && forall|i: int| 0 <= i < n && has_stats(#[trigger] ps[i]) && is_cur(ps[i], cur) ==> !key_lt_spec(key_of(m, ps[i]), c)
}
pub open spec fn no_cur_upto(ps: Seq<PathSelectionData>, cur: Option<&FourTuple>, n: int) -> bool {
    forall|i: int| 0 <= i < n ==> !(has_stats(#[trigger] ps[i]) && is_cur(ps[i], cur))
}
// switch to the best candidate?  no usable current path: yes; other tier: yes; same tier: only if at least 5 ms better
pub open spec fn should_switch(best: Key, cur: Option<Key>) -> bool {
    match cur { None => true, Some(c) => c.0 != best.0 || best.1 + 5_000_000 <= c.1 }
}

impl BiasedRttPathSelector {
//@fn iroh/src/socket/biased_rtt_path_selector.rs PathSelector@BiasedRttPathSelector::select props=C24 ret=r letelsecontinue
//@| requires table_wf(self.table())
//@| ensures
//@|     // no candidate with readable statistics: nothing is selected (the caller keeps what it has)
//@|     (forall|i: int| 0 <= i < ctx.paths@.len() ==> !has_stats(#[trigger] ctx.paths@[i])) ==> r.selection is None,
//@|     // otherwise: with B the best key and C the best key of the current path (if it is listed with statistics), the
//@|     // selection is non-empty exactly when should_switch(B, C), and it is then a listed candidate attaining B
//@|     (exists|i: int| 0 <= i < ctx.paths@.len() && has_stats(#[trigger] ctx.paths@[i])) ==> exists|j: int, b: Key|
//@|         #[trigger] best_upto(self.table(), ctx.paths@, ctx.paths@.len() as int, j, b)
//@|         && (r.selection matches Some(a) ==> a == *ctx.paths@[j].network_path)
//@|         && ((exists|jc: int, c: Key| #[trigger] cur_upto(self.table(), ctx.paths@, ctx.current, ctx.paths@.len() as int, jc, c) && (r.selection is Some <==> should_switch(b, Some(c))))
//@|             || (no_cur_upto(ctx.paths@, ctx.current, ctx.paths@.len() as int) && r.selection is Some)),
//@rwx R27 1
//@- for psd in ctx\.paths\(\) \{
//@+ let ps_ = ctx.paths_list(); for psd_r in it: ps_.iter() { let psd = psd_clone(psd_r);
//@loop 1
//@| invariant
//@|     *ps_ == ctx.paths, current == ctx.current, table_wf(self.table()),
//@|     match best { Some((p, k)) => best_upto(self.table(), ctx.paths@, it.index@ as int, bj, k) && p == ctx.paths@[bj],
//@|                  None => forall|i: int| 0 <= i < it.index@ ==> !has_stats(#[trigger] ctx.paths@[i]) },
//@|     match current_key { Some(c) => cur_upto(self.table(), ctx.paths@, ctx.current, it.index@ as int, cj, c),
//@|                         None => no_cur_upto(ctx.paths@, ctx.current, it.index@ as int) },
//@rw R11 1
//@- Some(network_path) == current
//@+ opt_path_eq(Some(network_path), current)
//@rwx A3 *
//@- current_key\.is_none_or\(\|(\w+)\| key (<=?|>=?) \1\)
//@+ current_key.is_none_or(|\1: Key| -> (o: bool) ensures o == key_@OP(\2)_spec(key, \1) { key_@OP(\2)(&key, &\1) })
//@rwx A3 *
//@- best\.as_ref\(\)\.is_none_or\(\|\(_, (\w+)\)\| key (<=?|>=?) \*\1\)
//@+ best.as_ref().is_none_or(|p_: &(PathSelectionData<'_>, Key)| -> (o: bool) ensures o == key_@OP(\2)_spec(key, p_.1) { let \1 = &p_.1; key_@OP(\2)(&key, \1) })
//@ins before 1
//@- let current = ctx.current();
//@| broadcast use time::time_axioms;
//@ins after 1
//@- let mut current_key
//@| let ghost mut bj: int = 0; let ghost mut cj: int = 0;   // ghost witnesses: which candidate attains `best` / `current_key`
//@ins after 1
//@- current_key = Some(key);
//@| proof { cj = it.index@ as int; }
//@ins after 1
//@- best = Some((psd, key));
//@| proof { bj = it.index@ as int; }
//@end
}

// ---- property-level lemmas over the contracts
// a primary (direct) path is always preferred over a backup (relay) path: whenever a primary candidate with readable
// statistics is listed, the best key — and therefore any selection made — is in the primary tier
pub proof fn lemma_primary_preferred(m: Map<AddrKind, TransportBias>, ps: Seq<PathSelectionData>, j: int, b: Key, i: int)   // [C24]
    requires best_upto(m, ps, ps.len() as int, j, b), 0 <= i < ps.len(), has_stats(ps[i]), key_of(m, ps[i]).0 == TransportType::Primary
    ensures b.0 == TransportType::Primary, key_of(m, ps[j]).0 == TransportType::Primary
{
    assert(!key_lt_spec(key_of(m, ps[i]), b));
}
// ... and a current backup path is left at once for it, whatever the round-trip times
pub proof fn lemma_cross_tier_switch(b: Key, c: Key)   // [C24]
    requires b.0 != c.0
    ensures should_switch(b, Some(c))
{}
// within one tier the selection moves only to a path whose biased RTT is at least 5 ms better than the current path's
pub proof fn lemma_same_tier_hysteresis(b: Key, c: Key)   // [C24]
    requires b.0 == c.0
    ensures should_switch(b, Some(c)) <==> b.1 + 5_000_000 <= c.1
{}
// default biases: IPv6 is credited 3 ms, IPv4 nothing, both primary; the relay is backup
pub proof fn lemma_default_keys(a: FourTuple, rtt: int)   // [C24]
    requires 0 <= rtt <= time::dur_max()
    ensures
        kind_of(a) == AddrKind::IpV6 ==> sort_key_spec(default_table(), a, rtt) == (TransportType::Primary, (rtt - 3_000_000) as i128),
        kind_of(a) == AddrKind::IpV4 ==> sort_key_spec(default_table(), a, rtt) == (TransportType::Primary, rtt as i128),
        kind_of(a) == AddrKind::Relay ==> sort_key_spec(default_table(), a, rtt) == (TransportType::Backup, rtt as i128),
        kind_of(a) is Custom ==> sort_key_spec(default_table(), a, rtt) == (TransportType::Primary, rtt as i128),
{
}
} // verus!
fn main() {}
