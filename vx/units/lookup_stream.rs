//@unit lookup_stream props=C29
// C29 — the address lookup results stream follows its documented protocol.
use vstd::prelude::*;
use vstd::std_specs::cmp::OrdSpec;
macro_rules! debug { ($($t:tt)*) => {}; }
macro_rules! ready { ($e:expr $(,)?) => { match $e { core::task::Poll::Ready(t) => t, core::task::Poll::Pending => { return core::task::Poll::Pending; } } }; }
// n0_error::e! builds the named error value (it only adds a `meta` source location)
macro_rules! e {
    ($($err:tt)::+ { $($body:tt)* }) => { $($err)::+ { $($body)* } };
    ($($err:tt)::+) => { $($err)::+ {} };
}
verus! {
//@include shims/std_wide.rs
use core::task::Poll;
#[verifier::accept_recursive_types(T)]
#[verifier::external_type_specification]
pub struct ExPoll<T>(core::task::Poll<T>);
pub mod std { pub mod task { #[verifier::external_body] pub struct Context<'a> { c: &'a u8 } } pub mod mem { pub use core::mem::take; } }

// lookup items and per-service errors: opaque values with identity
pub struct Error { pub id: int }
impl Clone for Error { #[verifier::external_body] fn clone(&self) -> (r: Error) ensures r == *self { unimplemented!() } }
pub struct Item { pub id: int }
pub struct BoxStream<T> { pub t: T }
// n0_future::MergeBounded: the merged per-service streams; ANY interleaving of items, errors, pending and end
#[verifier::external_body]
#[verifier::reject_recursive_types(S)]
pub struct MergeBounded<S> { x: core::marker::PhantomData<S> }
impl<S> MergeBounded<S> {
    #[verifier::external_body]
    pub fn from_iter<I>(streams: I) -> (r: MergeBounded<S>) { unimplemented!() }
    #[verifier::external_body]
    pub fn poll_next(&mut self, cx: &mut std::task::Context<'_>) -> (r: Poll<Option<Result<Item, Error>>>) { unimplemented!() }
}

//@item iroh/src/address_lookup.rs enum AddressLookupFailed
//@item iroh/src/address_lookup.rs struct AddressLookupStream pubfields pub

pub type Yield = Result<Result<Item, Error>, AddressLookupFailed>;

// one poll, as the documentation of the stream describes it
pub open spec fn step(a: AddressLookupStream, b: AddressLookupStream, r: Poll<Option<Yield>>) -> bool {
    if a.closed {
        // nothing is yielded after the end
        r == Poll::Ready(None::<Yield>) && b.closed && b.errors@ == a.errors@ && b.did_emit == a.did_emit && b.streams is None == a.streams is None
    } else if a.streams is None {
        // no service configured: the single NoServiceConfigured failure, then closed
        b.closed && r == Poll::Ready(Some(Err::<Result<Item, Error>, _>(AddressLookupFailed::NoServiceConfigured {})))
    } else {
        b.streams is Some && match r {
            Poll::Pending => !b.closed && b.errors@ == a.errors@ && b.did_emit == a.did_emit,
            // every item is yielded ...
            Poll::Ready(Some(Ok(Ok(_)))) => !b.closed && b.did_emit && b.errors@ == a.errors@,
            // ... every per-service error is yielded and buffered
            Poll::Ready(Some(Ok(Err(e)))) => !b.closed && b.did_emit == a.did_emit && b.errors@ == a.errors@.push(e),
            // end of all services without any item: the single NoResults failure carrying ALL buffered errors
            Poll::Ready(Some(Err(AddressLookupFailed::NoResults { errors }))) => b.closed && !a.did_emit && errors@ == a.errors@,
            Poll::Ready(Some(Err(AddressLookupFailed::NoServiceConfigured { .. }))) => false,
            // end of all services after at least one item: plain end
            Poll::Ready(None) => b.closed && a.did_emit,
        }
    }
}

impl AddressLookupStream {
//@fn iroh/src/address_lookup.rs AddressLookupStream::empty props=C29 ret=r
//@| ensures r.streams is None, !r.closed, !r.did_emit, r.errors@.len() == 0
//@end

//@fn iroh/src/address_lookup.rs AddressLookupStream::new props=C29 ret=r
//@| ensures r.streams is Some, !r.closed, !r.did_emit, r.errors@.len() == 0
//@end

//@fn iroh/src/address_lookup.rs Stream@AddressLookupStream::poll_next props=C29 ret=r
//@| ensures step(*old(self), *final(self), r)
//@rw R7 1
//@- self: Pin<&mut Self>
//@+ &mut self
//@rw R7 1
//@- self.get_mut()
//@+ self
//@rwx R7 1
//@- Pin::new\((?:&mut )?inner\)\.poll_next\(cx\)
//@+ inner.poll_next(cx)
//@rw D5 1
//@- Poll<Option<Self::Item>>
//@+ Poll<Option<Yield>>
//@end
}

// ---- the choice between empty() and new(): AddressLookupServices::resolve
pub struct EndpointId { pub id: int }
impl Clone for EndpointId { #[verifier::external_body] fn clone(&self) -> (r: EndpointId) ensures r == *self { unimplemented!() } }
impl Copy for EndpointId {}
pub struct EndpointData; pub struct AddrFilter;
pub trait AddressLookup {
    // None for publish-only services
    fn resolve(&self, endpoint_id: EndpointId) -> Option<BoxStream<Result<Item, Error>>>;
}
pub struct PoisonError;
#[verifier::external] impl core::fmt::Debug for PoisonError { fn fmt(&self, f: &mut core::fmt::Formatter<'_>) -> core::fmt::Result { Ok(()) } }
#[verifier::external_body]
#[verifier::reject_recursive_types(T)]
pub struct RwLock<T> { t: core::marker::PhantomData<T> }
// number of lookup services currently configured
pub uninterp spec fn configured(l: RwLock<Vec<Box<dyn AddressLookup>>>) -> nat;
pub struct ServicesGuard { pub n: nat }
// iterator adapters over the service list: opaque (Verus has no model for filter_map/collect); lengths are unknown
#[verifier::external_body] pub struct ServicesIter { x: u8 }
#[verifier::external_body] #[verifier::reject_recursive_types(F)] pub struct FilterMapIter<F> { x: core::marker::PhantomData<F> }
impl RwLock<Vec<Box<dyn AddressLookup>>> {
    // ASSUMPTION: the lock is not poisoned
    #[verifier::external_body]
    pub fn read(&self) -> (r: Result<ServicesGuard, PoisonError>) ensures r matches Ok(g) && g.n == configured(*self) { unimplemented!() }
}
impl ServicesGuard {
    #[verifier::external_body]
    pub fn is_empty(&self) -> (r: bool) ensures r == (self.n == 0) { unimplemented!() }
    #[verifier::external_body]
    pub fn len(&self) -> (r: usize) ensures r == self.n { unimplemented!() }
    #[verifier::external_body]
    pub fn iter(&self) -> ServicesIter { unimplemented!() }
}
impl ServicesIter {
    #[verifier::external_body]
    pub fn filter_map<F: FnMut(&Box<dyn AddressLookup>) -> Option<BoxStream<Result<Item, Error>>>>(self, f: F) -> FilterMapIter<F> { unimplemented!() }
}
#[verifier::external]
impl<F> Iterator for FilterMapIter<F> { type Item = BoxStream<Result<Item, Error>>; fn next(&mut self) -> Option<Self::Item> { unimplemented!() } }
impl<F> FilterMapIter<F> {
    // how many services return a stream is unknown (publish-only services return None)
    #[verifier::external_body]
    pub fn collect<B>(self) -> B { unimplemented!() }
}
//@item iroh/src/address_lookup.rs struct AddressLookupServices pubfields
use ::std::sync::Arc;
impl AddressLookupServices {
//@fn iroh/src/address_lookup.rs AddressLookupServices::resolve props=C29 ret=r
//@| ensures
//@|     // the NoServiceConfigured failure is reserved for "no service is configured" (not "no service answered")
//@|     r.streams is None <==> configured(*self.services) == 0,
//@|     !r.closed, !r.did_emit, r.errors@.len() == 0,
//@rwx D5 1
//@- \) -> impl Stream<Item = Result<Result<Item, Error>, AddressLookupFailed>> \+ use<>
//@+ ) -> AddressLookupStream
//@end
}

// ---- trace lemmas over `step` (contract only)
// after the stream has closed, every later poll yields None and changes nothing
pub proof fn lemma_nothing_after_end(a: AddressLookupStream, b: AddressLookupStream, r: Poll<Option<Yield>>)  // [C29]
    requires a.closed, step(a, b, r)
    ensures r == Poll::Ready(None::<Yield>), b.closed
{
}
// a terminal failure is yielded exactly when the stream closes without having emitted an item, and it is the
// NoServiceConfigured one exactly for a stream built by empty()
pub proof fn lemma_terminal_failure(a: AddressLookupStream, b: AddressLookupStream, r: Poll<Option<Yield>>)  // [C29]
    requires !a.closed, step(a, b, r)
    ensures
        (r matches Poll::Ready(Some(Err(_)))) ==> b.closed,
        (r matches Poll::Ready(Some(Err(AddressLookupFailed::NoServiceConfigured { .. })))) <==> a.streams is None,
        (r matches Poll::Ready(Some(Err(AddressLookupFailed::NoResults { .. })))) ==> a.streams is Some && !a.did_emit,
        (a.streams is Some && b.closed && !a.did_emit) ==> (r matches Poll::Ready(Some(Err(AddressLookupFailed::NoResults { .. })))),
        (a.streams is Some && b.closed && a.did_emit) ==> r == Poll::Ready(None::<Yield>),
{
}
// the buffered errors are exactly the errors yielded so far (in order): one step of the induction
pub proof fn lemma_errors_buffered(a: AddressLookupStream, b: AddressLookupStream, r: Poll<Option<Yield>>, yielded_errors: Seq<Error>)  // [C29]
    requires !a.closed, a.streams is Some, step(a, b, r), a.errors@ == yielded_errors
    ensures
        r matches Poll::Ready(Some(Ok(Err(e)))) ==> b.errors@ == yielded_errors.push(e),
        r matches Poll::Ready(Some(Err(AddressLookupFailed::NoResults { errors }))) ==> errors@ == yielded_errors,
        !(r matches Poll::Ready(Some(Ok(Err(_))))) && !b.closed ==> b.errors@ == yielded_errors,
{
}
} // verus!
fn main() {}
