//@unit lookup_stream props=C29
// C29 — the address lookup results stream follows its documented protocol.
use vstd::prelude::*;
use vstd::std_specs::cmp::OrdSpec;
macro_rules! debug { ($($t:tt)*) => {}; }
macro_rules! ready { ($e:expr $(,)?) => { match $e { core::task::Poll::Ready(t) => t, core::task::Poll::Pending => { return core::task::Poll::Pending; } } }; }
// n0_error::e! builds the named error value (it only adds a `meta` source location)
macro_rules! e {
    ($($err:tt)::+ { $($body:tt)* }) => { $($err)::+ { $($body)* } };
    ($($err:tt)::+) => { $($err)::+ {} };
}
verus! {
//@include shims/std_wide.rs
use core::task::Poll;
#[verifier::accept_recursive_types(T)]
#[verifier::external_type_specification]
pub struct ExPoll<T>(core::task::Poll<T>);
pub mod std { pub mod task { #[verifier::external_body] pub struct Context<'a> { c: &'a u8 } } pub mod mem { pub use core::mem::take; } }

// lookup items and per-service errors: opaque values with identity
pub struct Error { pub id: int }
impl Clone for Error { #[verifier::external_body] fn clone(&self) -> (r: Error) ensures r == *self { unimplemented!() } }
pub struct Item { pub id: int }
pub struct BoxStream<T> { pub t: T }
// n0_future::MergeBounded: the merged per-service streams; ANY interleaving of items, errors, pending and end
#[verifier::external_body]
#[verifier::reject_recursive_types(S)]
pub struct MergeBounded<S> { x: core::marker::PhantomData<S> }
impl<S> MergeBounded<S> {
    #[verifier::external_body]
    pub fn from_iter<I>(streams: I) -> (r: MergeBounded<S>) { unimplemented!() }
    #[verifier::external_body]
    pub fn poll_next(&mut self, cx: &mut std::task::Context<'_>) -> (r: Poll<Option<Result<Item, Error>>>) { unimplemented!() }
}

//@item iroh/src/address_lookup.rs enum AddressLookupFailed
//@item iroh/src/address_lookup.rs struct AddressLookupStream pubfields pub

pub type Yield = Result<Result<Item, Error>, AddressLookupFailed>;

// one poll, as the documentation of the stream describes it
pub open spec fn step(a: AddressLookupStream, b: AddressLookupStream, r: Poll<Option<Yield>>) -> bool {
    if a.closed {
        // nothing is yielded after the end
        r == Poll::Ready(None::<Yield>) && b.closed && b.errors@ == a.errors@ && b.did_emit == a.did_emit && b.streams is None == a.streams is None
    } else if a.streams is None {
        // no service configured: the single NoServiceConfigured failure, then closed
        b.closed && r == Poll::Ready(Some(Err::<Result<Item, Error>, _>(AddressLookupFailed::NoServiceConfigured {})))
    } else {
        b.streams is Some && match r {
            Poll::Pending => !b.closed && b.errors@ == a.errors@ && b.did_emit == a.did_emit,
            // every item is yielded ...
            Poll::Ready(Some(Ok(Ok(_)))) => !b.closed && b.did_emit && b.errors@ == a.errors@,
            // ... every per-service error is yielded and buffered
            Poll::Ready(Some(Ok(Err(e)))) => !b.closed && b.did_emit == a.did_emit && b.errors@ == a.errors@.push(e),
            // end of all services without any item: the single NoResults failure carrying ALL buffered errors
            Poll::Ready(Some(Err(AddressLookupFailed::NoResults { errors }))) => b.closed && !a.did_emit && errors@ == a.errors@,
            Poll::Ready(Some(Err(AddressLookupFailed::NoServiceConfigured { .. }))) => false,
            // end of all services after at least one item: plain end
            Poll::Ready(None) => b.closed && a.did_emit,
        }
    }
}

impl AddressLookupStream {
//@fn iroh/src/address_lookup.rs AddressLookupStream::empty props=C29 ret=r
//@| ensures r.streams is None, !r.closed, !r.did_emit, r.errors@.len() == 0
//@end

//@fn iroh/src/address_lookup.rs AddressLookupStream::new props=C29 ret=r
//@| ensures r.streams is Some, !r.closed, !r.did_emit, r.errors@.len() == 0
//@end

//@fn iroh/src/address_lookup.rs Stream@AddressLookupStream::poll_next props=C29 ret=r
//@| ensures step(*old(self), *final(self), r)
//@rw R7 1
//@- self: Pin<&mut Self>
//@+ &mut self
//@rw R7 1
//@- self.get_mut()
//@+ self
//@rw R7 1
//@- Pin::new(&mut inner).poll_next(cx)
//@+ inner.poll_next(cx)
//@rw D5 1
//@- Poll<Option<Self::Item>>
//@+ Poll<Option<Yield>>
//@end
}

// ---- trace lemmas over `step` (contract only)
// after the stream has closed, every later poll yields None and changes nothing
pub proof fn lemma_nothing_after_end(a: AddressLookupStream, b: AddressLookupStream, r: Poll<Option<Yield>>)  // [C29]
    requires a.closed, step(a, b, r)
    ensures r == Poll::Ready(None::<Yield>), b.closed
{
}
// a terminal failure is yielded exactly when the stream closes without having emitted an item, and it is the
// NoServiceConfigured one exactly for a stream built by empty()
pub proof fn lemma_terminal_failure(a: AddressLookupStream, b: AddressLookupStream, r: Poll<Option<Yield>>)  // [C29]
    requires !a.closed, step(a, b, r)
    ensures
        (r matches Poll::Ready(Some(Err(_)))) ==> b.closed,
        (r matches Poll::Ready(Some(Err(AddressLookupFailed::NoServiceConfigured { .. })))) <==> a.streams is None,
        (r matches Poll::Ready(Some(Err(AddressLookupFailed::NoResults { .. })))) ==> a.streams is Some && !a.did_emit,
        (a.streams is Some && b.closed && !a.did_emit) ==> (r matches Poll::Ready(Some(Err(AddressLookupFailed::NoResults { .. })))),
        (a.streams is Some && b.closed && a.did_emit) ==> r == Poll::Ready(None::<Yield>),
{
}
// the buffered errors are exactly the errors yielded so far (in order): one step of the induction
pub proof fn lemma_errors_buffered(a: AddressLookupStream, b: AddressLookupStream, r: Poll<Option<Yield>>, yielded_errors: Seq<Error>)  // [C29]
    requires !a.closed, a.streams is Some, step(a, b, r), a.errors@ == yielded_errors
    ensures
        r matches Poll::Ready(Some(Ok(Err(e)))) ==> b.errors@ == yielded_errors.push(e),
        r matches Poll::Ready(Some(Err(AddressLookupFailed::NoResults { errors }))) ==> errors@ == yielded_errors,
        !(r matches Poll::Ready(Some(Ok(Err(_))))) && !b.closed ==> b.errors@ == yielded_errors,
{
}
} // verus!
fn main() {}
