//@unit relay_recv props=C17
// C17 — the relay receive path delivers datagrams in order and never wedges.
use vstd::prelude::*;
use vstd::std_specs::cmp::OrdSpec;
use std::num::NonZeroU16;
// exec assert!/assert_eq! are obligations: a reachable failing assertion is a panic
macro_rules! assert_eq { ($a:expr, $b:expr $(, $($t:tt)*)?) => { vstd::pervasive::runtime_assert($a == $b) }; }
macro_rules! assert { ($a:expr $(, $($t:tt)*)?) => { vstd::pervasive::runtime_assert($a) }; }
macro_rules! error { ($($t:tt)*) => {}; }
macro_rules! warn { ($($t:tt)*) => {}; }
verus! {
//@include shims/std_wide.rs
//@include shims/bytes.rs
impl core::ops::Deref for Bytes {
    type Target = [u8];
    #[verifier::external_body]
    fn deref(&self) -> (r: &[u8]) ensures r@ == self@ { unimplemented!() }
}
// ---- core::task: Poll is the std type; Context/Waker are shims with two persistent ghost facts about the polled task
use core::task::Poll;
#[verifier::accept_recursive_types(T)]
#[verifier::external_type_specification]
pub struct ExPoll<T>(core::task::Poll<T>);
#[verifier::external_body]
pub struct Context { c: u8 }
#[verifier::external_body]
pub struct Waker { c: u8 }
pub uninterp spec fn task_of(cx: &Context) -> int;
pub uninterp spec fn waker_task(w: &Waker) -> int;
// a wake source holds this task's waker and will fire when input arrives
pub uninterp spec fn wake_registered(task: int) -> bool;
// the task woke itself during this poll: the executor will poll it again
pub uninterp spec fn self_woken(task: int) -> bool;
impl Context {
    #[verifier::external_body]
    pub fn waker(&self) -> (r: &Waker) ensures waker_task(r) == task_of(self) { unimplemented!() }
}
impl Waker {
    #[verifier::external_body]
    pub fn wake_by_ref(&self) ensures self_woken(waker_task(self)) { unimplemented!() }
}

pub mod io {
    use vstd::prelude::*;
    pub struct Error;
    pub type Result<T> = core::result::Result<T, Error>;
    pub enum ErrorKind { NotConnected }
    impl Error {
        #[verifier::external_body]
        pub fn new(k: ErrorKind, m: &str) -> Error { Error }
    }
    // a receive buffer handed in by QUIC: its bytes
    #[verifier::external_body]
    pub struct IoSliceMut<'a> { b: &'a mut [u8] }
    impl<'a> View for IoSliceMut<'a> { type V = Seq<u8>; uninterp spec fn view(&self) -> Seq<u8>; }
    impl<'a> IoSliceMut<'a> {
        #[verifier::external_body]
        pub fn len(&self) -> (r: usize) ensures r == self@.len() { unimplemented!() }
    }
}
// rule R17: `buf[..n].copy_from_slice(src)` on the foreign buffer type: both std panic conditions are preconditions
#[verifier::external_body]
pub fn ioslice_copy_prefix(buf: &mut io::IoSliceMut<'_>, n: usize, src: &[u8])
    requires n <= old(buf)@.len(), src@.len() == n
    ensures final(buf)@ == src@ + old(buf)@.subrange(n as int, old(buf)@.len() as int)
{ unimplemented!() }

pub mod noq_proto { #[derive(Clone, Copy)] pub enum EcnCodepoint { Ect0, Ect1, Ce } }
pub mod noq_udp {
    pub struct RecvMeta { pub len: usize, pub stride: usize, pub ecn: Option<u8>, pub dst_ip: Option<u8> }
}
//@item iroh-relay/src/protos/relay.rs struct Datagrams
#[derive(Clone)]
pub struct RelayUrl { pub u: u64 }
#[derive(Clone, Copy)]
pub struct EndpointId { pub k: u64 }
//@item iroh/src/socket/transports/relay/actor.rs struct RelayRecvDatagram
pub struct Addr { pub url: RelayUrl, pub src: EndpointId }
impl From<(RelayUrl, EndpointId)> for Addr { #[verifier::external_body] fn from(x: (RelayUrl, EndpointId)) -> (r: Addr) { unimplemented!() } }
pub struct RecvInfo { pub remote: Addr }
impl RecvInfo { #[verifier::external_body] pub fn from_addr(remote: Addr) -> (r: RecvInfo) ensures r.remote == remote { unimplemented!() } }

pub mod mpsc {
    use vstd::prelude::*;
    #[verifier::external_body]
    #[verifier::reject_recursive_types(T)]
    pub struct Receiver<T> { t: core::marker::PhantomData<T> }
}
impl mpsc::Receiver<RelayRecvDatagram> {
    // tokio mpsc: FIFO; Pending registers the waker
    #[verifier::external_body]
    pub fn poll_recv(&mut self, cx: &mut Context) -> (r: Poll<Option<RelayRecvDatagram>>)
        ensures r is Pending ==> wake_registered(task_of(old(cx))), task_of(final(cx)) == task_of(old(cx))
    { unimplemented!() }
}

impl Datagrams {
    // Contract proved in unit datagrams_split on the same source function (C16); the precondition n >= 1 is what
    // the re-batching loop needs for progress and is an obligation of its caller here.
    #[verifier::external_body]
    pub fn take_segments(&mut self, num_segments: usize) -> (r: Datagrams)
        requires num_segments >= 1   // [C17]
        ensures
            r.contents@ + final(self).contents@ == old(self).contents@,
            old(self).contents@.len() > 0 ==> r.contents@.len() > 0,
            old(self).segment_size matches Some(s) ==> r.contents@.len() <= num_segments * (s@ as int),
            r.segment_size matches Some(s) ==> old(self).segment_size == Some(s) && r.contents@.len() > s@,
            final(self).segment_size matches Some(s) ==> old(self).segment_size == Some(s),
            old(self).segment_size is None ==> final(self).contents@.len() == 0 && r.segment_size is None && final(self).segment_size is None,
    { unimplemented!() }
}

//@item iroh/src/socket/transports/relay.rs struct RelayTransport keep=relay_datagram_recv_queue,pending_item pubfields

// bytes still waiting in the partially consumed head-of-line item
pub open spec fn pending_bytes(t: RelayTransport) -> Seq<u8> {
    match t.pending_item { Some(d) => d.datagrams.contents@, None => Seq::<u8>::empty() }
}
// a slot handed to QUIC: its meta describes a non-empty datagram (batch) that fits, stride = segment size or whole length
pub open spec fn slot_ok(buf: io::IoSliceMut<'_>, meta: noq_udp::RecvMeta) -> bool {
    meta.len <= buf@.len() && meta.stride <= meta.len && (meta.len > 0 ==> meta.stride > 0)
}

pub proof fn div_mul_le(a: int, b: int)
    requires a >= 0, b > 0
    ensures (a / b) * b <= a, a / b >= 0
{
    assert((a / b) * b <= a && a / b >= 0) by (nonlinear_arith) requires a >= 0, b > 0;
}

impl RelayTransport {
//@fn iroh/src/socket/transports/relay.rs RelayTransport::poll_recv_queue props=C17 ret=r
//@| ensures
//@|     task_of(final(cx)) == task_of(old(cx)),
//@|     // head-of-line first: a pending item is returned as is and the channel is not touched
//@|     old(self).pending_item is Some ==> (r matches Poll::Ready(Some(d)) && *d == old(self).pending_item->0),
//@|     r is Pending ==> wake_registered(task_of(old(cx))) && final(self).pending_item is None,
//@|     r matches Poll::Ready(None) ==> final(self).pending_item is None,
//@|     // the returned reference IS the head-of-line slot: what the caller does through it is what stays queued
//@|     r matches Poll::Ready(Some(d)) ==> final(self).pending_item == Some(*final(d)),
//@end

//@fn iroh/src/socket/transports/relay.rs RelayTransport::poll_recv props=C17 ret=r
//@| requires
//@|     // API precondition (the two assert_eq! at the top panic otherwise); QUIC passes at least one buffer
//@|     old(bufs)@.len() == old(metas)@.len(), old(bufs)@.len() == old(recv_infos)@.len(), old(bufs)@.len() >= 1,
//@| ensures
//@|     // never reports an empty batch of slots, never more than there are
//@|     r matches Poll::Ready(Ok(n)) ==> 1 <= n <= old(bufs)@.len(),
//@|     r matches Poll::Ready(Ok(n)) ==> forall|j: int| 0 <= j < n ==> slot_ok(#[trigger] final(bufs)@[j], final(metas)@[j]),
//@|     // never parks without a way to be polled again
//@|     r is Pending ==> wake_registered(task_of(old(cx))) || self_woken(task_of(old(cx))),
//@loop 1
//@| invariant_except_break
//@|     num_msgs == i,
//@| invariant
//@|     bufs@.len() == metas@.len(), bufs@.len() == recv_infos@.len(), bufs@.len() == old(bufs)@.len(), bufs@.len() >= 1,
//@|     num_msgs <= bufs@.len(),
//@|     task_of(cx) == task_of(old(cx)),
//@|     forall|j: int| 0 <= j < num_msgs ==> slot_ok(#[trigger] bufs@[j], metas@[j]),
//@| ensures
//@|     num_msgs == 0 ==> wake_registered(task_of(old(cx))) || self_woken(task_of(old(cx))),
//@ins before 1
//@- let num_segments = dm
//@| let ghost head_before = dm.datagrams.contents@;
//@ins before 2
//@- break;
//@| proof {
//@|     // conservation (discard path): exactly the taken datagram(s) left the head-of-line batch, nothing else is dropped
//@|     assert(pending_bytes(*self) =~= head_before.subrange(dm.datagrams.contents@.len() as int, head_before.len() as int));
//@|     // only a datagram that does not fit is ever discarded: the discarded chunk is ONE datagram (no segment size) and,
//@|     // by the branch condition, longer than the buffer — never a re-batched group containing datagrams that would fit
//@|     assert(dm.datagrams.segment_size is None);
//@| }
//@ins before 1
//@- num_msgs += 1;
//@| proof {
//@|     // conservation (delivery path): what was delivered plus what stays queued is what was queued, in order
//@|     assert(pending_bytes(*self) =~= head_before.subrange(metas@[i as int].len as int, head_before.len() as int));
//@|     assert(bufs@[i as int]@.subrange(0, metas@[i as int].len as int) =~= head_before.subrange(0, metas@[i as int].len as int));
//@| }
//@rwx A3 1
//@- \.map_or\(1, \|(\w+)\| (.+?)\);\n
//@+ .map_or(1, |\1: NonZeroU16| -> (n: usize) ensures n >= 1, n == 1 || n * (\1@ as int) <= buf_out@.len() { proof { div_mul_le(buf_out@.len() as int, \1@ as int); } \2 });\n
//@rwx A3 1
//@- \.map_or\(([^,|]+), \|(\w+)\| (.+?)\);\n
//@+ .map_or(\1, |\2: NonZeroU16| -> (n: usize) ensures n == \2@ { \3 });\n
//@rwx R17 1
//@- buf_out\[\.\.([^\]]+)\]\.copy_from_slice\(&dm\.datagrams\.contents\);
//@+ ioslice_copy_prefix(buf_out, \1, &dm.datagrams.contents);
//@end
}
} // verus!
fn main() {}
