//@unit tls_verifier props=C01
// C01 — dialing by public key authenticates the remote endpoint: the certificate verifier hooks and remote-id extraction.
use vstd::prelude::*;
use vstd::std_specs::cmp::OrdSpec;
macro_rules! warn { ($($t:tt)*) => {}; }
verus! {
//@include shims/std_wide.rs

// ---- property-level vocabulary
pub struct EndpointId { pub b: [u8; 32] }
pub type PublicKey = EndpointId;
// tls::name::decode: the name codec (string code: not under contract; ASSUMED inverse of encode and shape-restricted)
pub uninterp spec fn name_decode(s: Seq<char>) -> Option<EndpointId>;
// DER SubjectPublicKeyInfo of an Ed25519 key: a constant 12-byte prefix followed by the 32 key bytes
pub uninterp spec fn spki(key: Seq<u8>) -> Seq<u8>;
pub broadcast axiom fn spki_injective(a: Seq<u8>, b: Seq<u8>)
    requires a.len() == 32, b.len() == 32
    ensures #[trigger] spki(a) == #[trigger] spki(b) ==> a == b;
pub uninterp spec fn ed_valid(pk: Seq<u8>, msg: Seq<u8>, sig: Seq<u8>) -> bool;
// rustls verified the TLS 1.3 CertificateVerify signature `dss` over `message` with the raw key in `spki`, using only
// the algorithms in `algs`
pub uninterp spec fn raw_key_sig_ok(spki: Seq<u8>, message: Seq<u8>, dss: rustls::DigitallySignedStruct, algs: rustls::crypto::WebPkiSupportedAlgorithms) -> bool;

impl EndpointId {
    #[verifier::external_body]
    pub fn as_bytes(&self) -> (r: &[u8; 32]) ensures r@ == self.b@ { unimplemented!() }
}
pub mod name {
    use vstd::prelude::*;
    #[verifier::external_body]
    pub fn decode(name: &str) -> (r: Option<super::EndpointId>) ensures r == super::name_decode(name@) { unimplemented!() }
}
pub mod webpki_types {
    use vstd::prelude::*;
    pub struct AlgorithmIdentifier { pub id: u8 }
    pub struct InvalidSignature;
    pub mod alg_id {
        #[verifier::external_body]
        pub exec const ED25519: super::AlgorithmIdentifier ensures true { super::AlgorithmIdentifier { id: 0 } }
    }
    // SPKI bytes
    pub struct SubjectPublicKeyInfoDer { pub der: Seq<u8> }
    impl SubjectPublicKeyInfoDer {
        // From<&[u8]>: wraps the bytes
        #[verifier::external_body]
        pub fn from(b: &[u8]) -> (r: SubjectPublicKeyInfoDer) ensures r.der == b@ { unimplemented!() }
    }
}
use webpki_types::SubjectPublicKeyInfoDer;
// PartialEq on SubjectPublicKeyInfoDer compares the DER bytes
impl PartialEq for SubjectPublicKeyInfoDer { #[verifier::external_body] fn eq(&self, o: &Self) -> bool { unimplemented!() } }
impl vstd::std_specs::cmp::PartialEqSpecImpl for SubjectPublicKeyInfoDer {
    open spec fn obeys_eq_spec() -> bool { true }
    open spec fn eq_spec(&self, o: &Self) -> bool { self.der == o.der }
}
impl SubjectPublicKeyInfoDer {
    #[verifier::external_body]
    pub fn len(&self) -> (r: usize) ensures r == self.der.len() { unimplemented!() }
}

pub mod rustls {
    use vstd::prelude::*;
    pub enum CertificateError { NotValidForName, UnknownIssuer }
    pub enum PeerIncompatible { Tls12NotOffered }
    pub enum Error { UnsupportedNameType, InvalidCertificate(CertificateError), PeerIncompatible(PeerIncompatible), Other }
    pub struct DigitallySignedStruct { pub id: int }
    pub struct DistinguishedName;
    pub enum SignatureScheme { ED25519 }
    pub mod pki_types {
        use vstd::prelude::*;
        pub struct DnsName { pub s: Seq<char> }
        impl DnsName { #[verifier::external_body] pub fn as_ref(&self) -> (r: &str) ensures r@ == self.s { unimplemented!() } }
        pub enum ServerName { DnsName(DnsName), IpAddress(u8) }
        pub struct UnixTime;
        // a certificate as presented by the peer: with raw public keys its DER bytes ARE the SubjectPublicKeyInfo
        pub struct CertificateDer { pub der: Seq<u8> }
        impl CertificateDer { #[verifier::external_body] pub fn as_ref(&self) -> (r: &[u8]) ensures r@ == self.der { unimplemented!() } }
    }
    pub mod client { pub mod danger {
        pub struct ServerCertVerified;
        impl ServerCertVerified { #[verifier::external_body] pub fn assertion() -> ServerCertVerified { unimplemented!() } }
        pub struct HandshakeSignatureValid;
    } }
    pub mod server { pub mod danger {
        pub struct ClientCertVerified;
        impl ClientCertVerified { #[verifier::external_body] pub fn assertion() -> ClientCertVerified { unimplemented!() } }
    } }
    pub mod sign {
        use vstd::prelude::*;
        #[verifier::external_body]
        pub fn public_key_to_spki(alg: &super::super::webpki_types::AlgorithmIdentifier, key: &[u8; 32]) -> (r: super::super::webpki_types::SubjectPublicKeyInfoDer)
            ensures r.der == super::super::spki(key@)
        { unimplemented!() }
    }
    pub mod crypto {
        use vstd::prelude::*;
        pub struct WebPkiSupportedAlgorithms { pub only_ed25519_dalek: bool }
        // rustls: verifies `dss` over `message` with the key in `spki` using `algs`; Ok only if it verified
        #[verifier::external_body]
        pub fn verify_tls13_signature_with_raw_key(message: &[u8], spki: &super::super::webpki_types::SubjectPublicKeyInfoDer, dss: &super::DigitallySignedStruct, algs: &WebPkiSupportedAlgorithms)
            -> (r: Result<super::client::danger::HandshakeSignatureValid, super::Error>)
            ensures r is Ok ==> super::super::raw_key_sig_ok(spki.der, message@, *dss, *algs)
        { unimplemented!() }
    }
}
use rustls::{CertificateError, DigitallySignedStruct, pki_types::CertificateDer as Certificate, client::danger::{HandshakeSignatureValid, ServerCertVerified}, server::danger::ClientCertVerified, crypto::{WebPkiSupportedAlgorithms, verify_tls13_signature_with_raw_key}};
// the algorithm table of verifier.rs (`SUPPORTED_SIG_ALGS`: statics of trait objects are not extractable): ASSUMED to
// list only the Ed25519Dalek verifier below, as the source does
#[verifier::external_body]
pub exec const SUPPORTED_SIG_ALGS: WebPkiSupportedAlgorithms ensures SUPPORTED_SIG_ALGS.only_ed25519_dalek { WebPkiSupportedAlgorithms { only_ed25519_dalek: true } }

//@item iroh/src/tls/verifier.rs struct ServerCertificateVerifier
//@item iroh/src/tls/verifier.rs struct ClientCertificateVerifier
//@item iroh/src/tls/verifier.rs struct Ed25519Dalek

impl ServerCertificateVerifier {
//@fn iroh/src/tls/verifier.rs ServerCertVerifier@ServerCertificateVerifier::verify_server_cert props=C01 ret=r
//@| ensures
//@|     // accepted only for a DNS server name that decodes to an id whose SPKI is byte-for-byte the presented
//@|     // end-entity certificate, with no intermediates — whatever certificate, chain or name is presented
//@|     r is Ok ==> intermediates@.len() == 0 && (server_name matches rustls::pki_types::ServerName::DnsName(n)
//@|         && name_decode(n.s) matches Some(id) && end_entity.der == spki(id.b@)),
//@rw R23 1
//@- super::name::decode(
//@+ name::decode(
//@end
//@fn iroh/src/tls/verifier.rs ServerCertVerifier@ServerCertificateVerifier::verify_tls12_signature props=C01 ret=r
//@| ensures r is Err
//@end
//@fn iroh/src/tls/verifier.rs ServerCertVerifier@ServerCertificateVerifier::verify_tls13_signature props=C01 ret=r
//@| ensures r is Ok ==> exists|a: WebPkiSupportedAlgorithms| a.only_ed25519_dalek && #[trigger] raw_key_sig_ok(cert.der, message@, *dss, a)
//@end
//@fn iroh/src/tls/verifier.rs ServerCertVerifier@ServerCertificateVerifier::requires_raw_public_keys props=C01 ret=r
//@| ensures r
//@end
}
impl ClientCertificateVerifier {
//@fn iroh/src/tls/verifier.rs ClientCertVerifier@ClientCertificateVerifier::verify_client_cert props=C01 ret=r
//@| ensures r is Ok ==> intermediates@.len() == 0
//@end
//@fn iroh/src/tls/verifier.rs ClientCertVerifier@ClientCertificateVerifier::verify_tls12_signature props=C01 ret=r
//@| ensures r is Err
//@end
//@fn iroh/src/tls/verifier.rs ClientCertVerifier@ClientCertificateVerifier::verify_tls13_signature props=C01 ret=r
//@| ensures r is Ok ==> exists|a: WebPkiSupportedAlgorithms| a.only_ed25519_dalek && #[trigger] raw_key_sig_ok(cert.der, message@, *dss, a)
//@end
//@fn iroh/src/tls/verifier.rs ClientCertVerifier@ClientCertificateVerifier::requires_raw_public_keys props=C01 ret=r
//@| ensures r
//@end
}

// ---- the signature algorithm rustls is given: Ed25519 strict verification through iroh_base
pub struct KeyParsingError; pub struct SigParseError; pub struct SignatureError;
pub struct Signature { pub b: [u8; 64] }
pub uninterp spec fn valid_point(b: Seq<u8>) -> bool;
impl EndpointId {
    #[verifier::external_body]
    pub fn try_from(b: &[u8]) -> (r: Result<EndpointId, KeyParsingError>)
        ensures r is Ok <==> (b@.len() == 32 && valid_point(b@)), r matches Ok(k) ==> k.b@ == b@
    { unimplemented!() }
    #[verifier::external_body]
    pub fn verify(&self, message: &[u8], sig: &Signature) -> (r: Result<(), SignatureError>)
        ensures r is Ok <==> ed_valid(self.b@, message@, sig.b@)
    { unimplemented!() }
}
impl Signature {
    #[verifier::external_body]
    pub fn try_from(b: &[u8]) -> (r: Result<Signature, SigParseError>)
        ensures r is Ok <==> b@.len() == 64, r matches Ok(s) ==> s.b@ == b@
    { unimplemented!() }
    // ed25519_dalek::Signature::from_slice / from_bytes
    #[verifier::external_body]
    pub fn from_slice(b: &[u8]) -> (r: Result<Signature, SigParseError>)
        ensures r is Ok <==> b@.len() == 64, r matches Ok(s) ==> s.b@ == b@
    { unimplemented!() }
    #[verifier::external_body]
    pub fn from_bytes(b: &[u8; 64]) -> (r: Signature) ensures r.b@ == b@ { unimplemented!() }
}
impl Ed25519Dalek {
//@fn iroh/src/tls/verifier.rs SignatureVerificationAlgorithm@Ed25519Dalek::verify_signature props=C01 ret=r
//@| ensures
//@|     // Ok exactly when the key bytes are a valid 32-byte point, the signature has 64 bytes and verify_strict accepts
//@|     r is Ok <==> (public_key@.len() == 32 && valid_point(public_key@) && signature@.len() == 64 && ed_valid(public_key@, message@, signature@)),
//@rwx R1 *
//@- \.map_err\(\|_\| webpki_types::InvalidSignature\)
//@+ .map_err(|_w| webpki_types::InvalidSignature)
//@end
}

// ---- the id reported for an established connection (endpoint/connection.rs)
pub struct RemoteEndpointIdError;
impl RemoteEndpointIdError { #[verifier::external_body] pub fn new() -> RemoteEndpointIdError { unimplemented!() } }
pub struct DerError;
pub struct VerifyingKey { pub b: Seq<u8> }
// ed25519_dalek::VerifyingKey::from_public_key_der: parses a SubjectPublicKeyInfo; Ok only for spki(key) of a valid point
impl VerifyingKey {
    // ed25519_dalek API reachable from the verifier module (so that code calling dalek directly stays within reach):
    // point validation on construction; verify_strict <=> ed_valid; the NON-strict `Verifier::verify` accepts small-order
    // keys / non-canonical encodings and therefore promises nothing about ed_valid
    #[verifier::external_body]
    pub fn try_from(b: &[u8]) -> (r: Result<VerifyingKey, DerError>)
        ensures r is Ok <==> (b@.len() == 32 && valid_point(b@)), r matches Ok(k) ==> k.b == b@
    { unimplemented!() }
    #[verifier::external_body]
    pub fn from_bytes(b: &[u8; 32]) -> (r: Result<VerifyingKey, DerError>)
        ensures r is Ok <==> valid_point(b@), r matches Ok(k) ==> k.b == b@
    { unimplemented!() }
    #[verifier::external_body]
    pub fn verify_strict(&self, message: &[u8], sig: &Signature) -> (r: Result<(), SignatureError>)
        ensures r is Ok <==> ed_valid(self.b, message@, sig.b@)
    { unimplemented!() }
    #[verifier::external_body]
    pub fn verify(&self, message: &[u8], sig: &Signature) -> (r: Result<(), SignatureError>) { unimplemented!() }
    #[verifier::external_body]
    pub fn from_public_key_der(c: &Certificate) -> (r: Result<VerifyingKey, DerError>)
        ensures r matches Ok(k) ==> k.b.len() == 32 && valid_point(k.b) && c.der == spki(k.b)
    { unimplemented!() }
}
impl EndpointId {
    #[verifier::external_body]
    pub fn from_verifying_key(k: VerifyingKey) -> (r: EndpointId) ensures r.b@ == k.b { unimplemented!() }
}
// what the QUIC stack recorded as the peer's identity after the handshake: the certificate list it verified
pub struct PeerIdentity { pub certs: Option<Seq<Certificate>> }
pub struct CertList { pub v: Vec<Certificate> }
impl CertList {
    #[verifier::external_body]
    pub fn len(&self) -> (r: usize) ensures r == self.v@.len() { unimplemented!() }
}
impl PeerIdentity {
    // Box<dyn Any>::downcast::<Vec<CertificateDer>>()
    #[verifier::external_body]
    pub fn downcast<T>(self) -> (r: Result<Box<Vec<Certificate>>, PeerIdentity>)
        ensures r matches Ok(v) ==> self.certs == Some(v@)
    { unimplemented!() }
}
pub mod noq {
    pub struct Connection { pub peer: Option<super::PeerIdentity> }
    impl Connection {
        #[verifier::external_body]
        pub fn peer_identity(&self) -> (r: Option<super::PeerIdentity>) ensures r == self.peer { unimplemented!() }
    }
}
//@fn iroh/src/endpoint/connection.rs remote_id_from_noq_conn props=C01 ret=r
//@| ensures
//@|     // an id is reported only for a peer identity that is a list of exactly ONE certificate, and it is the key inside it
//@|     r matches Ok(id) ==> conn.peer matches Some(p) && p.certs matches Some(cs) && cs.len() == 1 && cs[0].der == spki(id.b@) && valid_point(id.b@),
//@rw D5 1
//@- data.downcast::<Vec<rustls::pki_types::CertificateDer>>()
//@+ data.downcast::<Vec<Certificate>>()
//@rwx R1 *
//@- \.map_err\(\|_\| RemoteEndpointIdError::new\(\)\)
//@+ .map_err(|_w| RemoteEndpointIdError::new())
//@end

// ---- lemma: whatever is presented, an accepted end-entity certificate carries the key of the DIALED id
pub proof fn lemma_accepted_cert_is_dialed_key(dialed: EndpointId, name: Seq<char>, cert: Seq<u8>, id: EndpointId, presented_key: Seq<u8>)  // [C01]
    requires
        // the TLS server name is the encoding of the dialed id (checked for connect_with_opts in unit hooks), and decode inverts encode (ASSUMED)
        name_decode(name) == Some(dialed),
        // verify_server_cert's postcondition for some decoded id
        name_decode(name) == Some(id), cert == spki(id.b@),
        // the certificate presented is the SPKI of some 32-byte key
        presented_key.len() == 32, cert == spki(presented_key),
    ensures presented_key == dialed.b@
{
    broadcast use spki_injective;
    assert(id == dialed);
}
} // verus!
fn main() {}
