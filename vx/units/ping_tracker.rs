//@unit ping_tracker props=C14
// C14 — relay keep-alive pings: only the latest ping counts.
use vstd::prelude::*;
use vstd::std_specs::cmp::OrdSpec;
macro_rules! debug { ($($t:tt)*) => {}; }
verus! {
//@include shims/std_wide.rs
//@include shims/time.rs
use time::{Duration, Instant};
impl Duration {
    // Ord::clamp on Duration: std panics when min > max
    #[verifier::external_body]
    pub fn clamp(self, min: Duration, max: Duration) -> (r: Duration)
        requires min@ <= max@
        ensures r@ == (if self@ < min@ { min@ } else if self@ > max@ { max@ } else { self@ })
    { unimplemented!() }
}
impl Instant {
    // tokio Instant::elapsed: now - self, saturating; `now` is some later clock reading
    #[verifier::external_body]
    pub fn elapsed(&self) -> (r: Duration) ensures 0 <= r@ <= time::now_max() { unimplemented!() }
}
pub mod time_fns {
    use vstd::prelude::*;
    pub uninterp spec fn clock_reached(deadline: int) -> bool;
    // tokio::time::sleep_until completes only once the clock has reached the deadline
    #[verifier::external_body]
    pub async fn sleep_until(deadline: super::time::Instant) -> (r: ()) ensures clock_reached(deadline@) { unimplemented!() }
}
// rule R13: std::future::pending() never completes
#[verifier::external_body]
pub async fn future_pending() -> (r: ()) ensures false { unimplemented!() }
pub mod rand {
    use vstd::prelude::*;
    #[verifier::external_body]
    pub fn random<T>() -> T { unimplemented!() }
}

//@item iroh-relay/src/ping_tracker.rs const MIN_HEALTH_CHECK_TIMEOUT execconst pub
//@| ensures MIN_HEALTH_CHECK_TIMEOUT@ == 500_000_000
//@item iroh-relay/src/ping_tracker.rs struct PingInner pubfields pub
//@item iroh-relay/src/ping_tracker.rs struct PingTracker pubfields

pub open spec fn clamp3(rtt: int, max: int) -> int {
    let x = rtt * 3;
    if x < 500_000_000 { 500_000_000 } else if x > max { max } else { x }
}

impl PingTracker {
    // configuration precondition: the bounds are ordered (every call site uses the 5 s default) and sane
    pub open spec fn wf(&self) -> bool {
        &&& 500_000_000 <= self.max_timeout@ <= time::now_max()
        &&& (self.last_rtt matches Some(r) ==> r@ <= time::now_max())
    }

//@fn iroh-relay/src/ping_tracker.rs PingTracker::new props=C14 ret=r
//@| ensures r.inner is None, r.last_rtt is None, r.max_timeout == max_timeout
//@end

//@fn iroh-relay/src/ping_tracker.rs PingTracker::new_ping props=C14 ret=r
//@| requires old(self).wf()
//@| ensures
//@|     final(self).wf(),
//@|     final(self).inner matches Some(p) && p.data == r && p.deadline@ == p.sent_at@ + ping_timeout_spec(*old(self)),
//@|     final(self).last_rtt == old(self).last_rtt, final(self).max_timeout == old(self).max_timeout,
//@end

//@fn iroh-relay/src/ping_tracker.rs PingTracker::new_ping_with_timeout props=C14 ret=r
//@| requires timeout@ <= time::now_max()
//@| ensures
//@|     // whatever was tracked before is forgotten: only this ping counts from now on
//@|     final(self).inner matches Some(p) && p.data == r && p.deadline@ == p.sent_at@ + timeout@,
//@|     final(self).last_rtt == old(self).last_rtt, final(self).max_timeout == old(self).max_timeout,
//@ins before 1
//@- let ping_data = rand::random();
//@| broadcast use time::time_axioms;
//@end

//@fn iroh-relay/src/ping_tracker.rs PingTracker::pong_received props=C14 letchains
//@| requires old(self).wf()
//@| ensures
//@|     final(self).wf(),
//@|     // a pong for the tracked ping completes it and records a round trip ...
//@|     (old(self).inner matches Some(p) && p.data@ == data@) ==> final(self).inner is None && final(self).last_rtt is Some
//@|         && final(self).max_timeout == old(self).max_timeout,
//@|     // ... any other pong (older ping, wrong data, nothing outstanding) changes nothing at all
//@|     !(old(self).inner matches Some(p) && p.data@ == data@) ==> *final(self) == *old(self),
//@rwx R11 *
//@- \b(\w+)\.data == data\b
//@+ array8_eq(&\1.data, &data)
//@end

//@fn iroh-relay/src/ping_tracker.rs PingTracker::ping_timeout props=C14 ret=r
//@| requires self.wf()
//@| ensures r@ == ping_timeout_spec(*self)
//@rwx A3 *
//@- \.map\(\|(\w+)\| (.*)\)\n
//@+ .map(|\1: Duration| -> (o: Duration) requires \1@ <= time::now_max(), 500_000_000 <= self.max_timeout@ ensures o@ == clamp3(\1@, self.max_timeout@) { broadcast use time::time_axioms; \2 })\n
//@ins before 1
//@- self.last_rtt
//@| broadcast use time::time_axioms;
//@end

//@fn iroh-relay/src/ping_tracker.rs PingTracker::timeout props=C14 ret=r
//@| ensures
//@|     // it returns only for an outstanding ping, only once the clock reached THAT ping's deadline, and forgets it
//@|     old(self).inner matches Some(p) && time_fns::clock_reached(p.deadline@) && final(self).inner is None,
//@|     final(self).last_rtt == old(self).last_rtt, final(self).max_timeout == old(self).max_timeout,
//@rw R13 1
//@- std::future::pending().await
//@+ future_pending().await
//@rw D1 1
//@- time::sleep_until(deadline).await;
//@+ time_fns::sleep_until(deadline).await;
//@end
}

pub open spec fn ping_timeout_spec(t: PingTracker) -> int {
    match t.last_rtt { None => t.max_timeout@, Some(r) => clamp3(r@, t.max_timeout@) }
}

// [u8; 8] == [u8; 8] (rule R11: array equality is element-wise equality)
#[verifier::external_body]
pub fn array8_eq(a: &[u8; 8], b: &[u8; 8]) -> (r: bool) ensures r == (a@ == b@) { a == b }

// ---- property-level lemmas over the contracts
// deadline after a measured round trip: three times it, clamped to [500 ms, max_timeout]
pub proof fn lemma_deadline_is_clamped_triple(t: PingTracker, rtt: Duration)  // [C14]
    requires t.wf(), t.last_rtt == Some(rtt)
    ensures
        500_000_000 <= ping_timeout_spec(t) <= t.max_timeout@,
        500_000_000 <= 3 * rtt@ <= t.max_timeout@ ==> ping_timeout_spec(t) == 3 * rtt@,
{
}
} // verus!
fn main() {}
