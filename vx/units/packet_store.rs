//@unit packet_store props=C37
// C37 (store part) — the DNS server keeps the newest packet per key: the Upsert arm of the store actor.
use vstd::prelude::*;
use vstd::std_specs::cmp::OrdSpec;
macro_rules! trace { ($($t:tt)*) => {}; }
verus! {
//@include shims/std_wide.rs
pub struct AnyError;
pub struct RedbError;
pub type Result<T> = core::result::Result<T, AnyError>;
// n0_error::StdResultExt::anyerr: converts the error type, keeps Ok/Err and the Ok value
pub trait StdResultExt<T> { fn anyerr(self) -> (r: Result<T>); }
impl<T> StdResultExt<T> for core::result::Result<T, RedbError> {
    #[verifier::external_body]
    fn anyerr(self) -> (r: Result<T>)
        ensures r is Ok == self is Ok, self matches Ok(v) ==> r == Ok::<T, AnyError>(v)
    { unimplemented!() }
}

// ---- pkarr types: contracts proved in unit signed_packet (same source functions)
pub struct SignedPacket { pub key: Seq<u8>, pub ts: u64, pub payload: Seq<u8> }
// (timestamp, payload) lexicographic order; unit signed_packet proves more_recent_than computes it and that it is a strict total order
pub uninterp spec fn newer(a: SignedPacket, b: SignedPacket) -> bool;
#[derive(Clone, Copy)]
pub struct Timestamp(pub u64);
//@include shims/timestamp_cmp.rs
impl Timestamp {
    #[verifier::external_body]
    pub fn to_be_bytes(self) -> (r: [u8; 8]) ensures r@ == be8(self.0) { unimplemented!() }
}
pub uninterp spec fn be8(x: u64) -> Seq<u8>;
impl SignedPacket {
    #[verifier::external_body]
    pub fn more_recent_than(&self, other: &SignedPacket) -> (r: bool) ensures r == newer(*self, *other) { unimplemented!() }
    #[verifier::external_body]
    pub fn timestamp(&self) -> (r: Timestamp) ensures r.0 == self.ts { unimplemented!() }
}
pub struct PublicKeyBytes { pub b: [u8; 32] }
impl PublicKeyBytes {
    #[verifier::external_body]
    pub fn from_signed_packet(packet: &SignedPacket) -> (r: PublicKeyBytes) ensures r.b@ == packet.key { unimplemented!() }
    #[verifier::external_body]
    pub fn as_bytes(&self) -> (r: &[u8; 32]) ensures r@ == self.b@ { unimplemented!() }
}

// ---- redb tables as ghost maps (dependency contracts): one row per key / a set of (timestamp bytes, key) pairs
#[verifier::external_body]
pub struct PacketTable { t: () }
impl View for PacketTable { type V = Map<Seq<u8>, SignedPacket>; uninterp spec fn view(&self) -> Map<Seq<u8>, SignedPacket>; }
#[verifier::external_body]
pub struct TimeIndex { t: () }
impl View for TimeIndex { type V = Set<(Seq<u8>, Seq<u8>)>; uninterp spec fn view(&self) -> Set<(Seq<u8>, Seq<u8>)>; }
pub struct Tables { pub signed_packets: PacketTable, pub update_time: TimeIndex }
// stored bytes <-> packet (serialize/deserialize are inverse on what the server stores)
pub uninterp spec fn decodes_to(v: Seq<u8>, p: SignedPacket) -> bool;
pub broadcast axiom fn decodes_functional(v: Seq<u8>, p: SignedPacket, q: SignedPacket)
    requires #[trigger] decodes_to(v, p), #[trigger] decodes_to(v, q)
    ensures p == q;
#[verifier::external_body]
pub fn serialize(packet: &SignedPacket) -> (r: Vec<u8>) ensures decodes_to(r@, *packet) { unimplemented!() }
#[verifier::external_body]
pub fn get_packet(table: &PacketTable, key: &PublicKeyBytes) -> (r: Result<Option<SignedPacket>>)
    ensures r matches Ok(o) ==> o == (if table@.contains_key(key.b@) { Some(table@[key.b@]) } else { None::<SignedPacket> })
{ unimplemented!() }
pub struct Old;
impl PacketTable {
    #[verifier::external_body]
    pub fn insert(&mut self, key: &[u8; 32], value: &[u8]) -> (r: core::result::Result<Option<Old>, RedbError>)
        ensures r is Ok ==> exists|p: SignedPacket| #[trigger] decodes_to(value@, p) && final(self)@ == old(self)@.insert(key@, p),
                r is Err ==> final(self)@ == old(self)@
    { unimplemented!() }
}
impl TimeIndex {
    #[verifier::external_body]
    pub fn insert(&mut self, ts: &[u8; 8], key: &[u8; 32]) -> (r: core::result::Result<bool, RedbError>)
        ensures r is Ok ==> final(self)@ == old(self)@.insert((ts@, key@)), r is Err ==> final(self)@ == old(self)@
    { unimplemented!() }
    #[verifier::external_body]
    pub fn remove(&mut self, ts: &[u8; 8], key: &[u8; 32]) -> (r: core::result::Result<bool, RedbError>)
        ensures r is Ok ==> final(self)@ == old(self)@.remove((ts@, key@)), r is Err ==> final(self)@ == old(self)@
    { unimplemented!() }
}
#[verifier::external_body]
pub fn vec_as_slice(v: &Vec<u8>) -> (r: &[u8]) ensures r@ == v@ { &v[..] }

pub mod oneshot {
    use vstd::prelude::*;
    #[verifier::external_body]
    #[verifier::reject_recursive_types(T)]
    pub struct Sender<T> { t: core::marker::PhantomData<T> }
}
// the answer the publisher receives (at most once: send consumes the sender)
pub uninterp spec fn replied(s: oneshot::Sender<bool>, v: bool) -> bool;
impl oneshot::Sender<bool> {
    #[verifier::external_body]
    pub fn send(self, v: bool) -> (r: core::result::Result<(), bool>) ensures replied(self, v) { unimplemented!() }
}
pub struct Counter;
impl Counter { #[verifier::external_body] pub fn inc(&self) { } }
pub struct Metrics { pub store_packets_updated: Counter, pub store_packets_inserted: Counter }
pub struct Actor { pub metrics: std::sync::Arc<Metrics> }

// what the property demands of one publish
pub open spec fn upsert_spec(before: Tables, after: Tables, packet: SignedPacket, res: oneshot::Sender<bool>) -> bool {
    let k = packet.key;
    if before.signed_packets@.contains_key(k) && newer(before.signed_packets@[k], packet) {
        // the stored packet is more recent: nothing changes, "no update" is reported
        &&& after.signed_packets@ == before.signed_packets@
        &&& after.update_time@ == before.update_time@
        &&& replied(res, false)
    } else {
        // the published packet becomes the stored one (and only this key's row changes), "update" is reported,
        // and the time index moves this key from the old packet's timestamp to the new one's
        &&& after.signed_packets@ == before.signed_packets@.insert(k, packet)
        &&& replied(res, true)
        &&& after.update_time@ == (if before.signed_packets@.contains_key(k) {
                before.update_time@.remove((be8(before.signed_packets@[k].ts), k))
            } else { before.update_time@ }).insert((be8(packet.ts), k))
    }
}

impl Actor {
//@arm iroh-dns-server/src/store/signed_packets.rs Actor::handle_message props=C37 name=upsert_arm
//@- Message::Upsert { packet, res } =>
//@| pub fn upsert_arm(&self, packet: SignedPacket, res: oneshot::Sender<bool>, tables: &mut Tables) -> (r: Result<()>)
//@|     ensures r is Ok ==> upsert_spec(*old(tables), *final(tables), packet, res)
//@tail Ok(())
//@rw R17 1
//@- &value[..]
//@+ vec_as_slice(&value)
//@ins before 1
//@- let value = serialize(&packet);
//@| broadcast use decodes_functional;
//@end
}

// ---- lemma: one publish keeps "the stored packet is a maximum of everything published for the key so far".
// Hypotheses on `newer` are exactly what unit signed_packet proves for more_recent_than's relation
// (lemma_newer_strict_total_order, lemma_newer_negatively_transitive).
pub proof fn lemma_stored_is_maximum(before: Tables, after: Tables, packet: SignedPacket, res: oneshot::Sender<bool>, other: SignedPacket)  // [C37]
    requires
        upsert_spec(before, after, packet, res),
        forall|a: SignedPacket, b: SignedPacket| #[trigger] newer(a, b) ==> !newer(b, a),
        forall|a: SignedPacket, b: SignedPacket, c: SignedPacket| !#[trigger] newer(a, b) && !#[trigger] newer(b, c) ==> !newer(a, c),
        // `other` was published earlier for this key, and the stored packet was a maximum then
        before.signed_packets@.contains_key(packet.key) && !newer(other, before.signed_packets@[packet.key]),
    ensures
        after.signed_packets@.contains_key(packet.key),
        !newer(other, after.signed_packets@[packet.key]),
        !newer(packet, after.signed_packets@[packet.key]),
        // an update is reported exactly when the published packet became the stored one
        newer(before.signed_packets@[packet.key], packet) ==> after.signed_packets@[packet.key] == before.signed_packets@[packet.key] && replied(res, false),
        !newer(before.signed_packets@[packet.key], packet) ==> after.signed_packets@[packet.key] == packet && replied(res, true),
{
    let stored = before.signed_packets@[packet.key];
    if newer(stored, packet) {
    } else {
        assert(!newer(other, stored) && !newer(stored, packet));
        assert(!newer(packet, packet)) by { if newer(packet, packet) { assert(!newer(packet, packet)); } }
    }
}
// first publish for a key: it is stored and reported as an update
pub proof fn lemma_first_publish(before: Tables, after: Tables, packet: SignedPacket, res: oneshot::Sender<bool>)  // [C37]
    requires upsert_spec(before, after, packet, res), !before.signed_packets@.contains_key(packet.key)
    ensures after.signed_packets@[packet.key] == packet, replied(res, true),
            forall|k: Seq<u8>| k != packet.key ==> (after.signed_packets@.contains_key(k) <==> before.signed_packets@.contains_key(k))
{
}
} // verus!
fn main() {}
