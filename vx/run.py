"""VX runner: generate a unit from /repo's working tree, run Verus, classify
every diagnostic as an obligation failure / tool limit, run the vacuity pass,
and return a structured result.  Used by bin/check."""
import hashlib
import json
import os
import re
import shutil
import subprocess
import sys
import time

HERE = os.path.dirname(os.path.abspath(__file__))
sys.path.insert(0, HERE)
import extract  # noqa: E402
import rustlex  # noqa: E402

VERIF = os.path.dirname(HERE)
CACHE = os.path.join(VERIF, '.cache', 'vx')
UNITS = os.path.join(HERE, 'units')
BASELINE = os.path.join(HERE, 'baseline')
MULTI_ERRORS = 12
VERUS_TIMEOUT_S = 600

DEFINITE = [
    ('postcondition not satisfied', 'ensures'),
    ('precondition not satisfied', 'call-requires'),
    ('possible arithmetic underflow/overflow', 'arith'),
    ('possible division by zero', 'arith'),
    ('possible bit shift underflow/overflow', 'arith'),
    ('assertion failed', 'assert'),
    ('requires not satisfied', 'assert'),
    ('unable to prove post-condition of closure', 'closure-ensures'),
    ('invariant not satisfied at end of loop body', 'loop-invariant'),
    ('invariant not satisfied before loop', 'loop-invariant'),
    ('loop invariant not satisfied', 'loop-invariant'),
    ('decreases not satisfied', 'termination'),
    ('could not prove termination', 'termination'),
    ('unreachable', 'panic'),
    ('cannot show invariant holds', 'loop-invariant'),
    ('type invariant', 'type-invariant'),
    ('possible out of bounds', 'panic'),
    ('index out of bounds', 'panic'),
    ('constructed value may fail to meet its declared type invariant', 'type-invariant'),
]
UNDECIDED_PAT = ['rlimit', 'Resource limit', 'timed out', 'solver']

KW_CLAUSE = {'requires', 'ensures', 'decreases', 'returns', 'recommends', 'opens_invariants', 'no_unwind', 'default_ensures', 'invariant', 'invariant_except_break'}
TAG_RE = re.compile(r'//\s*\[(C[0-9]{2,3}(?:\s*,\s*C[0-9]{2,3})*)\]')


def unit_path(name):
    return os.path.join(UNITS, name + '.rs')


def _unit_headers():
    res = {}
    for fn in sorted(os.listdir(UNITS)):
        if not fn.endswith('.rs'):
            continue
        with open(os.path.join(UNITS, fn)) as f:
            for ln in f:
                if ln.startswith('//@unit'):
                    w = ln.split()
                    res[w[1]] = extract.parse_opts(w[2:])
                    break
    return res


def list_units(include_alternatives=False):
    """primary units only (unless asked otherwise): name -> property ids"""
    return {u: [p for p in o.get('props', '').split(',') if p] for u, o in _unit_headers().items() if include_alternatives or not o.get('alt_of')}


def alternatives_of(unit):
    """Alternative proof units of `unit`: same property contract, different trusted linking of the mechanism.
    The family holds if ANY member verifies; it is violated if none verifies and one fails definitely."""
    return [u for u, o in _unit_headers().items() if o.get('alt_of') == unit]


class FnInfo:
    def __init__(self):
        self.name = None
        self.start = self.end = None      # generated lines
        self.body_open_off = None         # byte offset of `{`
        self.mode = 'exec'
        self.external = False
        self.props = []
        self.clauses = []                 # ensures clauses: dict(idx,start,end,text,props)
        self.requires = []
        self.loops = 0
        self.region = None
        self.has_body = False
        self.is_const = False


def analyse_generated(text, regions, unit_props):
    """Find all functions of the generated file with their contract clauses."""
    toks = rustlex.lex(text)
    items = rustlex.parse_items(toks, text, 0, len(toks))
    lines = text.split('\n')
    fns = []

    def tags_in(a, b):
        ps = []
        for ln in lines[a - 1:b]:
            for m in TAG_RE.finditer(ln):
                ps += [x.strip() for x in m.group(1).split(',')]
        return ps

    def walk(its, owner, ext=False):
        for it in its:
            if it.kind == 'fn' or (it.kind in ('const', 'static') and it.open is not None and 'exec' in [toks[x].text for x in range(it.head, it.kw)]):
                # (an `exec const X: T ensures .. { body }` carries checked obligations like a function: rule R14)
                fi = FnInfo()
                fi.is_const = it.kind != 'fn'
                fi.name = (owner + '::' if owner else '') + it.name
                fi.start = rustlex.line_of(text, toks[it.head].start)
                fi.end = rustlex.line_of(text, toks[it.last].end)
                fi.has_body = it.open is not None
                fi.body_open_off = toks[it.open].start if it.open is not None else None
                if 'spec' in it.mods:
                    fi.mode = 'spec'
                elif 'proof' in it.mods:
                    fi.mode = 'proof'
                attrs = ' '.join(it.attrs)
                fi.external = ext or 'verifier::external' in attrs
                for r in regions:
                    if r.kind in ('fn', 'item') and r.gen_start <= fi.start and fi.end <= r.gen_end and (r.kind == 'fn' or fi.is_const):
                        fi.region = r
                hdr_end = rustlex.line_of(text, toks[it.open].start) if it.open is not None else fi.end
                if fi.region is not None and fi.region.info.get('props'):
                    fi.props = [p for p in fi.region.info['props'].split(',') if p]
                else:
                    tp = tags_in(fi.start, hdr_end)
                    fi.props = tp if tp else list(unit_props)
                # contract clauses
                if it.open is not None:
                    i = it.kw
                    cur = None
                    k = i
                    start_tok = None
                    depth_guard = it.open
                    clauses = []
                    while k < depth_guard:
                        t = toks[k]
                        if t.kind == 'punct' and t.text in '([{':
                            if cur is not None and start_tok is None:
                                start_tok = k
                            k = t.match + 1
                            continue
                        if t.kind == 'ident' and t.text in ('forall', 'exists', 'choose'):
                            # skip the binder list `|x: T, y: U|`
                            k2 = k + 1
                            while k2 < depth_guard and toks[k2].kind in rustlex.SIG:
                                k2 += 1
                            if k2 < depth_guard and toks[k2].text == '|':
                                k3 = k2 + 1
                                while k3 < depth_guard and toks[k3].text != '|':
                                    if toks[k3].kind == 'punct' and toks[k3].text in '([{':
                                        k3 = toks[k3].match
                                    k3 += 1
                                if cur is not None and start_tok is None:
                                    start_tok = k
                                k = k3 + 1
                                continue
                        if t.kind == 'ident' and t.text in KW_CLAUSE:
                            if cur is not None and start_tok is not None:
                                clauses.append((cur, start_tok, k - 1))
                            cur = t.text
                            start_tok = None
                            k += 1
                            continue
                        if cur is not None:
                            if t.kind == 'punct' and t.text == ',':
                                if start_tok is not None:
                                    clauses.append((cur, start_tok, k - 1))
                                start_tok = None
                            elif t.kind not in rustlex.SIG and start_tok is None:
                                start_tok = k
                        k += 1
                    if cur is not None and start_tok is not None:
                        clauses.append((cur, start_tok, depth_guard - 1))
                    idx = {'ensures': 0, 'requires': 0}
                    for (kw, a, b) in clauses:
                        # trim trailing insignificant tokens
                        while b > a and toks[b].kind in rustlex.SIG:
                            b -= 1
                        la = rustlex.line_of(text, toks[a].start)
                        lb = rustlex.line_of(text, toks[b].end)
                        ctext = ' '.join(text[toks[a].start:toks[b].end].split())
                        if kw == 'ensures':
                            idx['ensures'] += 1
                            # a tag may follow the clause on its last line
                            tp = tags_in(la, lb)
                            fi.clauses.append(dict(idx=idx['ensures'], start=la, end=lb, text=ctext,
                                                   props=tp if tp else fi.props))
                        elif kw == 'requires':
                            idx['requires'] += 1
                            tp = tags_in(la, lb)
                            fi.requires.append(dict(idx=idx['requires'], start=la, end=lb, text=ctext, props=tp))
                    # loops with invariants inside the body
                    k = it.open
                    while k < it.close:
                        t = toks[k]
                        if t.kind == 'ident' and t.text in ('invariant', 'invariant_except_break'):
                            fi.loops += 1
                        k += 1
                fns.append(fi)
            if it.children:
                own = owner
                if it.kind == 'impl':
                    tr, ty = rustlex.impl_parts(it.header)
                    own = rustlex.base_name(ty) or ty
                    if tr:
                        own = rustlex.base_name(tr) + '@' + own
                elif it.kind == 'mod':
                    own = (owner + '::' if owner else '') + it.name
                elif it.kind == 'trait':
                    own = it.name
                walk(it.children, own, ext or 'verifier::external' in ' '.join(it.attrs))

    walk(items, '')
    return fns


def obligations_of(fi):
    """Obligation ids generated for one verified function."""
    obs = []
    base = fi.name
    if fi.mode == 'proof':
        obs.append(dict(id=f'{base}/lemma-body', props=fi.props, kind='lemma'))
    else:
        obs.append(dict(id=f'{base}/safety', props=fi.props, kind='safety',
                        text='arithmetic in range, no reachable panic, every callee precondition holds'))
    for c in fi.clauses:
        obs.append(dict(id=f'{base}/ensures#{c["idx"]}', props=c['props'], kind='ensures', text=c['text']))
    for i in range(fi.loops):
        obs.append(dict(id=f'{base}/loop#{i + 1}/invariant', props=fi.props, kind='loop-invariant'))
    return obs


def scan_trusted(text, regions):
    """Mechanical scan for everything that is assumed rather than proved."""
    lines = text.split('\n')
    trusted = []
    inside_violation = []
    pat = re.compile(r'external_body|assume_specification|\bassume\s*\(|\badmit\s*\(|\buninterp\b|verifier::external\b|verifier::external_fn_specification|\baxiom\b|exec_allows_no_decreases_clause|accept_recursive_types|external_type_specification')
    for i, ln in enumerate(lines, 1):
        code = ln.split('//')[0]
        m = pat.search(code)
        if not m:
            continue
        what = m.group(0).strip('( ').strip()
        # name: look ahead for the item this attribute/keyword belongs to
        name = None
        for j in range(i - 1, min(i + 6, len(lines))):
            mm = re.search(r'\b(fn|struct|enum|type|trait)\s+([A-Za-z_][A-Za-z0-9_]*)', lines[j])
            if what == 'assume_specification':
                mm2 = re.search(r'assume_specification[^\[]*\[\s*([^\]]+)\]', lines[j])
                if mm2:
                    name = mm2.group(1).strip()
                    break
            if mm:
                name = mm.group(2)
                break
        entry = f'{what}: {name or ln.strip()[:80]} (generated line {i})'
        trusted.append(entry)
        for r in regions:
            if r.kind == 'fn' and r.gen_start <= i <= r.gen_end and what in ('external_body', 'assume', 'admit', 'verifier::external'):
                inside_violation.append(entry)
    return trusted, inside_violation


def run_verus(path, extra=None, timeout=VERUS_TIMEOUT_S):
    cmd = ['verus', '--edition', '2024', os.path.basename(path), '--output-json', '--time',
           '--error-format=json'] + (extra or [])
    t0 = time.time()
    try:
        p = subprocess.run(cmd, cwd=os.path.dirname(path), capture_output=True, text=True, timeout=timeout)
    except subprocess.TimeoutExpired:
        return dict(timeout=True, cmd=' '.join(cmd), wall=time.time() - t0)
    res = dict(timeout=False, cmd=' '.join(cmd), wall=time.time() - t0, rc=p.returncode)
    try:
        res['json'] = json.loads(p.stdout)
    except Exception:
        res['json'] = None
        res['stdout'] = p.stdout[-4000:]
    diags = []
    other = []
    for ln in p.stderr.split('\n'):
        ln = ln.strip()
        if not ln:
            continue
        if ln.startswith('{'):
            try:
                diags.append(json.loads(ln))
                continue
            except Exception:
                pass
        other.append(ln)
    res['diags'] = diags
    res['stderr_other'] = other[-40:]
    return res


def classify(diag):
    msg = diag.get('message', '')
    for pat, kind in DEFINITE:
        if pat in msg:
            return kind
    return None


def fn_at(fns, line):
    best = None
    for f in fns:
        if f.start <= line <= f.end:
            if best is None or (f.end - f.start) < (best.end - best.start):
                best = f
    return best


def breakdown(js):
    out = []
    try:
        for m in js['times-ms']['smt']['smt-run-module-times']:
            for f in m.get('function-breakdown', []):
                out.append(f)
    except Exception:
        pass
    return out


MISSING_METHOD = re.compile(r"no (?:method|function or associated item|variant or associated item) named `(\w+)` found for (?:struct|enum|reference|mutable reference|type) `&?(?:mut )?(?:[\w:]*::)?(\w+)")
MISSING_FN = re.compile(r"cannot find (?:function `(\w+)`|value `([a-z_]\w*)`) in this scope")
MISSING_VALUE = re.compile(r"cannot find value `([A-Z][A-Z0-9_]*)` in this scope")


def find_missing_callees(diags, regions):
    """A changed function may call a helper that did not exist when the unit was written.  If rustc reports an
    unknown method/function and the unit's source files define it, return (owner, fn, relpath) so that it is
    extracted verbatim (with no contract: callers then know nothing about its result)."""
    files = sorted({r.info['src_file'] for r in regions if r.kind == 'fn'})
    # items emitted under another name (`name=`): emitted -> (source name, file)
    alias = {r.info.get('emitted_name'): (r.info.get('source_name'), r.info['src_file']) for r in regions
             if r.kind == 'item' and r.info.get('emitted_name') != r.info.get('source_name')}
    out = []
    for d in diags:
        if d.get('level') != 'error':
            continue
        msg = d.get('message', '')
        m = MISSING_METHOD.search(msg)
        owner, fname = (m.group(2), m.group(1)) if m else (None, None)
        if not m:
            m3 = MISSING_VALUE.search(msg)
            if m3:
                # a constant introduced by the change: extract its definition verbatim
                found_const = False
                for rel in files:
                    try:
                        extract.find_item(extract.load_source(rel), 'const', m3.group(1))
                        ent = ('#const', m3.group(1), rel, '')
                        if ent not in out:
                            out.append(ent)
                        found_const = True
                        break
                    except extract.LostAnchor:
                        continue
                if found_const:
                    continue
                # not a constant: a helper function used as a value (`.map(helper)`, `.find_map(helper)`)
                owner, fname = '', m3.group(1)
            else:
                m2 = MISSING_FN.search(msg)
                if not m2:
                    continue
                owner, fname = '', (m2.group(1) or m2.group(2))
        src_owner = owner
        search = files
        if owner in alias:
            src_owner, f0 = alias[owner]
            search = [f0] + [f for f in files if f != f0]
        for rel in search:
            try:
                src = extract.load_source(rel)
                extract.find_fn(src, (src_owner + '::' if src_owner else '') + fname)
                ent = (owner, fname, rel, src_owner)
                if ent not in out:
                    out.append(ent)
                break
            except extract.LostAnchor:
                continue
    return out


def run_unit(name, tier='quick', keep=False, rebaseline=False):
    """Returns a result dict; result['status'] in ok | failed | undecided."""
    t0 = time.time()
    res = dict(unit=name, status='undecided', reason=None, failures=[], obligations=[], discharged=[],
               trusted_base=[], functions=[], rewrites=[], solver_ms={}, verus_cmds=[], vacuity={},
               stability=None)
    work = os.path.join(CACHE, f'{name}.{os.getpid()}')
    os.makedirs(work, exist_ok=True)
    try:
        extra_tail = ''
        auto = []
        for _round in range(4):
            try:
                text, regions, log, unit = extract.generate(unit_path(name), extra_tail or None)
            except extract.LostAnchor as e:
                res['reason'] = f'lost anchor: {e}'
                return res
            except (extract.UnitError, rustlex.LexError) as e:
                res['reason'] = f'unit error: {e}'
                return res
            if _round == 3:
                break
            # quick front-end probe: does the generated file name callees that are not in the unit?
            probe = os.path.join(work, name + '.rs')
            with open(probe, 'w') as f:
                f.write(text)
            rp = run_verus(probe, ['--no-verify'])
            missing = find_missing_callees(rp.get('diags', []), regions)
            missing = [m for m in missing if m not in auto]
            if not missing:
                break
            for (owner, fname, relpath, src_owner) in missing:
                auto.append((owner, fname, relpath, src_owner))
                if owner == '#const':
                    extra_tail += f'\n//@item {relpath} const {fname} pub execconst selfvalue\n'
                elif owner:
                    extra_tail += f'\nimpl {owner} {{\n//@fn {relpath} {src_owner}::{fname}\n//@end\n}}\n'
                else:
                    extra_tail += f'\n//@fn {relpath} {fname}\n//@end\n'
        res['auto_extracted'] = [f'{o + "::" if o and o != "#const" else ""}{f} ({r})' for (o, f, r, _s) in auto]
        res['props'] = unit['props']
        res['rewrites'] = log
        gen = os.path.join(work, name + '.rs')
        with open(gen, 'w') as f:
            f.write(text)
        res['generated'] = gen
        res['generated_sha256'] = hashlib.sha256(text.encode()).hexdigest()
        glines = text.split('\n')
        try:
            fns = analyse_generated(text, regions, unit['props'])
        except rustlex.LexError as e:
            res['reason'] = f'cannot analyse generated file: {e}'
            return res
        trusted, inside = scan_trusted(text, regions)
        res['trusted_base'] = trusted
        if inside:
            res['reason'] = 'assumption inside an extracted function body: ' + '; '.join(inside)
            return res
        verif_fns = [f for f in fns if f.has_body and not f.external and f.mode in ('exec', 'proof') and f.name != 'main']
        for r in regions:
            info = r.to_json()
            res['functions'].append(info)
        all_obs = []
        for f in verif_fns:
            for o in obligations_of(f):
                o['fn'] = f.name
                o['extracted'] = f.region is not None
                if f.region is not None:
                    o['src'] = f'{f.region.info["src_file"]}:{f.region.info["src_start"]}-{f.region.info["src_end"]}'
                all_obs.append(o)
        res['obligations'] = all_obs
        if not all_obs:
            res['reason'] = 'unit generates no obligations'
            return res
        # ---- main pass
        r = run_verus(gen, ['--multiple-errors', str(MULTI_ERRORS)])
        res['verus_cmds'].append(r['cmd'])
        if r.get('timeout'):
            res['reason'] = f'verus timed out after {VERUS_TIMEOUT_S}s'
            return res
        js = r.get('json')
        if js is None:
            res['reason'] = 'verus produced no JSON: ' + ' | '.join(r.get('stderr_other', [])[-5:])
            return res
        vr = js.get('verification-results', {})
        res['verus_summary'] = vr
        bd = breakdown(js)
        for f in bd:
            res['solver_ms'][f['function'].split('::', 1)[-1]] = f.get('time', 0)
        res['solver_total_ms'] = js.get('times-ms', {}).get('smt', {}).get('total')
        errors = [d for d in r['diags'] if d.get('level') == 'error' and 'aborting due to' not in d.get('message', '')]
        if vr.get('encountered-vir-error') or (not vr and errors):
            res['reason'] = 'verus front-end error: ' + ' | '.join(d.get('message', '') for d in errors[:3])
            res['tool_output'] = [d.get('rendered', '') for d in errors[:6]]
            return res
        failures = []
        undecided = []
        for d in errors:
            kind = classify(d)
            prim = [s for s in d.get('spans', []) if s.get('is_primary')]
            sec = [s for s in d.get('spans', []) if not s.get('is_primary')]
            if kind is None:
                undecided.append(d)
                continue
            if not prim:
                undecided.append(d)
                continue
            pl = prim[0]['line_start']
            f = None
            ob = None
            props = None
            clause_text = None
            callee = None
            if kind == 'ensures':
                # primary span = the failed clause; secondary = end of body
                f = fn_at(fns, pl)
                # some versions put the clause as secondary
                cand_lines = [pl] + [s['line_start'] for s in sec]
                if f is not None:
                    for cl in cand_lines:
                        for c in f.clauses:
                            if c['start'] <= cl <= c['end']:
                                ob = f'{f.name}/ensures#{c["idx"]}'
                                props = c['props']
                                clause_text = c['text']
                                break
                        if ob:
                            break
                if f is None or ob is None:
                    # postcondition span outside a known function (e.g. trait) -> try secondary
                    for s in sec:
                        f2 = fn_at(fns, s['line_start'])
                        if f2 is not None:
                            f = f2
                    if f is not None and ob is None:
                        ob = f'{f.name}/safety'
                        props = f.props
            else:
                f = fn_at(fns, pl)
                if f is not None:
                    if kind == 'loop-invariant':
                        ob = f'{f.name}/loop-invariant'
                    elif f.mode == 'proof':
                        ob = f'{f.name}/lemma-body'
                    else:
                        ob = f'{f.name}/safety'
                    props = f.props
                    if kind == 'call-requires':
                        for s in sec:
                            g = fn_at(fns, s['line_start'])
                            if g is not None:
                                callee = g.name
                                for c in g.requires:
                                    if c['start'] <= s['line_start'] <= c['end']:
                                        clause_text = c['text']
                                        if c['props']:
                                            props = c['props']
                            else:
                                # assume_specification or trait method: look for a tag on the line itself
                                mm = TAG_RE.search(glines[s['line_start'] - 1]) if s['line_start'] - 1 < len(glines) else None
                                if mm:
                                    props = [x.strip() for x in mm.group(1).split(',')]
                                clause_text = clause_text or glines[s['line_start'] - 1].strip()
            if f is None or ob is None:
                undecided.append(d)
                continue
            if f.region is not None and f.region.info.get('match_guards_left'):
                # known imprecision of the installed Verus (probed): a guarded match arm that mutates the matched place
                # loses the frame; a failure in such a function is not trusted as a violation
                d = dict(d, message='(function contains a match guard that rule R29 could not desugar: known Verus imprecision) ' + d.get('message', ''))
                undecided.append(d)
                continue
            failures.append(dict(obligation=ob, fn=f.name, kind=kind, message=d.get('message'), props=props or f.props,
                                 gen_line=pl, gen_text=glines[pl - 1].strip() if pl - 1 < len(glines) else '',
                                 clause=clause_text, callee=callee, rendered=d.get('rendered', ''),
                                 src=(f'{f.region.info["src_file"]}:{f.region.info["src_start"]}-{f.region.info["src_end"]}'
                                      if f.region is not None else f'unit template {name}.rs'),
                                 extracted=f.region is not None))
        res['failures'] = failures
        failed_fns = set(x['fn'] for x in failures)
        n_failed_bd = sum(1 for f in bd if not f.get('success', True))
        if undecided:
            res['reason'] = 'diagnostics that are not definite obligation failures: ' + ' | '.join(d.get('message', '')[:200] for d in undecided[:4])
            res['tool_output'] = [d.get('rendered', '') for d in undecided[:6]]
            return res
        if n_failed_bd != len(failed_fns):
            res['reason'] = f'verus reports {n_failed_bd} failed function(s) but {len(failed_fns)} could be attributed'
            return res
        if not failures and not vr.get('success', False):
            res['reason'] = 'verus did not succeed but reported no attributable error: ' + ' | '.join(r.get('stderr_other', [])[-5:])
            return res
        # discharged: every obligation of a function without failures; in failing functions the
        # obligations that were not reported (Verus looked for up to MULTI_ERRORS errors per function)
        failed_ids = set(x['obligation'] for x in failures)
        per_fn_fail = {}
        for x in failures:
            per_fn_fail[x['fn']] = per_fn_fail.get(x['fn'], 0) + 1
        discharged = []
        for o in all_obs:
            if o['fn'] not in failed_fns:
                discharged.append(o['id'])
            elif o['id'] not in failed_ids and per_fn_fail.get(o['fn'], 0) < MULTI_ERRORS and not o['id'].endswith('/safety') \
                    and not o['id'].endswith('/lemma-body') and '/loop#' not in o['id']:
                discharged.append(o['id'])
        res['discharged'] = discharged
        # baseline
        bpath = os.path.join(BASELINE, name + '.json')
        if rebaseline:
            if failures and not unit.get('opts', {}).get('alt_of'):
                res['reason'] = 'cannot rebaseline: unit has failing obligations'
                return res
            os.makedirs(BASELINE, exist_ok=True)
            with open(bpath, 'w') as f:
                json.dump(dict(unit=name, obligations=sorted(o['id'] for o in all_obs),
                               closures={f.name: f.region.info.get('unannotated_closures', 0) for f in fns if f.region is not None}), f, indent=1)
        if not os.path.exists(bpath):
            res['reason'] = 'no baseline recorded for this unit (run bin/vx-rebaseline)'
            return res
        with open(bpath) as f:
            bj = json.load(f)
        base = set(bj['obligations'])
        base_closures = bj.get('closures')
        res['baseline_n'] = len(base)
        # obligations of helpers/consts that this run auto-extracted (a change introduced them) are new by construction
        auto_names = set(f for (_o, f, _r, _s) in auto) | set(f'{s_ or o_}::{f}' for (o_, f, _r, s_) in auto if o_ and o_ != '#const')
        cur_ids = set(o['id'] for o in all_obs if o['fn'] not in auto_names and o['fn'].split('::')[-1] not in set(f for (o_, f, _r, _s) in auto if o_ == '#const'))
        if cur_ids != base:
            res['reason'] = ('obligation set differs from the recorded baseline (unit edited without rebaselining, or a '
                             'function changed shape): missing ' + ', '.join(sorted(base - cur_ids)[:5]) + ' new ' + ', '.join(sorted(cur_ids - base)[:5]))
            # loop-invariant ids are generic; only treat as undecided when nothing failed
            if not failures:
                return res
        # ---- failures that are not trusted as violations (they end in exit 2, never in an alarm): the failing function
        # gained a closure Verus knows nothing about, or calls a helper this run extracted without a contract — in both
        # cases the caller's proof fails for lack of a callee contract, whether or not the behaviour changed
        auto_fn_names = set(f for (o_, f, _r, _s) in auto if o_ != '#const')
        fn_by_name = {f.name: f for f in fns}
        untrusted = []
        for x in failures:
            fi = fn_by_name.get(x['fn'])
            why = None
            if fi is not None and fi.region is not None and base_closures is not None:
                if fi.region.info.get('unannotated_closures', 0) > base_closures.get(fi.name, 0):
                    why = 'the function contains a new closure without a contract'
            if why is None and fi is not None and auto_fn_names:
                ftxt = '\n'.join(glines[fi.start - 1:fi.end])
                called = [h for h in auto_fn_names if re.search(r'\b' + re.escape(h) + r'\s*\(', ftxt)]
                if called:
                    why = 'the function calls ' + ', '.join(sorted(called)) + ', extracted in this run without a contract'
            if why:
                untrusted.append((x, why))
        # (marked, not dropped: bin/check follows an independent bounded second line for the property where one exists,
        #  and otherwise reports the failure — an obligation that held on the reference tree and fails now)
        for (u, w) in untrusted:
            u['lacks_callee_contract'] = w
        res['untrusted_failures'] = [dict(obligation=u['obligation'], why=w) for (u, w) in untrusted]
        for x in failures:
            key = x['obligation']
            x['in_baseline'] = key in base or key.rsplit('/', 1)[0] + '/loop#1/invariant' in base
        if failures:
            res['status'] = 'failed'
            res['reason'] = f'{len(failures)} obligation(s) failed'
            return res
        # ---- vacuity pass: assert(false) at the entry of every verified function must FAIL
        vtext = text
        ins = []
        vac_fns = [f for f in verif_fns if not f.is_const]   # (a const initialiser has no entry condition to be vacuous under)
        for f in vac_fns:
            ins.append((f.body_open_off + 1, ' assert(false); ' if f.mode == 'proof' else ' proof { assert(false); } '))
        for off, s in sorted(ins, key=lambda x: -x[0]):
            vtext = vtext[:off] + s + vtext[off:]
        vgen = os.path.join(work, name + '_vacuity.rs')
        with open(vgen, 'w') as f:
            f.write(vtext)
        rv = run_verus(vgen, ['--multiple-errors', '0'])
        res['verus_cmds'].append(rv['cmd'])
        if rv.get('timeout') or rv.get('json') is None:
            res['reason'] = 'vacuity pass did not complete'
            return res
        vfns = analyse_generated(vtext, [], unit['props'])
        hit = set()
        for d in rv['diags']:
            if d.get('level') == 'error' and 'assertion failed' in d.get('message', ''):
                for s in d.get('spans', []):
                    if s.get('is_primary'):
                        g = fn_at(vfns, s['line_start'])
                        if g is not None:
                            hit.add(g.name)
        vac = [f.name for f in vac_fns if f.name not in hit]
        res['vacuity'] = dict(functions_checked=len(vac_fns), reachable=len(hit), vacuous=vac)
        if vac:
            res['reason'] = 'vacuous contract (function entry unreachable under its requires): ' + ', '.join(vac)
            return res
        # ---- stability re-runs (thorough tier)
        if tier == 'thorough':
            stab = []
            for extra in (['--rlimit', '20', '--smt-option', 'smt.random_seed=7'],
                          ['--rlimit', '5', '--smt-option', 'smt.random_seed=1234']):
                rs = run_verus(gen, ['--multiple-errors', '0'] + extra)
                res['verus_cmds'].append(rs['cmd'])
                ok = (not rs.get('timeout')) and rs.get('json') is not None and rs['json'].get('verification-results', {}).get('success', False)
                stab.append(dict(args=' '.join(extra), ok=ok))
            res['stability'] = stab
            if not all(s['ok'] for s in stab):
                res['reason'] = 'unstable proof: a re-run with a different seed/rlimit did not verify'
                return res
        res['status'] = 'ok'
        res['reason'] = None
        return res
    finally:
        res['wall_s'] = round(time.time() - t0, 2)
        if not keep:
            shutil.rmtree(work, ignore_errors=True)


if __name__ == '__main__':
    import argparse
    ap = argparse.ArgumentParser()
    ap.add_argument('unit')
    ap.add_argument('--tier', default='quick')
    ap.add_argument('--keep', action='store_true')
    ap.add_argument('--rebaseline', action='store_true')
    a = ap.parse_args()
    r = run_unit(a.unit, a.tier, keep=a.keep, rebaseline=a.rebaseline)
    brief = dict(r)
    brief['obligations'] = len(r['obligations'])
    brief['discharged'] = len(r['discharged'])
    brief.pop('functions', None)
    brief.pop('rewrites', None)
    for f in brief.get('failures', []):
        print(f.get('rendered', ''))
        f.pop('rendered', None)
    for t in brief.pop('tool_output', []) or []:
        print(t)
    print(json.dumps(brief, indent=1))
