// ---- std functions vstd has no specification for (std/vstd gap; obvious specs)
pub assume_specification<T: Default> [std::mem::take] (dest: &mut T) -> (r: T)
    ensures r == *old(dest), call_ensures(T::default, (), *final(dest));

pub assume_specification<T: Ord> [std::cmp::min] (a: T, b: T) -> (r: T)
    ensures r == (if a.cmp_spec(&b) == core::cmp::Ordering::Greater { b } else { a });

pub assume_specification<T> [bool::then_some] (b: bool, t: T) -> (r: Option<T>)
    ensures r == if b { Some(t) } else { None::<T> };

pub assume_specification<T: Ord> [std::cmp::max] (a: T, b: T) -> (r: T)
    ensures r == (if a.cmp_spec(&b) == core::cmp::Ordering::Greater { a } else { b });
