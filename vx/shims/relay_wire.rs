// ---- shared wire-level vocabulary of the relay units (included by relay_forward, relay_sink, relay_codec)
pub mod noq_proto {
    use vstd::prelude::*;
    #[derive(Clone, Copy, PartialEq, Eq)]
    pub enum EcnCodepoint { Ect0 = 0b10, Ect1 = 0b01, Ce = 0b11 }
    impl EcnCodepoint {
        #[verifier::external_body]
        pub fn from_bits(x: u8) -> (r: Option<Self>)
            ensures r == (if x == 2 { Some(EcnCodepoint::Ect0) } else if x == 1 { Some(EcnCodepoint::Ect1) } else if x == 3 { Some(EcnCodepoint::Ce) } else { None::<EcnCodepoint> })
        { unimplemented!() }
    }
}
// iroh_base::PublicKey / EndpointId: 32 key bytes
#[derive(Clone, Copy, PartialEq, Eq, Structural)]
pub struct PublicKey { pub b: [u8; 32] }
pub type EndpointId = PublicKey;
impl PublicKey {
    pub const LENGTH: usize = 32;
}
// size in bytes of a datagram batch on the wire: ECN byte, optional 2-byte segment size, contents
pub open spec fn dg_wire_len(d: Datagrams) -> int {
    1 + (if d.segment_size is Some { 2int } else { 0 }) + d.contents@.len()
}
// A packet the receiving connection's sink cannot reject for size or emptiness:
// 1 (frame type) + 32 (sender id) + batch bytes <= MAX_PACKET_SIZE and at least one content byte.
pub open spec fn forwardable(d: Datagrams) -> bool {
    d.contents@.len() > 0 && 1 + 32 + dg_wire_len(d) <= MAX_PACKET_SIZE
}
