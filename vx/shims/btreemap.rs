// ---- trusted shim: std::collections::BTreeMap viewed as Map<K, V> (dependency contract)
pub mod collections {
    use vstd::prelude::*;
    use vstd::std_specs::iter::IteratorSpec;
    #[verifier::external_body]
    #[verifier::reject_recursive_types(K)]
    #[verifier::reject_recursive_types(V)]
    pub struct BTreeMap<K, V> { k: core::marker::PhantomData<(K, V)> }
    impl<K, V> View for BTreeMap<K, V> { type V = Map<K, V>; uninterp spec fn view(&self) -> Map<K, V>; }
    // `es` lists every entry of `m` exactly once
    pub open spec fn entries_of<K, V>(m: Map<K, V>, es: Seq<(K, V)>) -> bool {
        &&& forall|i: int| 0 <= i < es.len() ==> m.contains_key((#[trigger] es[i]).0) && m[es[i].0] == es[i].1
        &&& forall|i: int, j: int| 0 <= i < j < es.len() ==> (#[trigger] es[i]).0 != (#[trigger] es[j]).0
        &&& forall|k: K| m.contains_key(k) ==> exists|i: int| 0 <= i < es.len() && (#[trigger] es[i]).0 == k
    }
    #[verifier::reject_recursive_types(K)]
    #[verifier::reject_recursive_types(V)]
    pub struct Entry<'a, K, V> { pub map: &'a mut BTreeMap<K, V>, pub key: K }
    impl<K, V> BTreeMap<K, V> {
        #[verifier::external_body]
        pub fn entry<'a>(&'a mut self, key: K) -> (r: Entry<'a, K, V>)
            ensures *r.map == *old(self), r.key == key, *final(self) == *final(r.map)
        { unimplemented!() }
        #[verifier::external_body]
        pub fn get(&self, key: &K) -> (r: Option<&V>)
            ensures r == (if self@.contains_key(*key) { Some(&self@[*key]) } else { None::<&V> })
        { unimplemented!() }
        // iteration (rule R21): `m.iter()` is redirected to `m.entries().iter()`: the entries in key order as a slice,
        // whose iterator vstd specifies; binding `(k, v)` in a `for` pattern yields references to key and value
        // exactly as with the real iterator
        #[verifier::external_body]
        pub fn entries<'a>(&'a self) -> (r: &'a Vec<(K, V)>)
            ensures entries_of(self@, r@)
        { unimplemented!() }
        #[verifier::external_body]
        pub fn is_empty(&self) -> (r: bool) ensures r == (self@.len() == 0) { unimplemented!() }
    }
    impl<'a, K, V> Entry<'a, K, V> {
        // returns a reference to the value slot of `key`, inserting `default` first if the key is absent;
        // writes through the reference change exactly that slot
        #[verifier::external_body]
        pub fn or_insert(self, default: V) -> (r: &'a mut V)
            ensures
                *r == (if old(self.map)@.contains_key(self.key) { old(self.map)@[self.key] } else { default }),
                final(self.map)@ == old(self.map)@.insert(self.key, *final(r)),
        { unimplemented!() }
    }
}
use collections::{BTreeMap, entries_of};
