// ---- #[derive(PartialEq, Eq, PartialOrd, Ord)] on `struct Timestamp(u64)`: the derived impls compare the field
impl PartialEq for Timestamp { #[verifier::external_body] fn eq(&self, o: &Self) -> bool { self.0 == o.0 } }
impl vstd::std_specs::cmp::PartialEqSpecImpl for Timestamp {
    open spec fn obeys_eq_spec() -> bool { true }
    open spec fn eq_spec(&self, o: &Self) -> bool { self.0 == o.0 }
}
impl PartialOrd for Timestamp { #[verifier::external_body] fn partial_cmp(&self, o: &Self) -> Option<core::cmp::Ordering> { self.0.partial_cmp(&o.0) } }
impl vstd::std_specs::cmp::PartialOrdSpecImpl for Timestamp {
    open spec fn obeys_partial_cmp_spec() -> bool { true }
    open spec fn partial_cmp_spec(&self, o: &Self) -> Option<core::cmp::Ordering> {
        if self.0 < o.0 { Some(core::cmp::Ordering::Less) } else if self.0 == o.0 { Some(core::cmp::Ordering::Equal) } else { Some(core::cmp::Ordering::Greater) }
    }
}
