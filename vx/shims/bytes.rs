// ---- trusted shim: bytes::Bytes viewed as Seq<u8> (dependency contract)
#[verifier::external_body]
#[verifier::accept_recursive_types]
pub struct Bytes { inner: Vec<u8> }

impl View for Bytes { type V = Seq<u8>; uninterp spec fn view(&self) -> Seq<u8>; }

impl Bytes {
    #[verifier::external_body]
    pub fn len(&self) -> (r: usize) ensures r == self@.len(), r <= isize::MAX { unimplemented!() }   // allocation invariant
    #[verifier::external_body]
    pub fn is_empty(&self) -> (r: bool) ensures r == (self@.len() == 0) { unimplemented!() }
    #[verifier::external_body]
    pub fn split_to(&mut self, at: usize) -> (r: Bytes)
        requires at <= old(self)@.len()   // bytes panics otherwise
        ensures r@ == old(self)@.subrange(0, at as int),
                final(self)@ == old(self)@.subrange(at as int, old(self)@.len() as int)
    { unimplemented!() }
    #[verifier::external_body]
    pub fn clone(&self) -> (r: Bytes) ensures r@ == self@ { unimplemented!() }
}
impl Default for Bytes {
    #[verifier::external_body]
    fn default() -> (r: Bytes) ensures r@ == Seq::<u8>::empty() { unimplemented!() }
}
