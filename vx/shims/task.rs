// ---- trusted shim: core::task::{Poll, Context} (Verus has no specification for them); same shape as std
pub mod task {
    use vstd::prelude::*;
    pub enum Poll<T> { Ready(T), Pending }
    #[verifier::external_body]
    pub struct Context<'a> { c: core::marker::PhantomData<&'a ()> }
    // ghost: has the task's waker been registered with some wake source during this poll?
    pub uninterp spec fn waker_registered(cx: &Context<'_>) -> bool;
}
use task::{Context, Poll};
