// ---- trusted shim: n0_future::time (tokio/std time), viewed as integer nanoseconds.
// Panic conditions of the real operators are their preconditions here.
pub mod time {
    use vstd::prelude::*;
    #[derive(Clone, Copy)]
    #[verifier::external_body]
    pub struct Instant { ns: u128 }
    #[derive(Clone, Copy)]
    #[verifier::external_body]
    pub struct Duration { ns: u128 }
    impl View for Instant { type V = int; uninterp spec fn view(&self) -> int; }
    impl View for Duration { type V = int; uninterp spec fn view(&self) -> int; }

    // std::time::Duration holds u64 seconds + < 1e9 nanoseconds
    pub open spec fn dur_max() -> int { (u64::MAX as int) * 1_000_000_000 + 999_999_999 }
    // std Instant on the supported platforms holds i64 seconds (timespec)
    pub open spec fn inst_max() -> int { (i64::MAX as int) * 1_000_000_000 }
    // ASSUMPTION: the monotonic clock never reads beyond 2^62 ns (~146 years of uptime)
    pub open spec fn now_max() -> int { 0x4000_0000_0000_0000 }

    pub broadcast axiom fn duration_range(d: Duration)
        ensures 0 <= #[trigger] d@ <= dur_max();
    pub broadcast axiom fn instant_range(i: Instant)
        ensures 0 <= #[trigger] i@ <= inst_max();
    pub uninterp spec fn dur_of(ns: int) -> Duration;
    pub uninterp spec fn inst_of(ns: int) -> Instant;
    pub broadcast axiom fn dur_of_view(ns: int)
        requires 0 <= ns <= dur_max()
        ensures (#[trigger] dur_of(ns))@ == ns;
    pub broadcast axiom fn inst_of_view(ns: int)
        requires 0 <= ns <= inst_max()
        ensures (#[trigger] inst_of(ns))@ == ns;
    pub broadcast axiom fn duration_ext(a: Duration, b: Duration)
        ensures #[trigger] a@ == #[trigger] b@ ==> a == b;
    pub broadcast axiom fn instant_ext(a: Instant, b: Instant)
        ensures #[trigger] a@ == #[trigger] b@ ==> a == b;

    impl Instant {
        #[verifier::external_body]
        pub fn now() -> (r: Instant) ensures 0 <= r@ <= now_max() { unimplemented!() }
        #[verifier::external_body]
        pub fn saturating_duration_since(&self, earlier: Instant) -> (r: Duration)
            ensures r@ == (if self@ >= earlier@ { self@ - earlier@ } else { 0 }) { unimplemented!() }
        #[verifier::external_body]
        pub fn duration_since(&self, earlier: Instant) -> (r: Duration)   // tokio: saturating
            ensures r@ == (if self@ >= earlier@ { self@ - earlier@ } else { 0 }) { unimplemented!() }
    }
    impl Duration {
        #[verifier::external_body]
        pub exec const ZERO: Duration ensures Self::ZERO@ == 0 { Duration { ns: 0 } }
        #[verifier::external_body]
        pub fn as_millis(&self) -> (r: u128) ensures r == self@ / 1_000_000 { unimplemented!() }
        #[verifier::external_body]
        pub const fn from_millis(ms: u64) -> (r: Duration) ensures r@ == ms as int * 1_000_000 { Duration { ns: ms as u128 * 1_000_000 } }
        #[verifier::external_body]
        pub const fn from_secs(s: u64) -> (r: Duration) ensures r@ == s as int * 1_000_000_000 { Duration { ns: s as u128 * 1_000_000_000 } }
    }

    impl core::ops::Mul<u32> for Duration {
        type Output = Duration;
        #[verifier::external_body]
        fn mul(self, rhs: u32) -> Duration { unimplemented!() }
    }
    impl vstd::std_specs::ops::MulSpecImpl<u32> for Duration {
        open spec fn obeys_mul_spec() -> bool { true }
        open spec fn mul_req(self, rhs: u32) -> bool { self@ * rhs <= dur_max() }   // std panics on overflow
        open spec fn mul_spec(self, rhs: u32) -> Duration { dur_of(self@ * rhs) }
    }

    impl core::ops::Mul<Duration> for u32 {
        type Output = Duration;
        #[verifier::external_body]
        fn mul(self, rhs: Duration) -> Duration { unimplemented!() }
    }
    impl vstd::std_specs::ops::MulSpecImpl<Duration> for u32 {
        open spec fn obeys_mul_spec() -> bool { true }
        open spec fn mul_req(self, rhs: Duration) -> bool { self * rhs@ <= dur_max() }
        open spec fn mul_spec(self, rhs: Duration) -> Duration { dur_of(self * rhs@) }
    }

    impl core::ops::Add<Duration> for Instant {
        type Output = Instant;
        #[verifier::external_body]
        fn add(self, rhs: Duration) -> Instant { unimplemented!() }
    }
    impl vstd::std_specs::ops::AddSpecImpl<Duration> for Instant {
        open spec fn obeys_add_spec() -> bool { true }
        open spec fn add_req(self, rhs: Duration) -> bool { self@ + rhs@ <= inst_max() }   // std panics on overflow
        open spec fn add_spec(self, rhs: Duration) -> Instant { inst_of(self@ + rhs@) }
    }

    // `Instant += Duration` is rewritten by rule R10 to `i = i + d` (std's impl is literally `*self = *self + other`)

    pub broadcast group time_axioms {
        duration_range, instant_range, duration_ext, instant_ext, dur_of_view, inst_of_view,
    }
}
