// ---- trusted shim: n0_future::time (tokio/std time), viewed as integer nanoseconds.
// Panic conditions of the real operators are their preconditions here.
pub mod time {
    use vstd::prelude::*;
    #[derive(Clone, Copy)]
    #[verifier::external_body]
    pub struct Instant { ns: u128 }
    #[derive(Clone, Copy)]
    #[verifier::external_body]
    pub struct Duration { ns: u128 }
    impl View for Instant { type V = int; uninterp spec fn view(&self) -> int; }
    impl View for Duration { type V = int; uninterp spec fn view(&self) -> int; }

    // std::time::Duration holds u64 seconds + < 1e9 nanoseconds
    pub open spec fn dur_max() -> int { (u64::MAX as int) * 1_000_000_000 + 999_999_999 }
    // std Instant on the supported platforms holds i64 seconds (timespec)
    pub open spec fn inst_max() -> int { (i64::MAX as int) * 1_000_000_000 }
    // ASSUMPTION: the monotonic clock never reads beyond 2^62 ns (~146 years of uptime)
    pub open spec fn now_max() -> int { 0x4000_0000_0000_0000 }

    pub broadcast axiom fn duration_range(d: Duration)
        ensures 0 <= #[trigger] d@ <= dur_max();
    pub broadcast axiom fn instant_range(i: Instant)
        ensures 0 <= #[trigger] i@ <= inst_max();
    pub uninterp spec fn dur_of(ns: int) -> Duration;
    pub uninterp spec fn inst_of(ns: int) -> Instant;
    pub broadcast axiom fn dur_of_view(ns: int)
        requires 0 <= ns <= dur_max()
        ensures (#[trigger] dur_of(ns))@ == ns;
    pub broadcast axiom fn inst_of_view(ns: int)
        requires 0 <= ns <= inst_max()
        ensures (#[trigger] inst_of(ns))@ == ns;
    pub broadcast axiom fn duration_ext(a: Duration, b: Duration)
        ensures #[trigger] a@ == #[trigger] b@ ==> a == b;
    pub broadcast axiom fn instant_ext(a: Instant, b: Instant)
        ensures #[trigger] a@ == #[trigger] b@ ==> a == b;

    impl Instant {
        #[verifier::external_body]
        pub fn now() -> (r: Instant) ensures 0 <= r@ <= now_max() { unimplemented!() }
        #[verifier::external_body]
        pub fn saturating_duration_since(&self, earlier: Instant) -> (r: Duration)
            ensures r@ == (if self@ >= earlier@ { self@ - earlier@ } else { 0 }) { unimplemented!() }
        #[verifier::external_body]
        pub fn duration_since(&self, earlier: Instant) -> (r: Duration)   // tokio: saturating
            ensures r@ == (if self@ >= earlier@ { self@ - earlier@ } else { 0 }) { unimplemented!() }
    }
    impl Duration {
        #[verifier::external_body]
        pub exec const ZERO: Duration ensures Self::ZERO@ == 0 { Duration { ns: 0 } }
        #[verifier::external_body]
        pub fn as_millis(&self) -> (r: u128) ensures r == self@ / 1_000_000 { unimplemented!() }
        #[verifier::external_body]
        pub exec const MAX: Duration ensures Self::MAX@ == dur_max() { Duration { ns: 0 } }
        #[verifier::external_body]
        pub fn is_zero(&self) -> (r: bool) ensures r == (self@ == 0) { unimplemented!() }
        // Ord::min / Ord::max on Duration
        #[verifier::external_body]
        pub fn min(self, o: Duration) -> (r: Duration) ensures r@ == (if o@ < self@ { o@ } else { self@ }) { unimplemented!() }
        #[verifier::external_body]
        pub fn max(self, o: Duration) -> (r: Duration) ensures r@ == (if o@ > self@ { o@ } else { self@ }) { unimplemented!() }
        #[verifier::external_body]
        pub fn saturating_sub(self, o: Duration) -> (r: Duration) ensures r@ == (if self@ >= o@ { self@ - o@ } else { 0 }) { unimplemented!() }
        #[verifier::external_body]
        pub fn saturating_add(self, o: Duration) -> (r: Duration) ensures r@ == (if self@ + o@ <= dur_max() { self@ + o@ } else { dur_max() }) { unimplemented!() }
        #[verifier::external_body]
        pub fn saturating_mul(self, k: u32) -> (r: Duration) ensures r@ == (if self@ * k <= dur_max() { self@ * k } else { dur_max() }) { unimplemented!() }
        #[verifier::external_body]
        pub fn checked_sub(self, o: Duration) -> (r: Option<Duration>) ensures match r { Some(d) => self@ >= o@ && d@ == self@ - o@, None => self@ < o@ } { unimplemented!() }
        #[verifier::external_body]
        pub fn checked_add(self, o: Duration) -> (r: Option<Duration>) ensures match r { Some(d) => self@ + o@ <= dur_max() && d@ == self@ + o@, None => self@ + o@ > dur_max() } { unimplemented!() }
        #[verifier::external_body]
        pub fn checked_mul(self, k: u32) -> (r: Option<Duration>) ensures match r { Some(d) => self@ * k <= dur_max() && d@ == self@ * k, None => self@ * k > dur_max() } { unimplemented!() }
        pub open spec fn spec_from_micros(us: u64) -> Duration { dur_of(us as int * 1_000) }
        #[verifier::external_body]
        #[verifier::when_used_as_spec(spec_from_micros)]
        pub const fn from_micros(us: u64) -> (r: Duration) ensures r == Self::spec_from_micros(us), r@ == us as int * 1_000 { Duration { ns: us as u128 * 1_000 } }
        pub open spec fn spec_from_nanos(n: u64) -> Duration { dur_of(n as int * 1) }
        #[verifier::external_body]
        #[verifier::when_used_as_spec(spec_from_nanos)]
        pub const fn from_nanos(n: u64) -> (r: Duration) ensures r == Self::spec_from_nanos(n), r@ == n as int { Duration { ns: n as u128 } }
        #[verifier::external_body]
        pub fn as_nanos(&self) -> (r: u128) ensures r == self@ { unimplemented!() }
        #[verifier::external_body]
        pub fn as_micros(&self) -> (r: u128) ensures r == self@ / 1_000 { unimplemented!() }
        #[verifier::external_body]
        pub fn as_secs(&self) -> (r: u64) ensures r == self@ / 1_000_000_000 { unimplemented!() }
        pub open spec fn spec_from_millis(ms: u64) -> Duration { dur_of(ms as int * 1_000_000) }
        #[verifier::external_body]
        #[verifier::when_used_as_spec(spec_from_millis)]
        pub const fn from_millis(ms: u64) -> (r: Duration) ensures r == Self::spec_from_millis(ms), r@ == ms as int * 1_000_000 { Duration { ns: ms as u128 * 1_000_000 } }
        pub open spec fn spec_from_secs(s: u64) -> Duration { dur_of(s as int * 1_000_000_000) }
        #[verifier::external_body]
        #[verifier::when_used_as_spec(spec_from_secs)]
        pub const fn from_secs(s: u64) -> (r: Duration) ensures r == Self::spec_from_secs(s), r@ == s as int * 1_000_000_000 { Duration { ns: s as u128 * 1_000_000_000 } }
    }

    impl core::ops::Mul<u32> for Duration {
        type Output = Duration;
        #[verifier::external_body]
        fn mul(self, rhs: u32) -> Duration { unimplemented!() }
    }
    impl vstd::std_specs::ops::MulSpecImpl<u32> for Duration {
        open spec fn obeys_mul_spec() -> bool { true }
        open spec fn mul_req(self, rhs: u32) -> bool { self@ * rhs <= dur_max() }   // std panics on overflow
        open spec fn mul_spec(self, rhs: u32) -> Duration { dur_of(self@ * rhs) }
    }

    impl core::ops::Mul<Duration> for u32 {
        type Output = Duration;
        #[verifier::external_body]
        fn mul(self, rhs: Duration) -> Duration { unimplemented!() }
    }
    impl vstd::std_specs::ops::MulSpecImpl<Duration> for u32 {
        open spec fn obeys_mul_spec() -> bool { true }
        open spec fn mul_req(self, rhs: Duration) -> bool { self * rhs@ <= dur_max() }
        open spec fn mul_spec(self, rhs: Duration) -> Duration { dur_of(self * rhs@) }
    }

    impl core::ops::Add<Duration> for Instant {
        type Output = Instant;
        #[verifier::external_body]
        fn add(self, rhs: Duration) -> Instant { unimplemented!() }
    }
    impl vstd::std_specs::ops::AddSpecImpl<Duration> for Instant {
        open spec fn obeys_add_spec() -> bool { true }
        open spec fn add_req(self, rhs: Duration) -> bool { self@ + rhs@ <= inst_max() }   // std panics on overflow
        open spec fn add_spec(self, rhs: Duration) -> Instant { inst_of(self@ + rhs@) }
    }

    // Duration comparisons (derived Ord: by value)
    impl PartialEq for Duration { #[verifier::external_body] fn eq(&self, o: &Self) -> bool { unimplemented!() } }
    impl vstd::std_specs::cmp::PartialEqSpecImpl for Duration {
        open spec fn obeys_eq_spec() -> bool { true }
        open spec fn eq_spec(&self, o: &Self) -> bool { self@ == o@ }
    }
    impl PartialOrd for Duration { #[verifier::external_body] fn partial_cmp(&self, o: &Self) -> Option<core::cmp::Ordering> { unimplemented!() } }
    impl vstd::std_specs::cmp::PartialOrdSpecImpl for Duration {
        open spec fn obeys_partial_cmp_spec() -> bool { true }
        open spec fn partial_cmp_spec(&self, o: &Self) -> Option<core::cmp::Ordering> {
            if self@ < o@ { Some(core::cmp::Ordering::Less) } else if self@ == o@ { Some(core::cmp::Ordering::Equal) } else { Some(core::cmp::Ordering::Greater) }
        }
    }
    impl PartialEq for Instant { #[verifier::external_body] fn eq(&self, o: &Self) -> bool { unimplemented!() } }
    impl vstd::std_specs::cmp::PartialEqSpecImpl for Instant {
        open spec fn obeys_eq_spec() -> bool { true }
        open spec fn eq_spec(&self, o: &Self) -> bool { self@ == o@ }
    }
    impl PartialOrd for Instant { #[verifier::external_body] fn partial_cmp(&self, o: &Self) -> Option<core::cmp::Ordering> { unimplemented!() } }
    impl vstd::std_specs::cmp::PartialOrdSpecImpl for Instant {
        open spec fn obeys_partial_cmp_spec() -> bool { true }
        open spec fn partial_cmp_spec(&self, o: &Self) -> Option<core::cmp::Ordering> {
            if self@ < o@ { Some(core::cmp::Ordering::Less) } else if self@ == o@ { Some(core::cmp::Ordering::Equal) } else { Some(core::cmp::Ordering::Greater) }
        }
    }
    impl core::ops::Add<Duration> for Duration {
        type Output = Duration;
        #[verifier::external_body]
        fn add(self, rhs: Duration) -> Duration { unimplemented!() }
    }
    impl vstd::std_specs::ops::AddSpecImpl<Duration> for Duration {
        open spec fn obeys_add_spec() -> bool { true }
        open spec fn add_req(self, rhs: Duration) -> bool { self@ + rhs@ <= dur_max() }   // std panics on overflow
        open spec fn add_spec(self, rhs: Duration) -> Duration { dur_of(self@ + rhs@) }
    }
    impl core::ops::Sub<Duration> for Duration {
        type Output = Duration;
        #[verifier::external_body]
        fn sub(self, rhs: Duration) -> Duration { unimplemented!() }
    }
    impl vstd::std_specs::ops::SubSpecImpl<Duration> for Duration {
        open spec fn obeys_sub_spec() -> bool { true }
        open spec fn sub_req(self, rhs: Duration) -> bool { self@ >= rhs@ }   // std panics on underflow
        open spec fn sub_spec(self, rhs: Duration) -> Duration { dur_of(self@ - rhs@) }
    }

    // `Instant += Duration` is rewritten by rule R10 to `i = i + d` (std's impl is literally `*self = *self + other`)

    pub broadcast group time_axioms {
        duration_range, instant_range, duration_ext, instant_ext, dur_of_view, inst_of_view,
    }
}
