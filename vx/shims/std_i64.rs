// ---- std integer functions vstd has no specification for (std/vstd gap; std semantics)
pub open spec fn clamp_i64(x: int) -> int { if x > i64::MAX { i64::MAX as int } else if x < i64::MIN { i64::MIN as int } else { x } }
pub assume_specification [i64::saturating_mul] (a: i64, b: i64) -> (r: i64) ensures r == clamp_i64(a * b);
pub assume_specification [i64::saturating_add] (a: i64, b: i64) -> (r: i64) ensures r == clamp_i64(a + b);
pub assume_specification [i64::saturating_sub] (a: i64, b: i64) -> (r: i64) ensures r == clamp_i64(a - b);
pub assume_specification [i64::saturating_neg] (a: i64) -> (r: i64) ensures r == clamp_i64(-a);
pub assume_specification<T, E> [Result::<T, E>::unwrap_or] (r: Result<T, E>, d: T) -> (o: T)
    ensures o == (match r { Ok(v) => v, Err(_) => d });
