"""VX extractor: builds one Verus file per unit from (a) the unit template under
/verif/vx/units/<unit>.rs (shims, spec functions, lemmas, directives) and (b)
items sliced verbatim out of /repo's *current working tree*.

Directive language (every directive line starts with `//@`):

  //@unit <name> props=C16[,C17...]
  //@fn <relpath> <qual> [props=..] [ret=<name>] [name=<newname>]
  //@| <contract text: requires/ensures/decreases ...>     (rule A1)
  //@loop <k>                                               (rule A2)
  //@| invariant ..., decreases ...
  //@rw <RULE> <n>                                          (rules R*/D*/A3)
  //@- <text to find, verbatim; several lines allowed>
  //@+ <replacement>
  //@rwx <RULE> <n>          same with a python regex in the `-` part
  //@ins after|before <k>                                   (rule A4)
  //@- <pattern; the k-th source line containing it is the anchor>
  //@| <inserted lines>
  //@end
  //@item <relpath> <kind> <Name> [keep=a,b] [derive=Clone,Copy] [name=New]
  //@| <attribute lines placed before the item>              (rule A5)

<qual> is `free_fn`, `Type::method` or `Trait@Type::method`; for items nested in
modules `modname::...` may be prefixed.  A directive that can no longer be
resolved raises LostAnchor (exit 2 in the runner, never a VIOLATION).
"""
import hashlib
import os
import re
import sys

sys.path.insert(0, os.path.dirname(os.path.abspath(__file__)))
import rustlex  # noqa: E402

REPO = os.environ.get('VERIF_REPO', '/repo')


class LostAnchor(Exception):
    pass


class UnitError(Exception):
    pass


_src_cache = {}


def load_source(relpath):
    path = os.path.join(REPO, relpath)
    if path not in _src_cache:
        if not os.path.exists(path):
            raise LostAnchor(f'source file {relpath} not found')
        try:
            _src_cache[path] = rustlex.Source(path)
        except rustlex.LexError as e:
            raise LostAnchor(f'cannot lex {relpath}: {e}')
    return _src_cache[path]


def find_fn(src, qual):
    """Locate a function item.  qual: [mod::]*[Trait@]Type::name | [mod::]*name"""
    trait = None
    parts = qual.split('::')
    fname = parts[-1]
    ty = None
    mods = []
    if len(parts) >= 2:
        owner = parts[-2]
        if '@' in owner:
            trait, owner = owner.split('@', 1)
        if owner[:1].isupper() or '@' in parts[-2] or owner.startswith('&') or owner.startswith('['):
            ty = owner
            mods = parts[:-2]
        else:
            mods = parts[:-1]
    cands = []
    for it in src.walk():
        if it.kind != 'fn' or it.name != fname or it.open is None:
            continue
        if src.is_cfg_test(it):
            continue
        if any(('cfg(' in a and 'wasm_browser' in a and 'not(' not in a) for a in (it.attrs or [])):
            continue   # rule D2: the verified configuration is native; `#[cfg(wasm_browser)]` twins are dropped
        # module path
        p = it.parent
        impl = None
        modpath = []
        while p is not None:
            if p.kind == 'impl' and impl is None:
                impl = p
            elif p.kind == 'mod':
                modpath.insert(0, p.name)
            elif p.kind == 'trait' and impl is None:
                impl = p
            p = p.parent
        if mods and modpath[-len(mods):] != mods:
            continue
        if ty is None:
            if impl is not None:
                continue
        else:
            if impl is None:
                continue
            if impl.kind == 'trait':
                if impl.name != ty:
                    continue
            else:
                itrait, ity = rustlex.impl_parts(impl.header)
                if rustlex.base_name(ity) != ty and ''.join(ity.split()) != ''.join(ty.split()):
                    continue
                if trait is not None:
                    if itrait is None:
                        continue
                    tb = rustlex.base_name(itrait)
                    tnorm = ''.join(itrait.split())
                    if tb != trait and tnorm != ''.join(trait.split()):
                        continue
                elif itrait is not None and trait is None:
                    # inherent requested; accept trait impl only if no inherent candidate exists (handled below)
                    cands.append((1, it, impl))
                    continue
        cands.append((0, it, impl))
    if not cands:
        raise LostAnchor(f'function {qual} not found in {src.path}')
    best = min(c[0] for c in cands)
    cands = [c for c in cands if c[0] == best]
    if len(cands) > 1:
        raise LostAnchor(f'function {qual} is ambiguous in {src.path} ({len(cands)} candidates)')
    return cands[0][1], cands[0][2]


def find_item(src, kind, name):
    cands = []
    parts = name.split('::')
    nm = parts[-1]
    mods = parts[:-1]
    for it in src.walk():
        if it.kind != kind or it.name != nm:
            continue
        if src.is_cfg_test(it):
            continue
        p = it.parent
        modpath = []
        inimpl = None
        while p is not None:
            if p.kind == 'mod':
                modpath.insert(0, p.name)
            if p.kind == 'impl' and inimpl is None:
                inimpl = p
            p = p.parent
        if mods:
            # allow Type::CONST for associated consts
            if inimpl is not None and len(mods) == 1 and rustlex.base_name(rustlex.impl_parts(inimpl.header)[1]) == mods[0]:
                pass
            elif modpath[-len(mods):] != mods:
                continue
        elif inimpl is not None:
            continue
        cands.append(it)
    if not cands:
        raise LostAnchor(f'{kind} {name} not found in {src.path}')
    if len(cands) > 1:
        raise LostAnchor(f'{kind} {name} ambiguous in {src.path}')
    return cands[0]


VIS_RE = re.compile(r'\bpub\s*\(\s*(crate|super|self|in\s+[A-Za-z0-9_:]+)\s*\)')


def strip_attrs(text):
    """Remove `#[...]` attributes (rule D2) from an item text using the lexer."""
    toks = rustlex.lex(text)
    out = []
    i = 0
    dropped = []
    while i < len(toks):
        t = toks[i]
        if t.kind == 'punct' and t.text == '#':
            k = i + 1
            while k < len(toks) and toks[k].kind in rustlex.SIG:
                k += 1
            if k < len(toks) and toks[k].text == '!':
                k += 1
            if k < len(toks) and toks[k].text == '[':
                dropped.append(text[t.start:toks[toks[k].match].end])
                i = toks[k].match + 1
                continue
        out.append(t.text)
        i += 1
    return ''.join(out), dropped


def split_top_commas(text):
    toks = rustlex.lex(text)
    parts = []
    cur_start = 0
    i = 0
    depth_angle = 0
    while i < len(toks):
        t = toks[i]
        if t.kind == 'punct' and t.text in '([{':
            i = t.match + 1
            continue
        if t.kind == 'punct' and t.text == '<':
            depth_angle += 1
        elif t.kind == 'punct' and t.text == '>' and depth_angle > 0:
            # ignore `->`
            if not (i > 0 and toks[i - 1].text == '-'):
                depth_angle -= 1
        elif t.kind == 'punct' and t.text == ',' and depth_angle == 0:
            parts.append(text[cur_start:t.start])
            cur_start = t.end
        i += 1
    tail = text[cur_start:]
    if tail.strip():
        parts.append(tail)
    return parts


def name_return(sig, ret):
    """`fn f(..) -> T where ..` => `fn f(..) -> (ret: T) where ..`"""
    toks = rustlex.lex(sig)
    # find the fn keyword, then the parameter list
    i = 0
    while i < len(toks) and not (toks[i].kind == 'ident' and toks[i].text == 'fn'):
        i += 1
    # skip to first `(` after optional generics
    depth = 0
    while i < len(toks):
        t = toks[i]
        if t.kind == 'punct' and t.text == '<':
            depth += 1
        elif t.kind == 'punct' and t.text == '>':
            depth -= 1
        elif t.kind == 'punct' and t.text == '(' and depth == 0:
            break
        i += 1
    if i >= len(toks):
        raise UnitError('no parameter list in signature: ' + sig)
    j = toks[i].match + 1
    while j < len(toks) and toks[j].kind in rustlex.SIG:
        j += 1
    if j + 1 < len(toks) and toks[j].text == '-' and toks[j + 1].text == '>':
        k = j + 2
        while k < len(toks) and toks[k].kind in rustlex.SIG:
            k += 1
        start = toks[k].start
        # return type ends at top-level `where` or end
        m = k
        end = len(sig)
        adepth = 0
        while m < len(toks):
            t = toks[m]
            if t.kind == 'punct' and t.text in '([{':
                m = t.match + 1
                continue
            if t.kind == 'punct' and t.text == '<':
                adepth += 1
            elif t.kind == 'punct' and t.text == '>':
                adepth -= 1
            if t.kind == 'ident' and t.text == 'where' and adepth == 0:
                end = t.start
                break
            m += 1
        ty = sig[start:end].rstrip()
        ws = sig[start + len(ty):end]
        return sig[:start] + f'({ret}: {ty})' + ws + sig[end:]
    # no return type: name the unit result (Verus applies an async fn's ensures at `.await` only when the result is named)
    close = toks[toks[i].match].end
    return sig[:close] + f' -> ({ret}: ())' + sig[close:]


LOOP_KW = ('loop', 'while', 'for')


def find_loops(text):
    """Return byte offsets of the `{` opening the body of each loop, in source
    order of the loop keyword.  `for` in `for<'a>` (HRTB) and `impl X for Y`
    cannot occur inside a function body slice except in nested items, which
    the extractor does not descend into specially (rare; would be a lost anchor)."""
    toks = rustlex.lex(text)
    res = []
    for i, t in enumerate(toks):
        if t.kind == 'ident' and t.text in LOOP_KW:
            # `for<'a>` hrtb
            j = i + 1
            while j < len(toks) and toks[j].kind in rustlex.SIG:
                j += 1
            if t.text == 'for' and j < len(toks) and toks[j].text == '<':
                continue
            # label? `'a: loop` is fine, keyword still found
            m = j
            found = None
            while m < len(toks):
                tt = toks[m]
                if tt.kind == 'punct' and tt.text in '([':
                    m = tt.match + 1
                    continue
                if tt.kind == 'punct' and tt.text == '{':
                    found = tt.start
                    break
                if tt.kind == 'punct' and tt.text == ';':
                    break
                m += 1
            if found is not None:
                res.append(found)
    return res


def _match_arms(toks, o, c):
    """Arms of the match block toks[o]='{' .. toks[c]='}': list of (pat_start, guard_if or None, arrow, body_start, body_end)
    as token indices (body_end exclusive, without the trailing comma).  None if the block cannot be parsed."""
    arms = []
    i = o + 1
    while i < c:
        while i < c and toks[i].kind in rustlex.SIG:
            i += 1
        if i >= c:
            break
        ps = i
        guard = None
        arrow = None
        while i < c:
            t = toks[i]
            if t.kind == 'punct' and t.text in '([{':
                i = t.match + 1
                continue
            if t.kind == 'ident' and t.text == 'if' and guard is None:
                guard = i
            if t.kind == 'punct' and t.text == '=' and i + 1 < c and toks[i + 1].text == '>' and toks[i + 1].start == t.end:
                arrow = i
                break
            i += 1
        if arrow is None:
            return None
        i = arrow + 2
        while i < c and toks[i].kind in rustlex.SIG:
            i += 1
        bs = i
        if i < c and toks[i].kind == 'punct' and toks[i].text == '{':
            be = toks[i].match + 1
            i = be
            # a block body may still be followed by method calls etc.: then it is an expression body
            j = i
            while j < c and toks[j].kind in rustlex.SIG:
                j += 1
            if j < c and not (toks[j].kind == 'punct' and toks[j].text == ',') and toks[j].text in ('.', '?'):
                be = None
        else:
            be = None
        if be is None:
            while i < c:
                t = toks[i]
                if t.kind == 'punct' and t.text in '([{':
                    i = t.match + 1
                    continue
                if t.kind == 'punct' and t.text == ',':
                    break
                i += 1
            be = i
        arms.append((ps, guard, arrow, bs, be))
        i = be
        while i < c and toks[i].kind in rustlex.SIG:
            i += 1
        if i < c and toks[i].kind == 'punct' and toks[i].text == ',':
            i += 1
    return arms


def desugar_match_guards(text, log, qual):
    """Rule R29: `match E { P if G => A, _ => B }` -> `match E { P => { if G { A } else { B } } _ => { B } }` (B duplicated
    verbatim).  Only this two-arm shape, where the guarded arm is directly followed by the catch-all arm, is rewritten; the
    installed Verus is imprecise for a guarded arm that mutates the matched place.  Returns (text, guards_left)."""
    count = 0
    while True:
        toks = rustlex.lex(text)
        done = True
        left = 0
        for i, t in enumerate(toks):
            if not (t.kind == 'ident' and t.text == 'match'):
                continue
            k = i + 1
            blk = None
            while k < len(toks):
                tt = toks[k]
                if tt.kind == 'punct' and tt.text in '([':
                    k = tt.match + 1
                    continue
                if tt.kind == 'punct' and tt.text == '{':
                    blk = k
                    break
                if tt.kind == 'punct' and tt.text == ';':
                    break
                k += 1
            if blk is None:
                continue
            arms = _match_arms(toks, blk, toks[blk].match)
            if not arms:
                continue
            guarded = [a for a in arms if a[1] is not None]
            if not guarded:
                continue
            if len(arms) == 2 and arms[0][1] is not None and arms[1][1] is None:
                pat2 = ''.join(x.text for x in toks[arms[1][0]:arms[1][2]]).strip()
                if pat2 == '_':
                    (ps, g, ar, bs, be) = arms[0]
                    pat = text[toks[ps].start:toks[g].start].rstrip()
                    cond = text[toks[g + 1].start:toks[ar].start].strip()
                    a_body = text[toks[bs].start:toks[be - 1].end]
                    b_body = text[toks[arms[1][3]].start:toks[arms[1][4] - 1].end]
                    new = f'{pat} => {{ if {cond} {{ {a_body} }} else {{ {b_body} }} }} _ => {{ {b_body} }} '
                    text = text[:toks[ps].start] + new + text[toks[toks[blk].match].start:]
                    count += 1
                    done = False
                    break
            # the probed imprecision concerns a scrutinee that is a PLACE (`&self.inner`, `self.state`) mutated inside the
            # guarded arm; a scrutinee that is a call result is a temporary and unaffected
            scrut = text[toks[i + 1].start:toks[blk].start]
            if '(' not in scrut:
                left += len(guarded)
        if done:
            break
    if count:
        log.append(dict(rule='R29', fn=qual, what=f'{count} two-arm match(es) with a guard desugared to if/else inside the arm'))
    return text, left


def count_unannotated_closures(body):
    """Closures whose result Verus knows nothing about: no `-> (name: T) ..` annotation after the parameter list."""
    toks = rustlex.lex(body)
    sig = [i for i, t in enumerate(toks) if t.kind not in rustlex.SIG]
    n = 0
    k = 0
    while k < len(sig):
        t = toks[sig[k]]
        if t.kind == 'punct' and t.text == '|':
            prev = toks[sig[k - 1]] if k > 0 else None
            starts = prev is None or (prev.kind == 'punct' and prev.text in '(,={;:[>') or (prev.kind == 'ident' and prev.text in ('move', 'return', 'else'))
            if starts:
                # closing bar
                j = k + 1
                while j < len(sig) and not (toks[sig[j]].kind == 'punct' and toks[sig[j]].text == '|'):
                    if toks[sig[j]].kind == 'punct' and toks[sig[j]].text in '([':
                        # skip groups inside parameter patterns/types
                        m = toks[sig[j]].match
                        while j < len(sig) and sig[j] < m:
                            j += 1
                        continue
                    j += 1
                nxt = toks[sig[j + 1]] if j + 1 < len(sig) else None
                nxt2 = toks[sig[j + 2]] if j + 2 < len(sig) else None
                if not (nxt is not None and nxt.text == '-' and nxt2 is not None and nxt2.text == '>'):
                    n += 1
                k = j + 1
                continue
        k += 1
    return n


def _block_header(toks, b):
    h = b - 1
    header = []
    while h >= 0:
        tt = toks[h]
        if tt.kind == 'punct' and tt.text in ')]':
            h = tt.match - 1
            continue
        if tt.kind == 'punct' and tt.text in ';{}':
            break
        if tt.kind not in rustlex.SIG:
            header.insert(0, tt.text)
        h -= 1
    return header


def _enclosing_block(toks, i):
    b = i - 1
    while b >= 0:
        tt = toks[b]
        if tt.kind == 'punct' and tt.text in ')]}':
            b = tt.match - 1
            continue
        if tt.kind == 'punct' and tt.text == '{':
            return b
        b -= 1
    return -1


def _is_loop_tail_block(toks, b):
    """True if the block opened at token b is a loop body, or an else-less `if` block that is the LAST statement of a
    block for which this holds (there `continue` and "skip the rest of this block" coincide)."""
    header = _block_header(toks, b)
    if header and header[0] in ('for', 'while', 'loop'):
        return True
    if header and header[0] == 'if':
        close = toks[b].match
        k = close + 1
        while k < len(toks) and toks[k].kind in rustlex.SIG:
            k += 1
        if k < len(toks) and toks[k].kind == 'punct' and toks[k].text == '}':
            parent = toks[k].match
            return _is_loop_tail_block(toks, parent)
    return False


def nest_let_else_continue(text, log, qual):
    """Rule R26: inside a loop body, `let P = E else { continue; }; REST` (REST = everything up to the end of the loop
    body) -> `if let P = E { REST }`.  Only applied when the statement is a direct child of the loop's body block, where
    `continue` and "skip the rest of this block" are the same thing.  (Verus: for-loops do not support `continue`.)"""
    count = 0
    while True:
        toks = rustlex.lex(text)
        sig = [i for i, t in enumerate(toks) if t.kind not in rustlex.SIG]
        hit = None
        for pos, i in enumerate(sig):
            t = toks[i]
            if t.kind == 'ident' and t.text == 'if' and (pos == 0 or toks[sig[pos - 1]].text in (';', '{', '}')):
                # guard form: `if COND { continue; }` (no else) directly in a loop body -> `if !(COND) { REST }`
                k = i + 1
                blk = None
                while k < len(toks):
                    tt = toks[k]
                    if tt.kind == 'punct' and tt.text in '([':
                        k = tt.match + 1
                        continue
                    if tt.kind == 'punct' and tt.text == '{':
                        blk = k
                        break
                    if tt.kind == 'punct' and tt.text == ';':
                        break
                    k += 1
                if blk is None:
                    continue
                inner = [x for x in range(blk + 1, toks[blk].match) if toks[x].kind not in rustlex.SIG]
                itxt = [toks[x].text for x in inner]
                if itxt not in (['continue', ';'], ['continue']):
                    continue
                after = toks[blk].match + 1
                while after < len(toks) and toks[after].kind in rustlex.SIG:
                    after += 1
                if after < len(toks) and toks[after].kind == 'ident' and toks[after].text == 'else':
                    continue
                if 'let' in [toks[x].text for x in range(i + 1, blk) if toks[x].kind == 'ident']:
                    continue   # `if let .. { continue; }` is not a boolean guard
                # enclosing block must be a loop body (or a tail `if` block of one)
                b = _enclosing_block(toks, i)
                if b < 0:
                    continue
                if not _is_loop_tail_block(toks, b):
                    raise LostAnchor(f'{qual}: rule R26: guard-continue is not in tail position of a loop body (not handled)')
                cond = text[toks[i + 1].start:toks[blk].start].strip()
                close = toks[b].match
                rest = text[toks[toks[blk].match].end:toks[close].start]
                text = text[:toks[i].start] + 'if !(' + cond + ') {' + rest + '}\n' + text[toks[close].start:]
                count += 1
                hit = 'guard'
                break
            if not (t.kind == 'ident' and t.text == 'else'):
                continue
            nxt = [toks[j] for j in sig[pos + 1:pos + 6]]
            txt = [x.text for x in nxt]
            if txt[:3] == ['{', 'continue', ';'] and txt[3:5] == ['}', ';']:
                end_stmt = sig[pos + 5]
            elif txt[:2] == ['{', 'continue'] and txt[2:4] == ['}', ';']:
                end_stmt = sig[pos + 4]
            else:
                continue
            # the `let` that starts this statement: walk back at depth 0
            k = i - 1
            let_i = None
            while k >= 0:
                tt = toks[k]
                if tt.kind == 'punct' and tt.text in ')]}':
                    k = tt.match - 1
                    continue
                if tt.kind == 'punct' and tt.text in ';{':
                    break
                if tt.kind == 'ident' and tt.text == 'let':
                    let_i = k
                k -= 1
            if let_i is None or k < 0 or toks[k].text not in ';{':
                raise LostAnchor(f'{qual}: rule R26: cannot find the `let` of a let-else-continue')
            b = _enclosing_block(toks, let_i)
            if b < 0:
                raise LostAnchor(f'{qual}: rule R26: no enclosing block')
            if not _is_loop_tail_block(toks, b):
                raise LostAnchor(f'{qual}: rule R26: let-else-continue is not in tail position of a loop body (not handled)')
            hit = (let_i, i, end_stmt, toks[b].match)
            break
        if hit is None:
            break
        if hit == 'guard':
            continue
        let_i, else_i, end_stmt, close = hit
        head = text[toks[let_i].start:toks[else_i].start].rstrip()
        rest = text[toks[end_stmt].end:toks[close].start]
        text = text[:toks[let_i].start] + 'if ' + head + ' {' + rest + '}\n' + text[toks[close].start:]
        count += 1
    if count:
        log.append(dict(rule='R26', fn=qual, what=f'{count} let-else-continue statement(s) of a loop body nested as `if let`'))
    return text


def unfold_let_chains(text, log, qual):
    """Rule R5: `if let P = E && C { A } [else { B }]` ->
    `if let P = E { if C { A } [else { B }] } [else { B }]`  (B duplicated verbatim)."""
    count = 0
    while True:
        toks = rustlex.lex(text)
        sig = [i for i, t in enumerate(toks) if t.kind not in rustlex.SIG]
        done = True
        for pos, i in enumerate(sig):
            t = toks[i]
            if not (t.kind == 'ident' and t.text == 'if'):
                continue
            if pos + 1 >= len(sig) or toks[sig[pos + 1]].text != 'let':
                continue
            # scan to the block `{` at depth 0, remembering the first top-level `&&`
            k = i + 1
            and_tok = None
            block = None
            while k < len(toks):
                tt = toks[k]
                if tt.kind == 'punct' and tt.text in '([':
                    k = tt.match + 1
                    continue
                if tt.kind == 'punct' and tt.text == '{':
                    block = k
                    break
                if tt.kind == 'punct' and tt.text == '&' and k + 1 < len(toks) and toks[k + 1].text == '&' \
                        and toks[k + 1].start == tt.end and and_tok is None:
                    and_tok = k
                    k += 2
                    continue
                k += 1
            if block is None or and_tok is None:
                continue
            close = toks[block].match
            head = text[toks[i].start:toks[and_tok].start].rstrip()      # `if let P = E`
            cond = text[toks[and_tok + 1].end:toks[block].start].strip()  # `C`
            a_blk = text[toks[block].start:toks[close].end]
            # optional else
            j = close + 1
            while j < len(toks) and toks[j].kind in rustlex.SIG:
                j += 1
            else_blk = None
            end = toks[close].end
            if j < len(toks) and toks[j].kind == 'ident' and toks[j].text == 'else':
                j2 = j + 1
                while j2 < len(toks) and toks[j2].kind in rustlex.SIG:
                    j2 += 1
                if j2 < len(toks) and toks[j2].text == '{':
                    else_blk = text[toks[j2].start:toks[toks[j2].match].end]
                    end = toks[toks[j2].match].end
                else:
                    raise LostAnchor(f'{qual}: rule R5 does not handle `else if` after a let-chain')
            if else_blk is None:
                new = f'{head} {{ if {cond} {a_blk} }}'
            else:
                new = f'{head} {{ if {cond} {a_blk} else {else_blk} }} else {else_blk}'
            text = text[:toks[i].start] + new + text[end:]
            count += 1
            done = False
            break
        if done:
            break
    if count:
        log.append(dict(rule='R5', fn=qual, count=count, what='let-chain unfolded'))
    return text


class FnDirective:
    def __init__(self, relpath, qual, opts, lineno):
        self.relpath = relpath
        self.qual = qual
        self.opts = opts
        self.lineno = lineno
        self.contract = []
        self.loops = {}     # k -> lines
        self.optional_loops = set()
        self.rws = []       # (rule, n, from, to, regex?)
        self.ins = []       # (where, k, pattern, lines)
        self.attrs = []     # verifier attributes placed before the signature (rule A5)
        self.arm_anchor = None
        self.arm_tail = None
        self.arm_header = []


class Region:
    """A span of generated lines that came from one directive."""

    def __init__(self, kind, name, gen_start, gen_end, **kw):
        self.kind = kind
        self.name = name
        self.gen_start = gen_start
        self.gen_end = gen_end
        self.info = kw

    def to_json(self):
        d = dict(kind=self.kind, name=self.name, gen_start=self.gen_start, gen_end=self.gen_end)
        d.update(self.info)
        return d


def parse_opts(words):
    opts = {}
    for w in words:
        if '=' in w:
            k, v = w.split('=', 1)
            opts[k] = v
        else:
            opts[w] = True
    return opts


def slice_arm(src, it, anchor, qual, block=False):
    """Rule R4: the block of the match arm whose pattern text is `anchor` inside function `it`.
    With block=True (rule R4b): the first `{ .. }` block that follows the anchor text (e.g. `Ok(async move`)."""
    toks = src.toks
    body_start = toks[it.open].start
    body_end = toks[it.close].end
    pos = src.src.find(anchor, body_start, body_end)
    if pos < 0 or src.src.find(anchor, pos + 1, body_end) >= 0:
        raise LostAnchor(f'{qual}: match arm {anchor!r} not found exactly once')
    if block:
        k = next(i for i, t in enumerate(toks) if t.start >= pos + len(anchor.rstrip()))
        while toks[k].kind in rustlex.SIG:
            k += 1
        if toks[k].text != '{':
            raise LostAnchor(f'{qual}: block anchor {anchor!r} is not followed by a block')
        return k, toks[k].match
    # first `=>` after the anchor, then the arm's block
    k = next(i for i, t in enumerate(toks) if t.start >= pos + len(anchor.rstrip().removesuffix('=>').rstrip()))
    while k < it.close and not (toks[k].text == '=' and toks[k + 1].text == '>'):
        if toks[k].kind == 'punct' and toks[k].text in '([{':
            k = toks[k].match
        k += 1
    k += 2
    while toks[k].kind in rustlex.SIG:
        k += 1
    if toks[k].text != '{':
        raise LostAnchor(f'{qual}: match arm {anchor!r} is not a block')
    return k, toks[k].match


def render_fn(d, log):
    src = load_source(d.relpath)
    it, impl = find_fn(src, d.qual)
    toks = src.toks
    if d.opts.get('arm') and d.opts.get('stmt'):
        # rule R4c: the statement that starts at the anchor text, up to and including its terminating `;` at nesting depth 0
        body_start, body_end = toks[it.open].start, toks[it.close].end
        # alternatives separated by ` || `: the first one that occurs exactly once is taken
        pos = -1
        for alt in [a.strip() for a in d.arm_anchor.split(' || ')]:
            q = src.src.find(alt, body_start, body_end)
            if q >= 0 and src.src.find(alt, q + 1, body_end) < 0:
                pos = q
                break
        if pos < 0:
            raise LostAnchor(f'{d.qual}: statement {d.arm_anchor!r} not found exactly once')
        k = next(i for i, t in enumerate(toks) if t.start >= pos)
        while k < it.close and toks[k].text != ';':
            if toks[k].kind == 'punct' and toks[k].text in '([{':
                k = toks[k].match
            k += 1
        if k >= it.close:
            raise LostAnchor(f'{d.qual}: statement {d.arm_anchor!r} has no terminating `;`')
        sig = '\n'.join(d.arm_header) + '\n'
        inner = '\n' + src.src[pos:toks[k].end]
        body = '{' + inner + ('\n' + d.arm_tail + '\n' if d.arm_tail else '') + '}'
        src_start = rustlex.line_of(src.src, pos)
        src_end = rustlex.line_of(src.src, toks[k].end)
        log.append(dict(rule='R4c', fn=d.qual, arm=d.arm_anchor, what='statement extracted as a function over its free variables'))
        sha = hashlib.sha256(body.encode()).hexdigest()
        return _finish_fn(d, log, sig, body, src_start, src_end, sha, [], d.opts.get('name') or 'stmt')
    if d.opts.get('arm'):
        o, c = slice_arm(src, it, d.arm_anchor, d.qual, block=bool(d.opts.get('block')))
        sig = '\n'.join(d.arm_header) + '\n'
        inner = src.src[toks[o].end:toks[c].start]
        body = '{' + inner + ('\n' + d.arm_tail + '\n' if d.arm_tail else '') + '}'
        src_start = rustlex.line_of(src.src, toks[o].start)
        src_end = rustlex.line_of(src.src, toks[c].end)
        log.append(dict(rule='R4b' if d.opts.get('block') else 'R4', fn=d.qual, arm=d.arm_anchor,
                        what=('block (async block / closure body) ' if d.opts.get('block') else 'match arm ') + 'extracted as a function over its bindings and free variables'))
        sha = hashlib.sha256(body.encode()).hexdigest()
        return _finish_fn(d, log, sig, body, src_start, src_end, sha, [], d.opts.get('name') or 'arm')
    sig = src.src[toks[it.head].start:toks[it.open].start]
    body = src.src[toks[it.open].start:toks[it.close].end]
    src_start = rustlex.line_of(src.src, toks[it.head].start)
    src_end = rustlex.line_of(src.src, toks[it.close].end)
    sha = hashlib.sha256((sig + body).encode()).hexdigest()
    dropped_attrs = list(it.attrs)
    # D3 visibility
    sig2 = VIS_RE.sub('pub', sig)
    if sig2 != sig:
        log.append(dict(rule='D3', fn=d.qual, what='visibility qualifier normalised to pub'))
    sig = sig2
    if d.opts.get('name'):
        sig = re.sub(r'\bfn\s+' + re.escape(it.name) + r'\b', 'fn ' + d.opts['name'], sig, count=1)
    return _finish_fn(d, log, sig, body, src_start, src_end, sha, dropped_attrs, d.opts.get('name') or it.name)


def _finish_fn(d, log, sig, body, src_start, src_end, sha, dropped_attrs, emitted_name):
    text = sig + '\x00' + body   # \x00 marks the signature/body boundary through rewrites
    for (rule, n, frm, to, is_re) in d.rws:
        if is_re:
            new, cnt = re.subn(frm, to, text)
            # `@OP(<op>)` in a replacement names a captured comparison operator (so that one rule covers `<` and `<=`)
            new = re.sub(r'@OP\((<=|>=|==|!=|<|>)\)', lambda m: {'<': 'lt', '<=': 'le', '>': 'gt', '>=': 'ge', '==': 'eq', '!=': 'ne'}[m.group(1)], new)
        else:
            cnt = text.count(frm)
            new = text.replace(frm, to)
        if n is not None and cnt != n:
            raise LostAnchor(f'{d.qual}: rewrite {rule} expected {n} match(es) of {frm!r}, found {cnt}')
        if cnt:
            log.append(dict(rule=rule, fn=d.qual, frm=frm, to=to, count=cnt))
        text = new
    if text.count('\x00') != 1:
        raise UnitError(f'{d.qual}: rewrite destroyed the signature/body boundary')
    sig, body = text.split('\x00')
    if d.opts.get('stripattrs'):
        # rule D2 inside a body: outer attributes on statements / match arms (`#[cfg(not(wasm_browser))]`) are dropped;
        # the verified configuration is native + `server`, so the attributed code is kept
        body2, dropped = strip_attrs(body)
        bad = [a for a in dropped if 'wasm_browser' in a and 'not(' not in a or 'cfg(test)' in a]
        if bad:
            raise LostAnchor(f'{d.qual}: attribute {bad[0]} would drop code in the verified configuration; not handled')
        if dropped:
            log.append(dict(rule='D2', fn=d.qual, dropped=dropped))
        body = body2
    if d.opts.get('letchains'):
        body = unfold_let_chains(body, log, d.qual)
    if d.opts.get('letelsecontinue'):
        body = nest_let_else_continue(body, log, d.qual)
    guards_left = 0
    if ' if ' in body and 'match' in body:
        body, guards_left = desugar_match_guards(body, log, d.qual)
    if d.opts.get('bindtail'):
        # rule A4': the tail expression E of the body becomes `let <name> = E;` ... `<name>` so that exit obligations
        # (`//@atend`) can mention the result and the locals still in scope
        nm = d.opts['bindtail']
        toks = rustlex.lex(body)
        o = next(i for i, t in enumerate(toks) if t.kind == 'punct' and t.text == '{')
        c = toks[o].match
        last_semi = None
        i = o + 1
        while i < c:
            t = toks[i]
            if t.kind == 'punct' and t.text in '([{':
                # a block-like statement (`for`, `if`, `match`, `loop` ...) without `;` also ends a statement: a brace
                # group directly followed by an identifier that starts a new expression (not `else`/`as`) is a boundary
                j = t.match + 1
                if t.text == '{':
                    k = j
                    while k < c and toks[k].kind in rustlex.SIG:
                        k += 1
                    if k < c and toks[k].kind == 'ident' and toks[k].text not in ('else', 'as'):
                        last_semi = t.match
                i = j
                continue
            if t.kind == 'punct' and t.text == ';':
                last_semi = i
            i += 1
        if last_semi is None:
            raise LostAnchor(f'{d.qual}: bindtail needs at least one statement before the tail expression')
        start = toks[last_semi].end
        tail = body[start:toks[c].start]
        if not tail.strip():
            raise LostAnchor(f'{d.qual}: bindtail: the body has no tail expression')
        body = body[:start] + f'\nlet {nm} = ' + tail.strip() + ';\n' + f'/*@tail@*/ {nm}\n' + body[toks[c].start:]
        log.append(dict(rule="A4'", fn=d.qual, what=f'tail expression bound to `{nm}`'))
    if d.opts.get('loopctl'):
        # rule R24: an arm of a `match`/`select!` that sits in a loop is extracted as a function; its `continue;` and
        # `break;` (which refer to that enclosing loop) become `return LoopCtl::Continue;` / `return LoopCtl::Break;`
        # and falling out of the arm is `LoopCtl::Next` (given as //@tail).  Refused if the arm itself contains a loop,
        # a labelled break/continue or a break with a value (then the keywords would not refer to the enclosing loop).
        toks = rustlex.lex(body)
        out = []
        n = 0
        for i, t in enumerate(toks):
            if t.kind == 'ident' and t.text in ('loop', 'while', 'for'):
                raise LostAnchor(f'{d.qual}: rule R24 does not handle an arm that contains a loop')
            if t.kind == 'ident' and t.text in ('break', 'continue'):
                j = i + 1
                while j < len(toks) and toks[j].kind in rustlex.SIG:
                    j += 1
                if j >= len(toks) or toks[j].text not in (';', ',', '}'):
                    raise LostAnchor(f'{d.qual}: rule R24 handles only plain `break` / `continue`')
                out.append('return LoopCtl::' + ('Break' if t.text == 'break' else 'Continue'))
                n += 1
            else:
                out.append(t.text)
        body = ''.join(out)
        log.append(dict(rule='R24', fn=d.qual, what=f'{n} break/continue of the enclosing loop turned into LoopCtl return values'))
    if d.opts.get('mutself'):
        # rule R20: Verus does not support a `mut self` receiver.  Alpha-renaming: the parameter becomes `self`,
        # the body starts with `let mut this_ = self;` and every `self` token of the body becomes `this_`.
        if not re.search(r'\bmut\s+self\b', sig):
            raise LostAnchor(f'{d.qual}: rule R20 expects a `mut self` receiver')
        sig = re.sub(r'\bmut\s+self\b', 'self', sig, count=1)
        toks = rustlex.lex(body)
        body = ''.join(('this_' if (t.kind == 'ident' and t.text == 'self') else t.text) for t in toks)
        o = body.index('{')
        body = body[:o + 1] + ' let mut this_ = self; ' + body[o + 1:]
        log.append(dict(rule='R20', fn=d.qual, what='`mut self` receiver alpha-renamed to a local `this_`'))
    if d.opts.get('ret'):
        sig = name_return(sig, d.opts['ret'])
    # loops (offsets in body)
    inserts = []   # (offset in body, text)
    if d.loops:
        offs = find_loops(body)
        for k, lines in d.loops.items():
            if (k < 1 or k > len(offs)) and k in d.optional_loops and len(offs) == 0:
                log.append(dict(rule='A2', fn=d.qual, what=f'optional loop annotation #{k} skipped: the function has no loop'))
                continue
            if k < 1 or k > len(offs):
                raise LostAnchor(f'{d.qual}: loop #{k} not found (function has {len(offs)} loops)')
            inserts.append((offs[k - 1], '\n' + '\n'.join(lines) + '\n'))
    # line inserts
    for (where, k, pattern, lines) in d.ins:
        if where == 'atend':
            pos_t = body.rfind('/*@tail@*/')
            inserts.append((pos_t if pos_t >= 0 else body.rindex('}'), '\n'.join(lines) + '\n'))
            continue
        pos = -1
        start = 0
        for _ in range(k):
            pos = body.find(pattern, start)
            if pos < 0:
                raise LostAnchor(f'{d.qual}: insertion anchor {pattern!r} (occurrence {k}) not found')
            start = pos + 1
        if where == 'before':
            ls = body.rfind('\n', 0, pos) + 1
            inserts.append((ls, '\n'.join(lines) + '\n'))
        elif where == 'after':
            le = body.find('\n', pos)
            if le < 0:
                le = len(body)
            inserts.append((le + 1, '\n'.join(lines) + '\n'))
        else:
            raise UnitError('ins: before|after')
    for off, txt in sorted(inserts, key=lambda x: -x[0]):
        body = body[:off] + txt + body[off:]
    contract = '' if d.opts.get('arm') else '\n'.join(d.contract)
    for a in d.attrs:
        if 'external_body' in a or 'external' in a.replace('external_', ''):
            raise UnitError(f'{d.qual}: external attributes are never added to an extracted function')
    out = ('\n'.join(d.attrs) + '\n' if d.attrs else '') + sig.rstrip() + '\n' + (contract + '\n' if contract else '') + body
    meta = dict(src_file=d.relpath, src_start=src_start, src_end=src_end, sha256=sha,
                qual=d.qual, props=d.opts.get('props', ''), dropped_attrs=dropped_attrs,
                emitted_name=emitted_name, match_guards_left=guards_left,
                unannotated_closures=count_unannotated_closures(body))
    return out, meta


def render_item(relpath, kind, name, opts, pre_lines, log):
    src = load_source(relpath)
    it = find_item(src, kind, name)
    toks = src.toks
    text = src.src[toks[it.head].start:toks[it.last].end]
    src_start = rustlex.line_of(src.src, toks[it.head].start)
    src_end = rustlex.line_of(src.src, toks[it.last].end)
    sha = hashlib.sha256(text.encode()).hexdigest()
    text2 = VIS_RE.sub('pub', text)
    text, dropped = strip_attrs(text2)
    dropped = list(it.attrs) + dropped
    pruned = []
    if kind == 'struct' and opts.get('keep') is not None:
        keep = set(x for x in opts['keep'].split(',') if x)
        o = text.find('{')
        c = text.rfind('}')
        fields = split_top_commas(text[o + 1:c])
        kept = []
        for f in fields:
            m = re.search(r'(?:pub(?:\([^)]*\))?\s+)?([A-Za-z_][A-Za-z0-9_]*)\s*:', re.sub(r'//[^\n]*', '', f))
            if not m:
                continue
            if m.group(1) in keep:
                kept.append(f.strip('\n'))
            else:
                pruned.append(m.group(1))
        missing = keep - set(re.search(r'([A-Za-z_][A-Za-z0-9_]*)\s*:', re.sub(r'//[^\n]*', '', f)).group(1) for f in kept)
        if missing:
            raise LostAnchor(f'struct {name}: kept field(s) {sorted(missing)} not found')
        text = text[:o + 1] + '\n' + ',\n'.join(kept) + ',\n' + text[c:]
        log.append(dict(rule='D4', item=name, pruned=pruned))
    if kind in ('const', 'static'):
        # rule R16: the elided lifetime in a const/static type is 'static; Verus wants it spelled out
        m = re.match(r'(?s)^(.*?\b(?:const|static)\s+[A-Za-z_][A-Za-z0-9_]*\s*:\s*)([^=]+?)(\s*=.*)$', text)
        if m and re.search(r"&(?!\s*')", m.group(2)):
            text = m.group(1) + re.sub(r"&(?!\s*')", "&'static ", m.group(2)) + m.group(3)
            log.append(dict(rule='R16', item=name, what="elided lifetime in const type spelled 'static"))
    if kind == 'const' and opts.get('execconst'):
        # rule R14: `const N: T = EXPR;` -> `exec const N: T <ensures...> { EXPR }` so the value gets a checked spec
        m = re.match(r'(?s)^(.*?\bconst\s+[A-Za-z_][A-Za-z0-9_]*\s*:\s*[^=]+?)\s*=\s*(.*);\s*$', text)
        if not m:
            raise LostAnchor(f'const {name}: unexpected shape for rule R14')
        if opts.get('selfvalue'):
            # (auto-extracted consts) the value spec is the initialiser itself, read in spec mode
            pre_lines = list(pre_lines) + [f'ensures {name.split("::")[-1]} == ({m.group(2)})']
        text = m.group(1).replace('const ', 'exec const ', 1) + '\n' + '\n'.join(pre_lines) + '\n{ ' + m.group(2) + ' }'
        pre_lines = []
        if opts.get('assume_value'):
            # the ensures clause of this const is ASSUMED (its initialiser is a literal Verus cannot evaluate); listed by the trusted-base scan
            pre_lines = ['#[verifier::external_body]']
        log.append(dict(rule='R14', item=name, what='const initialiser turned into an exec const body with an ensures clause'))
    if opts.get('pub') and not re.match(r'\s*pub\b', text):
        text = 'pub ' + text
        log.append(dict(rule='D3', item=name, what='private item made pub'))
    if kind == 'struct' and opts.get('pubfields') and text.find('{') < 0 and text.find('(') >= 0:
        o = text.find('(')
        c = text.rfind(')')
        fields = split_top_commas(text[o + 1:c])
        newf = [f if re.match(r'\s*pub\b', f) else re.sub(r'^(\s*)', r'\1pub ', f, count=1) for f in fields]
        text = text[:o + 1] + ','.join(newf) + text[c:]
        log.append(dict(rule='D3', item=name, what='private tuple fields made pub'))
    elif kind == 'struct' and opts.get('pubfields'):
        # rule D3 (fields): private fields become `pub` so that contracts of pub functions may mention them
        o = text.find('{')
        c = text.rfind('}')
        if o >= 0:
            fields = split_top_commas(text[o + 1:c])
            newf = []
            for f in fields:
                m = re.search(r'(^|\n)(\s*)((?:pub(?:\([^)]*\))?\s+)?)([A-Za-z_][A-Za-z0-9_]*\s*:)', re.sub(r'//[^\n]*', lambda mm: ' ' * len(mm.group(0)), f))
                if m and not m.group(3):
                    f = f[:m.start(4)] + 'pub ' + f[m.start(4):]
                newf.append(f)
            text = text[:o + 1] + ','.join(newf) + (',' if text[o + 1:c].rstrip().endswith(',') else '') + text[c:]
            log.append(dict(rule='D3', item=name, what='private fields made pub'))
    if opts.get('name'):
        text = re.sub(r'\b' + kind + r'\s+' + re.escape(it.name) + r'\b', kind + ' ' + opts['name'], text, count=1)
    pre = list(pre_lines)
    if opts.get('derive'):
        pre.append('#[derive(' + ', '.join(opts['derive'].split(',')) + ')]')
    out = ('\n'.join(pre) + '\n' if pre else '') + text
    meta = dict(src_file=relpath, src_start=src_start, src_end=src_end, sha256=sha,
                dropped_attrs=dropped, fields_pruned=pruned, source_name=name.split('::')[-1],
                emitted_name=opts.get('name') or name.split('::')[-1])
    return out, meta


def generate(unit_path, extra_tail=None):
    """Returns (generated_text, regions, log, unit_meta).  `extra_tail` (directive text) is spliced in before the
    final `} // verus!` line: used by the runner to auto-extract callees a changed function newly depends on."""
    with open(unit_path, encoding='utf-8') as f:
        text0 = f.read()
    if extra_tail:
        k = text0.rindex('} // verus!') if '} // verus!' in text0 else text0.rindex('// @extra-items-here')
        text0 = text0[:k] + extra_tail + '\n' + text0[k:]
    lines = text0.split('\n')
    out = []
    regions = []
    log = []
    unit = dict(name=os.path.splitext(os.path.basename(unit_path))[0], props=[])
    i = 0
    n = len(lines)

    def cur_line():
        return sum(x.count('\n') + 1 for x in out) + 1

    while i < n:
        ln = lines[i]
        s = ln.strip()
        if not s.startswith('//@'):
            out.append(ln)
            i += 1
            continue
        words = s[3:].split()
        if not words:
            i += 1
            continue
        cmd = words[0]
        if cmd == 'unit':
            unit['name'] = words[1]
            o = parse_opts(words[2:])
            unit['props'] = [p for p in o.get('props', '').split(',') if p]
            unit['opts'] = o
            i += 1
            continue
        if cmd == 'include':
            inc = os.path.join(os.path.dirname(os.path.dirname(os.path.abspath(unit_path))), words[1])
            with open(inc, encoding='utf-8') as f:
                inc_lines = f.read().rstrip('\n').split('\n')
            lines[i:i + 1] = inc_lines
            n = len(lines)
            unit.setdefault('includes', []).append(words[1])
            continue
        if cmd in ('fn', 'arm'):
            d = FnDirective(words[1], words[2], parse_opts(words[3:]), i + 1)
            if cmd == 'arm':
                d.opts['arm'] = True
                d.arm_anchor = None
                d.arm_tail = None
            i += 1
            mode = ('contract', None)
            cur = None
            while i < n:
                s2 = lines[i].strip()
                if not s2.startswith('//@'):
                    raise UnitError(f'{unit_path}:{i + 1}: expected //@ line inside //@fn block')
                raw = lines[i].lstrip()
                tag = raw[3:4]
                rest = raw[5:] if len(raw) > 4 and raw[4] == ' ' else raw[4:]
                if s2 == '//@end':
                    i += 1
                    break
                if tag == '|':
                    if mode[0] == 'contract':
                        d.contract.append(rest)
                    elif mode[0] == 'loop':
                        d.loops[mode[1]].append(rest)
                    elif mode[0] == 'ins':
                        cur['lines'].append(rest)
                    elif mode[0] == 'attr':
                        d.attrs.append(rest)
                    else:
                        raise UnitError(f'{unit_path}:{i + 1}: unexpected payload')
                    i += 1
                    continue
                if tag == '-' and d.opts.get('arm') and d.arm_anchor is None and mode[0] == 'contract':
                    d.arm_anchor = rest
                    i += 1
                    continue
                if tag == '-':
                    cur['from'].append(rest)
                    i += 1
                    continue
                if tag == '+':
                    cur['to'].append(rest)
                    i += 1
                    continue
                w2 = s2[3:].split()
                if w2[0] == 'loop':
                    k = int(w2[1])
                    if 'optional' in w2[2:]:
                        d.optional_loops.add(k)
                    d.loops[k] = []
                    mode = ('loop', k)
                elif w2[0] in ('rw', 'rwx'):
                    cur = dict(rule=w2[1], n=(None if w2[2] == '*' else int(w2[2])), **{'from': [], 'to': []}, re=(w2[0] == 'rwx'))
                    d.rws.append(cur)
                    mode = ('rw', None)
                elif w2[0] == 'attr':
                    mode = ('attr', None)
                elif w2[0] == 'tail':
                    d.arm_tail = s2[len('//@tail'):].strip()
                elif w2[0] == 'atend':
                    cur = dict(where='atend', k=1, **{'from': []}, lines=[])
                    d.ins.append(cur)
                    mode = ('ins', None)
                elif w2[0] == 'ins':
                    cur = dict(where=w2[1], k=int(w2[2]), **{'from': []}, lines=[])
                    d.ins.append(cur)
                    mode = ('ins', None)
                else:
                    raise UnitError(f'{unit_path}:{i + 1}: unknown sub-directive {w2[0]}')
                i += 1
            d.rws = [(r['rule'], r['n'], '\n'.join(r['from']), '\n'.join(r['to']), r['re']) for r in d.rws]
            d.ins = [(r['where'], r['k'], '\n'.join(r['from']), r['lines']) for r in d.ins]
            d.arm_header = list(d.contract)
            text, meta = render_fn(d, log)
            start = cur_line()
            out.append(text)
            regions.append(Region('fn', d.qual, start, start + text.count('\n'), **meta))
            continue
        if cmd == 'item':
            relpath, kind, name = words[1], words[2], words[3]
            opts = parse_opts(words[4:])
            i += 1
            pre = []
            while i < n and lines[i].lstrip().startswith('//@|'):
                raw = lines[i].lstrip()
                pre.append(raw[5:] if len(raw) > 4 and raw[4] == ' ' else raw[4:])
                i += 1
            text, meta = render_item(relpath, kind, name, opts, pre, log)
            start = cur_line()
            out.append(text)
            regions.append(Region('item', f'{kind} {name}', start, start + text.count('\n'), **meta))
            continue
        raise UnitError(f'{unit_path}:{i + 1}: unknown directive {cmd}')
    return '\n'.join(out), regions, log, unit


if __name__ == '__main__':
    txt, regions, log, unit = generate(sys.argv[1])
    sys.stdout.write(txt)
    for r in regions:
        print('//', r.to_json(), file=sys.stderr)
