// ---- BX support (not code under test): a controlled scheduler.  The programs of one scenario run on OS threads, but only
// the thread the scheduler chose runs; every acquisition of a shim lock (and every call into a harness service) is a
// scheduling point, a failed try-lock parks the thread until some lock is released.  The harness enumerates EVERY schedule of
// the scenario by depth-first search over the choices (or, where stated, every schedule with at most PREEMPTION_BOUND
// pre-emptive context switches).  Locks have no fairness or writer preference: the schedules are a
// superset of what std's locks allow.
pub mod sched {
    use std::cell::Cell;
    use std::sync::{Condvar, Mutex};
    pub struct St { pub active: bool, pub current: usize, pub status: Vec<u8>, pub prefix: Vec<usize>, pub trace: Vec<(usize, usize)>, pub order: Vec<usize>, pub abort: bool, pub panicked: Vec<usize>, pub last: usize, pub preemptions: usize }
    /// at most this many pre-emptive context switches per schedule (usize::MAX = every schedule); set by the harness
    pub static PREEMPTION_BOUND: std::sync::atomic::AtomicUsize = std::sync::atomic::AtomicUsize::new(usize::MAX);
    pub static ST: Mutex<St> = Mutex::new(St { active: false, current: usize::MAX, status: Vec::new(), prefix: Vec::new(), trace: Vec::new(), order: Vec::new(), abort: false, panicked: Vec::new(), last: usize::MAX, preemptions: 0 });
    pub static CV: Condvar = Condvar::new();
    thread_local! { pub static ME: Cell<usize> = Cell::new(usize::MAX); }
    pub struct Aborted;
    fn pick(st: &mut St) {
        let mut opts: Vec<usize> = (0..st.status.len()).filter(|i| st.status[*i] == 0).collect();
        if opts.is_empty() { st.current = usize::MAX; if st.status.iter().any(|s| *s == 1) { st.abort = true; } return; }
        // switching away from a thread that could continue is a pre-emption; with the budget used up it keeps running
        let can_continue = opts.contains(&st.last);
        if can_continue && st.preemptions >= PREEMPTION_BOUND.load(std::sync::atomic::Ordering::Relaxed) { opts = vec![st.last]; }
        let step = st.trace.len();
        let c = if step < st.prefix.len() { st.prefix[step].min(opts.len() - 1) } else { 0 };
        st.trace.push((opts.len(), c)); st.order.push(opts[c]);
        if can_continue && opts[c] != st.last { st.preemptions += 1; }
        st.current = opts[c]; st.last = opts[c];
    }
    fn wait_turn(mut st: std::sync::MutexGuard<'static, St>, me: usize) {
        while st.current != me {
            if st.abort { drop(st); std::panic::resume_unwind(Box::new(Aborted)); }
            st = CV.wait(st).unwrap();
        }
    }
    /// a scheduling point of the running thread; `blocked` = it cannot proceed until some lock is released
    pub fn yield_point(blocked: bool) {
        let me = ME.with(|m| m.get());
        let mut st = ST.lock().unwrap();
        if !st.active || me == usize::MAX { return; }
        if blocked { st.status[me] = 1; }
        pick(&mut st);
        CV.notify_all();
        wait_turn(st, me);
    }
    pub fn unblock_all() { let mut st = ST.lock().unwrap(); if !st.active { return; } for s in st.status.iter_mut() { if *s == 1 { *s = 0; } } }
    pub struct Outcome { pub trace: Vec<(usize, usize)>, pub order: Vec<usize>, pub deadlock: bool, pub panicked: Vec<usize> }
    fn worker(i: usize, p: Box<dyn FnOnce() + Send>) {
        ME.with(|m| m.set(i));
        let r = std::panic::catch_unwind(std::panic::AssertUnwindSafe(move || { wait_turn(ST.lock().unwrap(), i); p() }));
        let mut st = ST.lock().unwrap();
        if let Err(e) = &r { if !e.is::<Aborted>() { st.panicked.push(i); } }
        st.status[i] = 2;
        for x in st.status.iter_mut() { if *x == 1 { *x = 0; } }   // a thread that ends may be what a parked thread waits for
        if !st.abort { pick(&mut st); }
        CV.notify_all();
        drop(st);
        *FINISHED.lock().unwrap() += 1; FCV.notify_all();
    }
    // watchdog: a scheduled thread that blocks OUTSIDE the scheduler (in a blocking primitive the shims do not model) would stall
    // every other thread for ever; the harness then stops with exit code 3, which the driver reports as undecided — never as a verdict
    static FINISHED: Mutex<usize> = Mutex::new(0);
    static FCV: Condvar = Condvar::new();
    pub static STUCK_AFTER_S: std::sync::atomic::AtomicU64 = std::sync::atomic::AtomicU64::new(120);
    static SPAWNED: Mutex<Vec<std::thread::JoinHandle<()>>> = Mutex::new(Vec::new());
    /// a task started by the code under test (`task::spawn`): it becomes one more scheduled thread; returns its index.
    /// Outside `run` (while the harness builds the initial state) it simply runs to completion first.
    pub fn spawn(p: Box<dyn FnOnce() + Send>) -> usize {
        let mut st = ST.lock().unwrap();
        if !st.active { drop(st); let _ = std::thread::spawn(p).join(); return usize::MAX; }
        let i = st.status.len();
        st.status.push(0);
        drop(st);
        SPAWNED.lock().unwrap().push(std::thread::spawn(move || worker(i, p)));
        i
    }
    /// number of scheduled threads that have not finished yet, not counting the caller
    pub fn others_alive() -> usize { let me = ME.with(|m| m.get()); let st = ST.lock().unwrap(); (0..st.status.len()).filter(|i| *i != me && st.status[*i] != 2).count() }
    /// runs the programs under the schedule that follows `prefix` and then always takes the first runnable thread
    pub fn run(progs: Vec<Box<dyn FnOnce() + Send>>, prefix: &[usize]) -> Outcome {
        *FINISHED.lock().unwrap() = 0;
        { let mut st = ST.lock().unwrap(); *st = St { active: true, current: usize::MAX, status: vec![0; progs.len()], prefix: prefix.to_vec(), trace: vec![], order: vec![], abort: false, panicked: vec![], last: usize::MAX, preemptions: 0 }; }
        let hs: Vec<_> = progs.into_iter().enumerate().map(|(i, p)| std::thread::spawn(move || worker(i, p))).collect();
        { let mut st = ST.lock().unwrap(); pick(&mut st); CV.notify_all(); }
        loop {
            let total = ST.lock().unwrap().status.len();
            let g = FINISHED.lock().unwrap();
            if *g >= total { break; }
            let (g2, to) = FCV.wait_timeout(g, std::time::Duration::from_secs(STUCK_AFTER_S.load(std::sync::atomic::Ordering::Relaxed))).unwrap();
            if to.timed_out() && *g2 < total {
                eprintln!("HARNESS-STUCK: a scheduled thread blocked outside the controlled scheduler (a blocking primitive the shims do not model); no verdict");
                std::process::exit(3);
            }
        }
        for h in hs { let _ = h.join(); }
        loop { let h = SPAWNED.lock().unwrap().pop(); match h { Some(h) => { let _ = h.join(); } None => break } }
        let mut st = ST.lock().unwrap();
        st.active = false;
        Outcome { trace: std::mem::take(&mut st.trace), order: std::mem::take(&mut st.order), deadlock: st.abort, panicked: std::mem::take(&mut st.panicked) }
    }
    /// the choice prefix of the next unexplored schedule after one that produced `trace`, if any
    pub fn next_prefix(mut trace: Vec<(usize, usize)>) -> Option<Vec<usize>> {
        while let Some((k, c)) = trace.pop() { if c + 1 < k { let mut p: Vec<usize> = trace.iter().map(|x| x.1).collect(); p.push(c + 1); return Some(p); } }
        None
    }
    // ---- shim locks with std's API (read/write/lock return Result so that `.expect("poisoned")` / `.unwrap()` work)
    #[derive(Debug)] pub struct Poisoned;
    #[derive(Debug, Default)] pub struct RwLock<T> { inner: std::sync::RwLock<T> }
    pub struct ReadGuard<'a, T> { g: Option<std::sync::RwLockReadGuard<'a, T>> }
    pub struct WriteGuard<'a, T> { g: Option<std::sync::RwLockWriteGuard<'a, T>> }
    impl<T> RwLock<T> {
        pub fn new(t: T) -> Self { RwLock { inner: std::sync::RwLock::new(t) } }
        pub fn read(&self) -> Result<ReadGuard<'_, T>, Poisoned> {
            yield_point(false);
            loop { match self.inner.try_read() { Ok(g) => return Ok(ReadGuard { g: Some(g) }), Err(std::sync::TryLockError::Poisoned(_)) => return Err(Poisoned), Err(_) => yield_point(true) } }
        }
        pub fn write(&self) -> Result<WriteGuard<'_, T>, Poisoned> {
            yield_point(false);
            loop { match self.inner.try_write() { Ok(g) => return Ok(WriteGuard { g: Some(g) }), Err(std::sync::TryLockError::Poisoned(_)) => return Err(Poisoned), Err(_) => yield_point(true) } }
        }
    }
    impl<T> std::ops::Deref for ReadGuard<'_, T> { type Target = T; fn deref(&self) -> &T { self.g.as_ref().unwrap() } }
    impl<T> std::ops::Deref for WriteGuard<'_, T> { type Target = T; fn deref(&self) -> &T { self.g.as_ref().unwrap() } }
    impl<T> std::ops::DerefMut for WriteGuard<'_, T> { fn deref_mut(&mut self) -> &mut T { self.g.as_mut().unwrap() } }
    impl<T> Drop for ReadGuard<'_, T> { fn drop(&mut self) { self.g.take(); unblock_all(); } }
    impl<T> Drop for WriteGuard<'_, T> { fn drop(&mut self) { self.g.take(); unblock_all(); } }
    #[derive(Debug, Default)] pub struct Mutex2<T> { inner: std::sync::Mutex<T> }
    pub struct MutexGuard2<'a, T> { g: Option<std::sync::MutexGuard<'a, T>> }
    impl<T> Mutex2<T> {
        pub fn new(t: T) -> Self { Mutex2 { inner: std::sync::Mutex::new(t) } }
        pub fn lock(&self) -> Result<MutexGuard2<'_, T>, Poisoned> {
            yield_point(false);
            loop { match self.inner.try_lock() { Ok(g) => return Ok(MutexGuard2 { g: Some(g) }), Err(std::sync::TryLockError::Poisoned(_)) => return Err(Poisoned), Err(_) => yield_point(true) } }
        }
    }
    impl<T> std::ops::Deref for MutexGuard2<'_, T> { type Target = T; fn deref(&self) -> &T { self.g.as_ref().unwrap() } }
    impl<T> std::ops::DerefMut for MutexGuard2<'_, T> { fn deref_mut(&mut self) -> &mut T { self.g.as_mut().unwrap() } }
    impl<T> Drop for MutexGuard2<'_, T> { fn drop(&mut self) { self.g.take(); unblock_all(); } }
}
