// ---- BX harness support (not code under test): collects evaluations and failures, prints the JSON report bx_run.py reads
pub struct Rep {
    pub evaluations: u64, pub nontrivial: u64, pub samples: Vec<String>, pub only: Option<String>,
    fc: std::collections::BTreeMap<(String, String), u64>, fails: Vec<(String, String, String, String)>,
}
impl Rep {
    pub fn new(only: Option<String>) -> Self { Rep { evaluations: 0, nontrivial: 0, samples: vec![], only, fc: Default::default(), fails: vec![] } }
    /// true when the harness was asked to replay one recorded input and this is not it
    pub fn skip(&self, input: &str) -> bool { self.only.as_ref().map(|o| o != input).unwrap_or(false) }
    pub fn fail(&mut self, ob: &str, class: &str, input: &str, detail: String) {
        *self.fc.entry((ob.to_string(), class.to_string())).or_insert(0) += 1;
        if self.fails.iter().filter(|f| f.0 == ob && f.1 == class).count() < 3 { self.fails.push((ob.to_string(), class.to_string(), input.to_string(), detail)); }
    }
    pub fn failures_is_empty(&self) -> bool { self.fails.is_empty() }
    pub fn sample(&mut self, s: &str) { if self.samples.len() < 3 { self.samples.push(s.to_string()); } }
    pub fn finish(self) {
        let esc = |s: &str| s.replace('\\', "\\\\").replace('"', "\\\"").replace('\n', " ");
        let mut o = format!("{{\"evaluations\": {}, \"nontrivial\": {}, \"samples\": [{}], ", self.evaluations, self.nontrivial,
            self.samples.iter().map(|s| format!("\"{}\"", esc(s))).collect::<Vec<_>>().join(", "));
        o += &format!("\"fail_counts\": [{}], ", self.fc.iter().map(|((k, c), n)| format!("{{\"obligation\": \"{k}\", \"class\": \"{c}\", \"count\": {n}}}")).collect::<Vec<_>>().join(", "));
        o += &format!("\"failures\": [{}]}}", self.fails.iter().map(|(k, c, i, d)| format!("{{\"obligation\": \"{k}\", \"class\": \"{c}\", \"input\": \"{}\", \"detail\": \"{}\"}}", esc(i), esc(d))).collect::<Vec<_>>().join(", "));
        println!("{o}");
    }
}
