//! C35 — bounded stand-in (NOT a proof): the real `iroh-dns` crate, `DnsResolver::resolve_host_all`, driven with a scripted
//! resolver (results, failures, lookups that never answer, completion order) under tokio's paused clock.
#![allow(dead_code, unused_imports)]
use std::future::Future;
use std::net::{IpAddr, Ipv4Addr, Ipv6Addr};
use std::pin::Pin;
use std::sync::{Arc, Mutex, atomic::{AtomicUsize, Ordering}};
use std::task::{Context, Poll, Waker};
use std::time::Duration;

use iroh_dns::dns::{BoxIter, DnsError, DnsResolver, Resolver, TxtRecordData};
use n0_error::e;
use n0_future::{Stream, StreamExt, boxed::BoxFuture};
use tokio::sync::oneshot;

include!(concat!(env!("VERIF_BX_SHIMS"), "/harness.rs"));

#[derive(Debug, Clone, PartialEq)]
enum Res { Addrs(usize), Fails, Hangs }
type Slot<T> = Arc<Mutex<Option<oneshot::Receiver<Result<Vec<T>, ()>>>>>;
#[derive(Debug)]
struct Scripted { v4: Slot<Ipv4Addr>, v6: Slot<Ipv6Addr>, calls: Arc<AtomicUsize> }
fn answer<T: Send + 'static>(slot: &Slot<T>, calls: &Arc<AtomicUsize>) -> BoxFuture<Result<BoxIter<T>, DnsError>> {
    calls.fetch_add(1, Ordering::SeqCst);
    let rx = slot.lock().unwrap().take();
    Box::pin(async move {
        match rx { None => Err(e!(DnsError::NoResponse)), Some(rx) => match rx.await {
            Ok(Ok(v)) => { let it: BoxIter<T> = Box::new(v.into_iter()); Ok(it) }
            Ok(Err(())) => Err(e!(DnsError::NoResponse)),
            Err(_) => std::future::pending().await,      // the script never answers this lookup
        } }
    })
}
impl Resolver for Scripted {
    fn lookup_ipv4(&self, _host: String) -> BoxFuture<Result<BoxIter<Ipv4Addr>, DnsError>> { answer(&self.v4, &self.calls) }
    fn lookup_ipv6(&self, _host: String) -> BoxFuture<Result<BoxIter<Ipv6Addr>, DnsError>> { answer(&self.v6, &self.calls) }
    fn lookup_txt(&self, _host: String) -> BoxFuture<Result<BoxIter<TxtRecordData>, DnsError>> { Box::pin(async { Err(e!(DnsError::NoResponse)) }) }
    fn clear_cache(&self) {}
    fn reset(&self) -> Box<dyn Resolver> { Box::new(Scripted { v4: self.v4.clone(), v6: self.v6.clone(), calls: self.calls.clone() }) }
}
fn v4s(n: usize) -> Vec<Ipv4Addr> { (0..n).map(|i| Ipv4Addr::new(192, 0, 2, 1 + i as u8)).collect() }
fn v6s(n: usize) -> Vec<Ipv6Addr> { (0..n).map(|i| Ipv6Addr::new(0x2001, 0xdb8, 0, 0, 0, 0, 0, 1 + i as u16)).collect() }
fn show(items: &[Result<IpAddr, DnsError>]) -> Vec<String> {
    items.iter().map(|r| match r { Ok(a) => a.to_string(), Err(DnsError::ResolveBoth { .. }) => "Err(both lookups failed)".into(), Err(DnsError::NoResponse { .. }) => "Err(no response)".into(),
        Err(DnsError::MissingHost { .. }) => "Err(missing host)".into(), Err(other) => format!("Err(other: {other})") }).collect()
}

fn main() {
    let args: Vec<String> = std::env::args().collect();
    let max_addrs: usize = args.get(1).and_then(|s| s.parse().ok()).unwrap_or(2);
    let mut rep = Rep::new(args.get(3).cloned());
    let rt = tokio::runtime::Builder::new_current_thread().enable_time().start_paused(true).build().unwrap();
    let mut results: Vec<Res> = (0..=max_addrs).map(Res::Addrs).collect(); results.push(Res::Fails); results.push(Res::Hangs);
    // ---- domain names: every pair of lookup outcomes, in every completion order
    for r4 in &results { for r6 in &results { for order in ["v4 first", "v6 first", "both before the stream is polled"] {
        let input = format!("host=domain v4={:?} v6={:?} order={}", r4, r6, order);
        if rep.skip(&input) { continue; }
        rep.evaluations += 1; if matches!((r4, r6), (Res::Addrs(a), Res::Addrs(b)) if a + b >= 2) { rep.nontrivial += 1; }
        if *r4 == Res::Addrs(2) && *r6 == Res::Fails { rep.sample(&input); }
        let (r4c, r6c) = (r4.clone(), r6.clone());
        let out = std::panic::catch_unwind(std::panic::AssertUnwindSafe(|| rt.block_on(async move {
            let (t4, x4) = oneshot::channel(); let (t6, x6) = oneshot::channel();
            let calls = Arc::new(AtomicUsize::new(0));
            let resolver = DnsResolver::custom(Scripted { v4: Arc::new(Mutex::new(Some(x4))), v6: Arc::new(Mutex::new(Some(x6))), calls: calls.clone() });
            let url = url::Url::parse("https://relay.example.org:443/x").unwrap();
            let mut stream = std::pin::pin!(resolver.resolve_host_all(&url, Duration::from_secs(5)));
            let mut held: Vec<Box<dyn std::any::Any>> = vec![];
            let mut t4 = Some(t4); let mut t6 = Some(t6);
            let mut fire4 = |t: &mut Option<oneshot::Sender<Result<Vec<Ipv4Addr>, ()>>>, held: &mut Vec<Box<dyn std::any::Any>>| { if let Some(tx) = t.take() { match &r4c { Res::Addrs(n) => { let _ = tx.send(Ok(v4s(*n))); } Res::Fails => { let _ = tx.send(Err(())); } Res::Hangs => held.push(Box::new(tx)) } } };
            let mut fire6 = |t: &mut Option<oneshot::Sender<Result<Vec<Ipv6Addr>, ()>>>, held: &mut Vec<Box<dyn std::any::Any>>| { if let Some(tx) = t.take() { match &r6c { Res::Addrs(n) => { let _ = tx.send(Ok(v6s(*n))); } Res::Fails => { let _ = tx.send(Err(())); } Res::Hangs => held.push(Box::new(tx)) } } };
            let mut early: Vec<Result<IpAddr, DnsError>> = vec![];
            match order {
                "v4 first" => fire4(&mut t4, &mut held),
                "v6 first" => fire6(&mut t6, &mut held),
                _ => { fire4(&mut t4, &mut held); fire6(&mut t6, &mut held); }
            }
            // what the stream yields before the other lookup has completed (polled by hand: no waiting)
            let mut cx = Context::from_waker(Waker::noop());
            let mut ended_early = false;
            for _ in 0..64 { match stream.as_mut().poll_next(&mut cx) { Poll::Ready(Some(it)) => early.push(it), Poll::Ready(None) => { ended_early = true; break; } Poll::Pending => break } }
            fire4(&mut t4, &mut held); fire6(&mut t6, &mut held);
            let mut rest: Vec<Result<IpAddr, DnsError>> = vec![];
            if !ended_early { let mut guard = 0; while let Some(it) = stream.next().await { rest.push(it); guard += 1; if guard > 64 { break; } } }
            drop(held);
            (early, rest)
        })));
        let (early, rest) = match out { Err(_) => { rep.fail("never-panics", "domain", &input, "resolve_host_all panicked".into()); continue; } Ok(x) => x };
        // independent statement of the property
        let a4: Vec<IpAddr> = match r4 { Res::Addrs(n) => v4s(*n).into_iter().map(IpAddr::V4).collect(), _ => vec![] };
        let a6: Vec<IpAddr> = match r6 { Res::Addrs(n) => v6s(*n).into_iter().map(IpAddr::V6).collect(), _ => vec![] };
        let failed = |r: &Res| !matches!(r, Res::Addrs(_));     // a lookup that never answers fails with the timeout
        let early_addrs: Vec<IpAddr> = early.iter().filter_map(|r| r.as_ref().ok().copied()).collect();
        let all: Vec<Result<IpAddr, DnsError>> = early.into_iter().chain(rest).collect();
        let got_addrs: Vec<IpAddr> = all.iter().filter_map(|r| r.as_ref().ok().copied()).collect();
        let mut want_sorted: Vec<IpAddr> = a4.iter().chain(a6.iter()).copied().collect(); want_sorted.sort();
        let mut got_sorted = got_addrs.clone(); got_sorted.sort();
        if got_sorted != want_sorted { rep.fail("yields-every-address-of-both-lookups", "domain", &input, format!("yielded {:?}, the lookups returned {:?} and {:?}", show(&all), a4, a6)); }
        // as each lookup completes: the addresses of the lookup that completed first come first (and in its order)
        let first: Option<&Vec<IpAddr>> = match order { "v4 first" if !matches!(r4, Res::Hangs) => Some(&a4), "v6 first" if !matches!(r6, Res::Hangs) => Some(&a6), _ => None };
        // ... and they are yielded before the other lookup has completed (the stream was polled by hand in between)
        if let Some(f) = first && order != "both before the stream is polled" && early_addrs != *f { rep.fail("yields-as-each-lookup-completes", "domain", &input, format!("before the other lookup completed the stream had yielded {:?}, but the lookup that had completed returned {:?}", early_addrs, f)); }
        if let Some(f) = first && got_sorted == want_sorted && !got_addrs.starts_with(f) { rep.fail("yields-as-each-lookup-completes", "domain", &input, format!("yielded {:?}, but the lookup that completed first returned {:?}", show(&all), f)); }
        let errs: Vec<&Result<IpAddr, DnsError>> = all.iter().filter(|r| r.is_err()).collect();
        let want_err: Option<&str> = if failed(r4) && failed(r6) { Some("Err(both lookups failed)") } else if want_sorted.is_empty() { Some("Err(no response)") } else { None };
        let got_err: Vec<String> = show(&all).into_iter().filter(|s| s.starts_with("Err")).collect();
        match want_err {
            None => if !got_err.is_empty() { rep.fail("error-only-when-the-property-says", "domain", &input, format!("yielded {:?} although addresses were yielded and not both lookups failed", show(&all))); },
            Some(w) => if got_err != vec![w.to_string()] || !all.last().is_some_and(|l| l.is_err()) { rep.fail("error-only-when-the-property-says", "domain", &input, format!("yielded {:?}, expected the addresses followed by exactly one {}", show(&all), w)); },
        }
    } } }
    // ---- hosts that are IP literals or missing: yielded directly, the resolver is not asked
    for (u, want) in [("https://192.0.2.9:443/", "192.0.2.9"), ("https://[2001:db8::9]/", "2001:db8::9"), ("http://127.0.0.1", "127.0.0.1"), ("data:text/plain,hello", "Err(missing host)"), ("mailto:a@example.org", "Err(missing host)")] {
        let input = format!("host-of={u}");
        if rep.skip(&input) { continue; }
        rep.evaluations += 1;
        let out = std::panic::catch_unwind(std::panic::AssertUnwindSafe(|| rt.block_on(async move {
            let calls = Arc::new(AtomicUsize::new(0));
            let resolver = DnsResolver::custom(Scripted { v4: Arc::new(Mutex::new(None)), v6: Arc::new(Mutex::new(None)), calls: calls.clone() });
            let url = url::Url::parse(u).unwrap();
            let items: Vec<Result<IpAddr, DnsError>> = resolver.resolve_host_all(&url, Duration::from_secs(5)).collect().await;
            (items, calls.load(Ordering::SeqCst))
        })));
        match out {
            Err(_) => rep.fail("never-panics", "literal", &input, "resolve_host_all panicked".into()),
            Ok((items, calls)) => { if show(&items) != vec![want.to_string()] || calls != 0 { rep.fail("ip-literals-are-yielded-directly", "literal", &input, format!("yielded {:?} with {} resolver calls, expected exactly [{}] and none", show(&items), calls, want)); } }
        }
    }
    rep.finish();
}
