//! C01 — bounded second line (NOT a proof): the real `iroh` crate (built with `--cfg n0_computer_iroh_verif`, which exposes the
//! crate-private TLS name codec, certificate verifiers and raw-public-key resolver), driven
//!   (1) name codec: decode(encode(id)) == id on a family of ids; every single-character substitution, deletion, insertion,
//!       truncation, label change and case change of an encoded name decodes to an id only if the name has the shape
//!       `<base32hex of the id's 32 bytes>.iroh.invalid` (judged by an independent base32 decoder in this file);
//!   (2) the server-certificate verifier called directly on (dialed name) x (presented end-entity bytes) x (intermediates);
//!   (3) REAL rustls TLS 1.3 handshakes in memory between a client that dials id K and servers that present any certificate
//!       bytes of a family and sign with any key of the family — and the mirror image for client authentication.
//! The assembly of iroh's rustls configs (which verifier and resolver are installed, TLS 1.3 only) is repeated here from
//! tls.rs, not run from it.
#![allow(dead_code, unused_imports)]
use std::io::{Read, Write};
use std::sync::Arc;

use iroh::tls::verif_hooks as hooks;
use iroh_base::{EndpointId, PublicKey, SecretKey};
use rustls::client::danger::ServerCertVerifier;
use rustls::sign::{CertifiedKey, Signer, SigningKey};
use rustls_pki_types::{CertificateDer, ServerName, SubjectPublicKeyInfoDer, UnixTime};

include!(concat!(env!("VERIF_BX_SHIMS"), "/harness.rs"));

fn secret(tag: u8) -> SecretKey { let mut b = [tag; 32]; b[0] = 0x17; b[5] = tag.wrapping_mul(29); b[31] = tag ^ 0x5a; SecretKey::from_bytes(&b) }
/// the SPKI of an Ed25519 key, written out here independently of rustls: 12 fixed bytes, then the key
fn spki(key: &[u8; 32]) -> Vec<u8> { let mut v = vec![0x30, 0x2a, 0x30, 0x05, 0x06, 0x03, 0x2b, 0x65, 0x70, 0x03, 0x21, 0x00]; v.extend_from_slice(key); v }
const ALPHA: &[u8; 32] = b"0123456789abcdefghijklmnopqrstuv";
/// independent statement of the name shape: Some(key bytes) iff `name` is `<52 base32hex characters encoding 32 bytes with zero
/// padding bits>.iroh.invalid` (the base32 label in either case)
fn shape(name: &str) -> Option<[u8; 32]> {
    let labels: Vec<&str> = name.split('.').collect();
    if labels.len() != 3 || labels[1] != "iroh" || labels[2] != "invalid" || labels[0].len() != 52 { return None; }
    let mut bits: Vec<bool> = vec![];
    for ch in labels[0].bytes() { let v = ALPHA.iter().position(|a| *a == ch.to_ascii_lowercase())?; for k in (0..5).rev() { bits.push(v >> k & 1 == 1); } }
    if bits[256..].iter().any(|b| *b) { return None; }
    let mut out = [0u8; 32];
    for (i, b) in bits[..256].iter().enumerate() { if *b { out[i / 8] |= 1 << (7 - i % 8); } }
    Some(out)
}

// ---- an attacker's TLS identity: any certificate bytes, signed for with any key (or with garbage)
#[derive(Debug, Clone)] struct AnySigner { key: SecretKey, garbage: bool, forged: bool }
impl SigningKey for AnySigner {
    fn choose_scheme(&self, offered: &[rustls::SignatureScheme]) -> Option<Box<dyn Signer>> { if offered.contains(&rustls::SignatureScheme::ED25519) { Some(Box::new(self.clone())) } else { None } }
    fn algorithm(&self) -> rustls::SignatureAlgorithm { rustls::SignatureAlgorithm::ED25519 }
}
impl Signer for AnySigner {
    fn sign(&self, message: &[u8]) -> Result<Vec<u8>, rustls::Error> { if self.forged { let mut v = vec![0u8; 64]; v[0] = 1; Ok(v) } else if self.garbage { Ok(vec![0x42; 64]) } else { Ok(self.key.sign(message).to_bytes().to_vec()) } }
    fn scheme(&self) -> rustls::SignatureScheme { rustls::SignatureScheme::ED25519 }
}
#[derive(Debug)] struct AnyCert(Arc<CertifiedKey>);
impl AnyCert { fn new(cert: Vec<u8>, signer: AnySigner) -> Self { AnyCert(Arc::new(CertifiedKey::new(vec![CertificateDer::from(cert)], Arc::new(signer)))) } }
impl rustls::server::ResolvesServerCert for AnyCert {
    fn resolve(&self, _h: rustls::server::ClientHello<'_>) -> Option<Arc<CertifiedKey>> { Some(self.0.clone()) }
    fn only_raw_public_keys(&self) -> bool { true }
}
impl rustls::client::ResolvesClientCert for AnyCert {
    fn resolve(&self, _r: &[&[u8]], _s: &[rustls::SignatureScheme]) -> Option<Arc<CertifiedKey>> { Some(self.0.clone()) }
    fn only_raw_public_keys(&self) -> bool { true }
    fn has_certs(&self) -> bool { true }
}
/// iroh's client config as tls.rs assembles it (verifier and protocol versions are the crate's own), with the given identity
fn client_config(identity: Arc<dyn rustls::client::ResolvesClientCert>) -> Arc<rustls::ClientConfig> {
    let mut c = rustls::ClientConfig::builder_with_provider(iroh::tls::default_provider()).with_protocol_versions(hooks::protocol_versions()).unwrap()
        .dangerous().with_custom_certificate_verifier(hooks::server_cert_verifier()).with_client_cert_resolver(identity);
    c.enable_sni = false;
    Arc::new(c)
}
fn server_config(identity: Arc<dyn rustls::server::ResolvesServerCert>) -> Arc<rustls::ServerConfig> {
    Arc::new(rustls::ServerConfig::builder_with_provider(iroh::tls::default_provider()).with_protocol_versions(hooks::protocol_versions()).unwrap()
        .with_client_cert_verifier(hooks::client_cert_verifier()).with_cert_resolver(identity))
}
struct Done { client: Result<(), String>, server: Result<(), String>, client_sees: Option<Vec<u8>>, server_sees: Option<Vec<u8>> }
/// a complete TLS handshake in memory; Ok on a side = that side finished its handshake
fn handshake(cc: Arc<rustls::ClientConfig>, sc: Arc<rustls::ServerConfig>, name: ServerName<'static>) -> Done {
    let mut c = match rustls::ClientConnection::new(cc, name) { Ok(c) => c, Err(e) => return Done { client: Err(format!("{e}")), server: Err("not started".into()), client_sees: None, server_sees: None } };
    let mut s = rustls::ServerConnection::new(sc).expect("server connection");
    let (mut cerr, mut serr): (Option<String>, Option<String>) = (None, None);
    for _ in 0..40 {
        let mut buf = vec![];
        while c.wants_write() { c.write_tls(&mut buf).unwrap(); }
        if !buf.is_empty() && serr.is_none() { let mut r = &buf[..]; while !r.is_empty() { if s.read_tls(&mut r).is_err() { break; } if let Err(e) = s.process_new_packets() { serr = Some(format!("{e}")); break; } } }
        let mut buf = vec![];
        while s.wants_write() { s.write_tls(&mut buf).unwrap(); }
        if !buf.is_empty() && cerr.is_none() { let mut r = &buf[..]; while !r.is_empty() { if c.read_tls(&mut r).is_err() { break; } if let Err(e) = c.process_new_packets() { cerr = Some(format!("{e}")); break; } } }
        if (cerr.is_some() || !c.is_handshaking()) && (serr.is_some() || !s.is_handshaking()) && !c.wants_write() && !s.wants_write() { break; }
    }
    let fin = |err: Option<String>, hs: bool| match err { Some(e) => Err(e), None if hs => Err("handshake did not finish".into()), None => Ok(()) };
    Done { client: fin(cerr, c.is_handshaking()), server: fin(serr, s.is_handshaking()),
           client_sees: c.peer_certificates().and_then(|v| v.first().map(|x| x.as_ref().to_vec())), server_sees: s.peer_certificates().and_then(|v| v.first().map(|x| x.as_ref().to_vec())) }
}

fn main() {
    let args: Vec<String> = std::env::args().collect();
    let n_ids: usize = args.get(1).and_then(|s| s.parse().ok()).unwrap_or(24);
    let mut rep = Rep::new(args.get(3).cloned());
    let ids: Vec<EndpointId> = (0..n_ids).map(|i| secret(i as u8 + 1).public()).collect();

    // ---- (1) the name codec
    for (i, id) in ids.iter().enumerate() {
        let name = hooks::name_encode(*id);
        let input = format!("codec id#{i} name={name}");
        if rep.skip(&input) { continue; }
        rep.evaluations += 1;
        if i == 0 { rep.sample(&input); }
        if shape(&name) != Some(*id.as_bytes()) { rep.fail("encoded-name-has-the-stated-shape", "codec", &input, format!("encode gives {name:?}, which is not <base32hex of the key>.iroh.invalid")); }
        match hooks::name_decode(&name) { Some(x) if x == *id => {}, other => rep.fail("name-decodes-back-to-the-id", "codec", &input, format!("decode(encode(id)) = {:?}", other.map(|x| x.fmt_short().to_string()))) }
        // mutation family of the encoded name
        let b = name.as_bytes();
        let mut family: Vec<String> = vec![];
        let subs: Vec<u8> = if i < 3 { b"0123456789abcdefghijklmnopqrstuvwxyzAV._-=".to_vec() } else { b"01vwV.".to_vec() };
        for p in 0..b.len() { for ch in &subs { if b[p] != *ch { let mut m = b.to_vec(); m[p] = *ch; family.push(String::from_utf8(m).unwrap()); } } }
        for p in 0..b.len() { let mut m = b.to_vec(); m.remove(p); family.push(String::from_utf8(m).unwrap()); }
        for p in 0..=b.len() { for ch in [b'0', b'a', b'.'] { let mut m = b.to_vec(); m.insert(p, ch); family.push(String::from_utf8(m).unwrap()); } }
        for k in 0..b.len() { family.push(name[..k].to_string()); }
        let label = &name[..52];
        for s in [format!("{label}"), format!("{label}.iroh"), format!("{label}.invalid"), format!("{label}.iroh.invalid."), format!(".{label}.iroh.invalid"), format!("{label}.iroh.invalid.com"), format!("x.{label}.iroh.invalid"),
                  format!("{label}.IROH.invalid"), format!("{label}.iroh.INVALID"), format!("{label}.iroh.localhost"), format!("{label}.iroh.invalid "), format!(" {label}.iroh.invalid"), format!("{label}=.iroh.invalid"),
                  format!("{label}======.iroh.invalid"), format!("{}.iroh.invalid", label.to_uppercase()), format!("{label}{label}.iroh.invalid"), format!("{label}.iroh.invalid\0"), format!("{label}.irоh.invalid"), String::new(), "iroh.invalid".into(), "..".into()] { family.push(s); }
        for m in family {
            rep.evaluations += 1; rep.nontrivial += 1;
            let got = std::panic::catch_unwind(|| hooks::name_decode(&m));
            match got {
                Err(_) => rep.fail("never-panics", "codec", &format!("codec-mutant name={m:?}"), "decode panicked".into()),
                Ok(Some(x)) => if shape(&m) != Some(*x.as_bytes()) { rep.fail("a-name-decodes-to-an-id-only-if-it-has-the-shape", "codec", &format!("codec-mutant name={m:?}"), format!("decode gives id {} although the name is not <base32hex of that id's key>.iroh.invalid (shape says {:?})", x.fmt_short(), shape(&m).map(|k| k[..4].to_vec()))); },
                Ok(None) => {}
            }
        }
    }

    // ---- (2) the server-certificate verifier, called directly
    let v = hooks::server_cert_verifier();
    let now = UnixTime::since_unix_epoch(std::time::Duration::from_secs(1_790_000_000));
    let few = &ids[..ids.len().min(4)];
    for (di, dialed) in few.iter().enumerate() {
        let good = spki(dialed.as_bytes());
        let mut certs: Vec<(String, Vec<u8>)> = vec![("the dialed key's SPKI".into(), good.clone())];
        for (oi, other) in few.iter().enumerate() { if oi != di { certs.push((format!("SPKI of id#{oi}"), spki(other.as_bytes()))); } }
        for p in 0..good.len() { for mask in [0x01u8, 0x80, 0xff] { let mut m = good.clone(); m[p] ^= mask; certs.push((format!("dialed SPKI with byte {p} ^ {mask:#x}"), m)); } }
        for k in 0..good.len() { certs.push((format!("dialed SPKI truncated to {k}"), good[..k].to_vec())); }
        for extra in [vec![0u8], vec![0x30, 0x00], good.clone()] { let mut m = good.clone(); m.extend_from_slice(&extra); certs.push((format!("dialed SPKI + {} more bytes", extra.len()), m)); }
        certs.push(("the raw 32 key bytes".into(), dialed.as_bytes().to_vec()));
        let names: Vec<(String, Option<ServerName<'static>>)> = {
            let mut n: Vec<(String, Option<ServerName<'static>>)> = vec![];
            for (ni, nid) in few.iter().enumerate() { let s = hooks::name_encode(*nid); n.push((format!("name of id#{ni}"), ServerName::try_from(s).ok())); }
            n.push(("localhost".into(), ServerName::try_from("localhost".to_string()).ok()));
            n.push(("ip 192.0.2.1".into(), ServerName::try_from("192.0.2.1".to_string()).ok()));
            n.push(("dialed name, upper-case label".into(), ServerName::try_from(hooks::name_encode(*dialed)[..52].to_uppercase() + ".iroh.invalid").ok()));
            n.push(("dialed name under .iroh.invalid.example".into(), ServerName::try_from(hooks::name_encode(*dialed) + ".example").ok()));
            n
        };
        for (cdesc, cert) in &certs { for (ndesc, name) in &names { for inter in [0usize, 1, 2] {
            let Some(name) = name else { continue };
            let input = format!("verifier dialed=id#{di} presented=[{cdesc}] server-name=[{ndesc}] intermediates={inter}");
            if rep.skip(&input) { continue; }
            rep.evaluations += 1; if cdesc.starts_with("dialed SPKI") { rep.nontrivial += 1; }
            if di == 0 && cdesc.ends_with("byte 11 ^ 0x1") && inter == 0 && ndesc == "name of id#0" { rep.sample(&input); }
            let ee = CertificateDer::from(cert.clone());
            let inters: Vec<CertificateDer<'static>> = (0..inter).map(|k| CertificateDer::from(if k == 0 { good.clone() } else { vec![1, 2, 3] })).collect();
            let r = std::panic::catch_unwind(std::panic::AssertUnwindSafe(|| v.verify_server_cert(&ee, &inters, name, &[], now)));
            let named: Option<[u8; 32]> = match name { ServerName::DnsName(d) => shape(d.as_ref()), _ => None };
            let must_accept = inter == 0 && named.is_some_and(|k| *cert == spki(&k));
            match r {
                Err(_) => rep.fail("never-panics", "verifier", &input, "verify_server_cert panicked".into()),
                Ok(Ok(_)) if !must_accept => rep.fail("accepts-only-the-dialed-keys-certificate-without-chain", "verifier", &input, format!("accepted; the name stands for key {:?}…, presented were {} bytes, {} intermediates", named.map(|k| k[..4].to_vec()), cert.len(), inter)),
                Ok(Err(e)) if must_accept => rep.fail("accepts-the-dialed-keys-certificate", "verifier", &input, format!("rejected the right certificate: {e}")),
                _ => {}
            }
        } } }
    }

    // ---- (3) real handshakes
    let keys: Vec<SecretKey> = (0..4).map(|i| secret(i as u8 + 1)).collect();
    for (di, dialed) in keys.iter().enumerate() { for (ci, cert_of) in keys.iter().enumerate() { for (si, signer) in keys.iter().enumerate() { for variant in ["plain", "garbage-signature", "cert+1byte", "irohs-own-resolver"] {
        if variant == "irohs-own-resolver" && ci != si { continue; }
        let input = format!("handshake client-dials=key#{di} server-presents=SPKI(key#{ci}) server-signs-with=key#{si} variant={variant}");
        if rep.skip(&input) { continue; }
        rep.evaluations += 1; rep.nontrivial += 1;
        if di == 0 && ci == 0 && si == 1 && variant == "plain" { rep.sample(&input); }
        let mut cert = spki(cert_of.public().as_bytes());
        if variant == "cert+1byte" { cert.push(0); }
        let server_identity: Arc<dyn rustls::server::ResolvesServerCert> = if variant == "irohs-own-resolver" { hooks::server_cert_resolver(signer) } else { Arc::new(AnyCert::new(cert, AnySigner { key: signer.clone(), garbage: variant == "garbage-signature", forged: false })) };
        let client_key = secret(77);
        let name = ServerName::try_from(hooks::name_encode(dialed.public())).expect("a DNS name");
        let d = handshake(client_config(hooks::client_cert_resolver(&client_key)), server_config(server_identity), name);
        let server_proves_dialed_key = di == ci && ci == si && variant != "garbage-signature" && variant != "cert+1byte";
        if d.client.is_ok() && !server_proves_dialed_key { rep.fail("connection-completes-only-if-the-remote-proves-possession-of-the-dialed-key", "handshake", &input, "the client finished the handshake".into()); }
        if let Err(e) = &d.client && server_proves_dialed_key { rep.fail("an-honest-server-is-accepted", "handshake", &input, format!("the client failed: {e}")); }
        if d.client.is_ok() && d.client_sees.as_deref() != Some(&spki(dialed.public().as_bytes())[..]) { rep.fail("reported-remote-id-is-the-key-the-peer-holds", "handshake", &input, format!("after the handshake the client sees peer certificate {:?}", d.client_sees.as_ref().map(|c| c.len()))); }
        if d.client.is_ok() && d.server.is_ok() && d.server_sees.as_deref() != Some(&spki(client_key.public().as_bytes())[..]) { rep.fail("reported-remote-id-is-the-key-the-peer-holds", "handshake", &input, "the server does not see the client's key as its peer certificate".into()); }
    } } } }
    // the mirror image: the client authenticates with any certificate bytes and any signing key
    for (ci, cert_of) in keys.iter().enumerate() { for (si, signer) in keys.iter().enumerate() { for variant in ["plain", "garbage-signature"] {
        let input = format!("handshake client-presents=SPKI(key#{ci}) client-signs-with=key#{si} variant={variant}");
        if rep.skip(&input) { continue; }
        rep.evaluations += 1; rep.nontrivial += 1;
        let server_key = &keys[0];
        let identity: Arc<dyn rustls::client::ResolvesClientCert> = Arc::new(AnyCert::new(spki(cert_of.public().as_bytes()), AnySigner { key: signer.clone(), garbage: variant == "garbage-signature", forged: false }));
        let name = ServerName::try_from(hooks::name_encode(server_key.public())).expect("a DNS name");
        let d = handshake(client_config(identity), server_config(hooks::server_cert_resolver(server_key)), name);
        let proves = ci == si && variant == "plain";
        if d.server.is_ok() && !proves { rep.fail("connection-completes-only-if-the-remote-proves-possession-of-the-key-it-presents", "handshake", &input, format!("the server finished the handshake and sees peer certificate {:?}", d.server_sees.as_ref().map(|c| c.len()))); }
        if let Err(e) = &d.server && proves { rep.fail("an-honest-client-is-accepted", "handshake", &input, format!("the server failed: {e}")); }
        if d.server.is_ok() && d.server_sees.as_deref() != Some(&spki(cert_of.public().as_bytes())[..]) { rep.fail("reported-remote-id-is-the-key-the-peer-holds", "handshake", &input, "the server's peer certificate is not the presented key".into()); }
    } } }
    // ---- (4) ids nobody can hold the secret key of: the curve's small-order points that EndpointId accepts.  The signature (R = the
    //      neutral element, s = 0) satisfies the NON-strict Ed25519 equation for such a key whenever the challenge scalar times the key is
    //      neutral (always, for the neutral element itself); a verifier that insists on strict verification rejects it
    let weak: Vec<[u8; 32]> = {
        let hex = ["0100000000000000000000000000000000000000000000000000000000000000", "ecffffffffffffffffffffffffffffffffffffffffffffffffffffffffffffff7f",
                   "0000000000000000000000000000000000000000000000000000000000000000", "0000000000000000000000000000000000000000000000000000000000000080",
                   "26e8958fc2b227b045c3f489f2ef98f0d5dfac05d3c63339b13802886d53fc05", "26e8958fc2b227b045c3f489f2ef98f0d5dfac05d3c63339b13802886d53fc85",
                   "c7176a703d4dd84fba3c0b760d10670f2a2053fa2c39ccc64ec7fd7792ac037a", "c7176a703d4dd84fba3c0b760d10670f2a2053fa2c39ccc64ec7fd7792ac03fa"];
        hex.iter().map(|h| { let mut b = [0u8; 32]; for i in 0..32 { b[i] = u8::from_str_radix(&h[2 * i..2 * i + 2], 16).unwrap(); } b }).collect()
    };
    for (wi, w) in weak.iter().enumerate() {
        let Ok(id) = PublicKey::from_bytes(w) else { continue };
        for side in ["server", "client"] {
            let input = format!("handshake small-order-key#{wi} presented-and-forged-by={side}");
            if rep.skip(&input) { continue; }
            rep.evaluations += 1; rep.nontrivial += 1;
            if wi == 0 && side == "server" { rep.sample(&input); }
            let forger = AnyCert::new(spki(w), AnySigner { key: secret(99), garbage: false, forged: true });
            let d = if side == "server" {
                handshake(client_config(hooks::client_cert_resolver(&secret(77))), server_config(Arc::new(forger)), ServerName::try_from(hooks::name_encode(id)).expect("a DNS name"))
            } else {
                handshake(client_config(Arc::new(forger)), server_config(hooks::server_cert_resolver(&keys[0])), ServerName::try_from(hooks::name_encode(keys[0].public())).expect("a DNS name"))
            };
            let accepted = if side == "server" { d.client.is_ok() } else { d.server.is_ok() };
            if accepted { rep.fail("connection-completes-only-if-the-remote-proves-possession-of-the-dialed-key", "small-order-key", &input, format!("the handshake completed for id {} — a small-order point, for which no secret key exists — with the constant signature (R = neutral element, s = 0)", id.fmt_short())); }
        }
    }
    rep.finish();
}
