//! C32 (and the ordering clause of C37) — bounded second line (NOT a proof) behind the Verus unit `signed_packet`: the real
//! `iroh-dns` crate through its public API.  Packets built from a pool of keys and record sets go over the wire form and the relay
//! payload form and back; every single-byte modification (three masks), every truncation and some extensions of the wire form
//! must be rejected; whatever the unchecked constructors return can be inspected without a panic; `more_recent_than` is the strict
//! order "timestamp, then payload bytes".
#![allow(dead_code, unused_imports)]
use iroh_base::{PublicKey, SecretKey};
use iroh_dns::pkarr::{SignedPacket, Timestamp};

include!(concat!(env!("VERIF_BX_SHIMS"), "/harness.rs"));

fn quiet<T>(f: impl FnOnce() -> T) -> Result<T, ()> { std::panic::catch_unwind(std::panic::AssertUnwindSafe(f)).map_err(|_| ()) }
fn inspect(p: &SignedPacket) -> String { format!("{} {:?} {} {:?} {:?} {} {}", p.public_key(), p.signature().to_bytes().len(), p.timestamp().as_micros(), p.txt_records("_iroh").len(), p.all_txt_records().len(), p.encoded_packet().len(), p) }

fn main() {
    std::panic::set_hook(Box::new(|_| {}));
    let args: Vec<String> = std::env::args().collect();
    let keys: u8 = args.get(1).and_then(|s| s.parse().ok()).unwrap_or(3);
    let mut rep = Rep::new(args.get(3).cloned());
    let record_sets: Vec<(&str, Vec<String>)> = vec![
        ("_iroh", vec!["relay=https://relay.example.".into()]), ("_iroh", vec![]), ("_iroh", vec!["addr=192.0.2.1:1".into(), "addr=[2001:db8::1]:2".into(), "user-data=a=b".into()]),
        ("@", vec!["x".into()]), ("a.b.c", vec!["y".repeat(200)]), ("_iroh", vec!["".into()]),
    ];
    let mut made: Vec<SignedPacket> = vec![];
    for k in 0..keys { for (ri, (name, values)) in record_sets.iter().enumerate() {
        let input = format!("key={k} records={ri}");
        if rep.skip(&input) { continue; }
        rep.evaluations += 1; if !values.is_empty() { rep.nontrivial += 1; }
        if k == 0 && ri == 2 { rep.sample(&input); }
        let secret = SecretKey::from_bytes(&[k.wrapping_mul(37).wrapping_add(1); 32]);
        let other = SecretKey::from_bytes(&[k.wrapping_mul(37).wrapping_add(2); 32]);
        let r = quiet(|| {
            let mut bad: Vec<(&'static str, String)> = vec![];
            let Ok(p) = SignedPacket::from_txt_strings(&secret, name, values.iter(), 30) else { return (bad, None) };
            let wire = p.as_bytes().to_vec();
            // accepted from the wire / from a relay payload for the right key, and unchanged
            match SignedPacket::from_bytes(&wire) { Ok(q) if q.as_bytes() == &wire[..] && q == p => {}, other => bad.push(("accepts-a-correctly-signed-packet", format!("from_bytes of a fresh packet gives {:?}", other.map(|q| q.as_bytes().len())))) }
            match SignedPacket::from_relay_payload(&secret.public(), &p.to_relay_payload()) { Ok(q) if q == p => {}, _ => bad.push(("accepts-a-correctly-signed-packet", "from_relay_payload(to_relay_payload) for the signer's key is not the packet".into())) }
            if SignedPacket::from_relay_payload(&other.public(), &p.to_relay_payload()).is_ok() { bad.push(("rejects-what-the-key-did-not-sign", "relay payload accepted for another key".into())); }
            if p.public_key() != secret.public() { bad.push(("accepts-a-correctly-signed-packet", "public_key() is not the signer".into())); }
            if secret.public().verify(&{ let mut s = format!("3:seqi{}e1:v{}:", p.timestamp().as_micros(), p.encoded_packet().len()).into_bytes(); s.extend_from_slice(p.encoded_packet()); s }, &p.signature()).is_err() { bad.push(("accepts-a-correctly-signed-packet", "the signature is not over `3:seqi<timestamp>e1:v<len>:<payload>`".into())); }
            let _ = inspect(&p);
            // any modification of an accepted packet is rejected
            for i in 0..wire.len() { for mask in [0x01u8, 0x80, 0xff] {
                let mut w = wire.clone(); w[i] ^= mask;
                match quiet(|| SignedPacket::from_bytes(&w).map(|q| inspect(&q))) { Err(()) => bad.push(("never-panics", format!("from_bytes with byte {i} xor {mask:#x}"))), Ok(Ok(_)) => bad.push(("rejects-any-modification", format!("accepted with byte {i} (of {}) xor {mask:#x}", wire.len()))), Ok(Err(_)) => {} }
                // the unchecked constructor may accept it; inspecting the result must not panic
                if quiet(|| SignedPacket::from_bytes_unchecked(&w).map(|q| inspect(&q))).is_err() { bad.push(("never-panics", format!("from_bytes_unchecked / accessors with byte {i} xor {mask:#x}"))); }
            } }
            for cut in 0..wire.len() {
                match quiet(|| SignedPacket::from_bytes(&wire[..cut]).map(|q| inspect(&q))) { Err(()) => bad.push(("never-panics", format!("from_bytes of the first {cut} bytes"))), Ok(Ok(_)) => bad.push(("rejects-any-modification", format!("accepted truncated to {cut} of {} bytes", wire.len()))), Ok(Err(_)) => {} }
                if quiet(|| SignedPacket::from_bytes_unchecked(&wire[..cut]).map(|q| inspect(&q))).is_err() { bad.push(("never-panics", format!("from_bytes_unchecked of the first {cut} bytes"))); }
                if cut <= 104 { let (a, rest) = wire.split_at(cut.min(32)); let (b, c) = rest.split_at((cut.saturating_sub(32)).min(64).min(rest.len()));
                    if quiet(|| SignedPacket::from_parts_unchecked(a, b, Timestamp::from_micros(cut as u64), c).map(|q| inspect(&q))).is_err() { bad.push(("never-panics", format!("from_parts_unchecked with a {}-byte key and a {}-byte signature", a.len(), b.len()))); } }
            }
            for extra in [vec![0u8], vec![0xff; 3], vec![0; 2000]] { let mut w = wire.clone(); w.extend_from_slice(&extra);
                match quiet(|| SignedPacket::from_bytes(&w).map(|q| inspect(&q))) { Err(()) => bad.push(("never-panics", format!("from_bytes extended by {} bytes", extra.len()))), Ok(Ok(_)) => bad.push(("rejects-any-modification", format!("accepted with {} bytes appended", extra.len()))), Ok(Err(_)) => {} } }
            // timestamps
            let t = p.timestamp();
            if Timestamp::from_be_bytes(t.to_be_bytes()) != t || Timestamp::from_micros(t.as_micros()) != t { bad.push(("timestamp-roundtrip", format!("{}", t.as_micros()))); }
            (bad, Some(p))
        });
        match r { Err(()) => rep.fail("never-panics", "other", &input, "building or inspecting a packet panicked".into()), Ok((bad, p)) => { for (ob, d) in bad { rep.fail(ob, "other", &input, d); } if let Some(p) = p { made.push(p); } } }
    } }
    // more_recent_than: the strict order by (timestamp, payload bytes)
    if rep.only.is_none() {
        for a in &made { for b in &made {
            rep.evaluations += 1;
            let want = (a.timestamp(), a.encoded_packet()) > (b.timestamp(), b.encoded_packet());
            if a.more_recent_than(b) != want { rep.fail("more-recent-is-timestamp-then-payload", "other", &format!("pair {} / {}", a.timestamp().as_micros(), b.timestamp().as_micros()), format!("more_recent_than gives {}, (timestamp, payload) order gives {}", !want, want)); }
        } }
        // same timestamp, different payload: rebuild two packets around one timestamp with the unchecked constructor
        if made.len() >= 2 { let (a, b) = (&made[0], &made[1]); let ts = a.timestamp();
            if let (Ok(x), Ok(y)) = (SignedPacket::from_parts_unchecked(a.public_key().as_bytes(), &a.signature().to_bytes(), ts, a.encoded_packet()), SignedPacket::from_parts_unchecked(a.public_key().as_bytes(), &b.signature().to_bytes(), ts, b.encoded_packet())) {
                rep.evaluations += 1;
                let want = x.encoded_packet() > y.encoded_packet();
                if x.more_recent_than(&y) != want || y.more_recent_than(&x) != (y.encoded_packet() > x.encoded_packet()) || x.more_recent_than(&x) { rep.fail("more-recent-is-timestamp-then-payload", "other", "equal timestamps", "ties are not broken by the payload bytes (or a packet is more recent than itself)".into()); }
            } }
    }
    rep.finish();
}
