//! C31 — bounded stand-in (NOT a proof): the real `iroh-dns` crate, through its public API.  Every endpoint info built from
//! the address pool / user-data pool up to the bound is published as TXT strings and as a signed pkarr packet and resolved again.
#![allow(dead_code, unused_imports)]
use std::collections::BTreeSet;
use std::net::{Ipv4Addr, Ipv6Addr, SocketAddr, SocketAddrV4, SocketAddrV6};
use std::str::FromStr;

use iroh_base::{CustomAddr, EndpointId, RelayUrl, SecretKey, TransportAddr};
use iroh_dns::endpoint_info::{EndpointData, EndpointInfo, UserData};

include!(concat!(env!("VERIF_BX_SHIMS"), "/harness.rs"));

fn pool() -> Vec<(String, TransportAddr)> {
    let mut v: Vec<(String, TransportAddr)> = vec![];
    for u in ["https://relay.example.", "https://relay.example", "https://relay.example:8443/", "http://10.0.0.1:3340", "https://relay.example/path/x?q=1", "https://xn--bcher-kva.example/",
              "https://[2001:db8::1]:443", "https://RELAY.Example.ORG"] {
        if let Ok(r) = RelayUrl::from_str(u) { v.push((format!("relay:{u}"), TransportAddr::Relay(r))); }
    }
    for a in [SocketAddr::V4(SocketAddrV4::new(Ipv4Addr::new(192, 0, 2, 7), 1234)), SocketAddr::V4(SocketAddrV4::new(Ipv4Addr::UNSPECIFIED, 0)), SocketAddr::V4(SocketAddrV4::new(Ipv4Addr::new(255, 255, 255, 255), 65535)),
              SocketAddr::V6(SocketAddrV6::new(Ipv6Addr::new(0x2001, 0xdb8, 0, 0, 0, 0, 0, 1), 443, 0, 0)), SocketAddr::V6(SocketAddrV6::new(Ipv6Addr::LOCALHOST, 1, 0, 0)),
              SocketAddr::V6(SocketAddrV6::new(Ipv4Addr::new(192, 0, 2, 7).to_ipv6_mapped(), 9, 0, 0)), SocketAddr::V6(SocketAddrV6::new(Ipv6Addr::UNSPECIFIED, 0, 0, 0))] {
        v.push((format!("ip:{a}"), TransportAddr::Ip(a)));
    }
    for (id, data) in [(0u64, vec![]), (1, vec![0u8]), (7, vec![1, 2, 3, 255]), (u64::MAX, vec![0xab; 40]), (0x1f, b"192.0.2.7:1234".to_vec())] {
        let c = CustomAddr::from_parts(id, &data);
        v.push((format!("custom:{c}"), TransportAddr::Custom(c)));
    }
    v
}
fn user_data_pool() -> Vec<Option<String>> {
    let mut v: Vec<Option<String>> = vec![None];
    for s in ["", "a", "foobar", "a=b", "=", "==x", "relay=https://evil.example.", "addr=1.2.3.4:5", "user-data=x", "with space", " lead", "trail ", "tab\there", "line\nbreak", "quote\"s", "back\\slash",
              "semi;colon", "ünïcödé", "日本語", "🦀", "\u{0}", "\u{7f}", "%20", "a,b", "{json:\"x\"}"] { v.push(Some(s.to_string())); }
    v.push(Some("x".repeat(245))); v.push(Some("é".repeat(122))); v.push(Some("=".repeat(245)));
    v
}

fn addr_set(info: &EndpointInfo) -> BTreeSet<String> { info.addrs().map(|a| format!("{a:?}")).collect() }

fn main() {
    let args: Vec<String> = std::env::args().collect();
    let max_addrs: usize = args.get(1).and_then(|s| s.parse().ok()).unwrap_or(2);
    let mut rep = Rep::new(args.get(3).cloned());
    let secret = SecretKey::from_bytes(&[7u8; 32]);
    let id: EndpointId = secret.public();
    let pool = pool();
    let uds = user_data_pool();
    // every subset of the pool with at most `max_addrs` addresses (in index order), plus one set with 8 addresses of every kind
    let n = pool.len();
    let mut subsets: Vec<Vec<usize>> = vec![vec![]];
    let mut frontier: Vec<Vec<usize>> = vec![vec![]];
    for _ in 0..max_addrs { let mut next = vec![]; for s in &frontier { let start = s.last().map_or(0, |l| l + 1); for i in start..n { let mut t = s.clone(); t.push(i); next.push(t); } } subsets.extend(next.iter().cloned()); frontier = next; }
    subsets.push(vec![0, 2, 4, 8, 11, 13, 15, 18]);
    for sub in &subsets { for (ui, ud) in uds.iter().enumerate() {
        // user data is combined with every subset of at most one address and with the 8-address set; larger subsets take three representative strings
        if sub.len() > 1 && sub.len() < 8 && !(ui == 0 || ui == 4 || ui == 7) { continue; }
        let input = format!("addrs=[{}] user_data={:?}", sub.iter().map(|i| pool[*i].0.clone()).collect::<Vec<_>>().join(", "), ud);
        if rep.skip(&input) { continue; }
        rep.evaluations += 1; if !sub.is_empty() && ud.is_some() { rep.nontrivial += 1; }
        if sub.len() == 2 && ui == 4 && sub[0] == 0 && sub[1] == 9 { rep.sample(&input); }
        let user_data = match ud { None => None, Some(s) => match UserData::try_from(s.clone()) { Ok(u) => Some(u), Err(_) => continue } };   // does not encode: outside the property
        let mut data = EndpointData::new(sub.iter().map(|i| pool[*i].1.clone()).collect());
        data.set_user_data(user_data.clone());
        let info = EndpointInfo::from_parts(id, data);
        let want_addrs = addr_set(&info);
        let check = |rep: &mut Rep, how: &'static str, got: Result<EndpointInfo, String>| {
            match got {
                Err(e) => rep.fail("resolves-what-was-published", how, &input, format!("published successfully but resolving fails: {e}")),
                Ok(g) => {
                    if g.endpoint_id != id { rep.fail("same-endpoint-id", how, &input, format!("resolved endpoint id {} differs from the published {}", g.endpoint_id, id)); }
                    if addr_set(&g) != want_addrs { rep.fail("same-set-of-addresses", how, &input, format!("resolved addresses {:?}, published {:?}", addr_set(&g), want_addrs)); }
                    if g.user_data() != user_data.as_ref() { rep.fail("same-user-data", how, &input, format!("resolved user data {:?}, published {:?}", g.user_data(), user_data)); }
                }
            }
        };
        // (1) as TXT records
        let r = std::panic::catch_unwind(|| { let txt = info.to_txt_strings(); let name = format!("_iroh.{}.dns.example.", id.to_z32()); EndpointInfo::from_txt_lookup(name, txt.iter()).map_err(|e| format!("{e:#}")) });
        match r { Err(_) => rep.fail("never-panics", "txt", &input, "publishing/resolving TXT records panicked".into()), Ok(g) => check(&mut rep, "txt", g) }
        // (2) as a signed pkarr packet (a value that does not fit the packet is outside the property)
        let r = std::panic::catch_unwind(|| match info.to_pkarr_signed_packet(&secret, 30) { Err(_) => None, Ok(p) => Some(EndpointInfo::from_pkarr_signed_packet(&p).map_err(|e| format!("{e:#}"))) });
        match r { Err(_) => rep.fail("never-panics", "pkarr", &input, "publishing/resolving a signed packet panicked".into()), Ok(None) => {}, Ok(Some(g)) => check(&mut rep, "pkarr", g) }
    } }
    rep.finish();
}
