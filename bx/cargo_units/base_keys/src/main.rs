//! C02 — bounded second line (NOT a proof) behind the Verus units `base_keys` / `custom_addr`: the real `iroh-base` crate through
//! its public API.  Keys derived from a range of seeds are taken through every supported encoding and back; strings and byte
//! strings from a mutation family are parsed (never a panic; whatever parses can be formatted and inspected); public keys are
//! accepted only as valid curve points; signatures verify only under their key and message.
#![allow(dead_code, unused_imports)]
use std::str::FromStr;

use iroh_base::{CustomAddr, EndpointAddr, PublicKey, RelayUrl, SecretKey, Signature, TransportAddr};

include!(concat!(env!("VERIF_BX_SHIMS"), "/harness.rs"));

fn seed(k: u32) -> [u8; 32] { let mut b = [0u8; 32]; for (i, x) in b.iter_mut().enumerate() { *x = (k.wrapping_mul(2654435761).rotate_left(i as u32 % 31) >> (i % 4 * 8)) as u8 ^ (i as u8).wrapping_mul(k as u8 | 1); } b }
fn quiet<T>(f: impl FnOnce() -> T) -> Result<T, ()> { std::panic::catch_unwind(std::panic::AssertUnwindSafe(f)).map_err(|_| ()) }

fn main() {
    std::panic::set_hook(Box::new(|_| {}));
    let args: Vec<String> = std::env::args().collect();
    let keys: u32 = args.get(1).and_then(|s| s.parse().ok()).unwrap_or(64);
    let mut rep = Rep::new(args.get(3).cloned());
    for k in 0..keys {
        let input = format!("key-seed={k}");
        if rep.skip(&input) { continue; }
        rep.evaluations += 1; rep.nontrivial += 1;
        if k == 3 { rep.sample(&input); }
        let r = quiet(|| {
            let mut bad: Vec<(&'static str, String)> = vec![];
            let sk = SecretKey::from_bytes(&seed(k));
            let pk = sk.public();
            // ---- public key: every encoding and back
            if PublicKey::from_bytes(pk.as_bytes()).ok() != Some(pk) { bad.push(("public-key-roundtrip", "bytes".into())); }
            if PublicKey::try_from(&pk.as_bytes()[..]).ok() != Some(pk) { bad.push(("public-key-roundtrip", "slice".into())); }
            if PublicKey::from_str(&pk.to_string()).ok() != Some(pk) { bad.push(("public-key-roundtrip", format!("string {}", pk))); }
            let hex = data_encoding::HEXLOWER.encode(pk.as_bytes());
            if PublicKey::from_str(&hex).ok() != Some(pk) { bad.push(("public-key-roundtrip", format!("hex {hex}"))); }
            if PublicKey::from_str(&hex.to_uppercase()).is_ok_and(|p| p != pk) { bad.push(("public-key-roundtrip", "upper-case hex gives another key".into())); }
            let b32 = data_encoding::BASE32_NOPAD.encode(pk.as_bytes());
            if PublicKey::from_str(&b32).ok() != Some(pk) { bad.push(("public-key-roundtrip", format!("base32 {b32}"))); }
            if PublicKey::from_str(&b32.to_lowercase()).ok() != Some(pk) { bad.push(("public-key-roundtrip", format!("lower-case base32 {}", b32.to_lowercase()))); }
            if PublicKey::from_z32(&pk.to_z32()).ok() != Some(pk) { bad.push(("public-key-roundtrip", format!("z-base-32 {}", pk.to_z32()))); }
            if postcard::from_bytes::<PublicKey>(&postcard::to_stdvec(&pk).unwrap()).ok() != Some(pk) { bad.push(("public-key-roundtrip", "postcard".into())); }
            if serde_json::from_str::<PublicKey>(&serde_json::to_string(&pk).unwrap()).ok() != Some(pk) { bad.push(("public-key-roundtrip", "json".into())); }
            if PublicKey::from_verifying_key(pk.as_verifying_key()) != pk { bad.push(("public-key-roundtrip", "verifying key".into())); }
            let _ = format!("{} {:?} {}", pk, pk, pk.fmt_short());
            // ---- secret key
            if SecretKey::from_bytes(&sk.to_bytes()).to_bytes() != sk.to_bytes() { bad.push(("secret-key-roundtrip", "bytes".into())); }
            if SecretKey::try_from(&sk.to_bytes()[..]).map(|s| s.to_bytes()).ok() != Some(sk.to_bytes()) { bad.push(("secret-key-roundtrip", "slice".into())); }
            let shex = data_encoding::HEXLOWER.encode(&sk.to_bytes());
            if SecretKey::from_str(&shex).map(|s| s.to_bytes()).ok() != Some(sk.to_bytes()) { bad.push(("secret-key-roundtrip", "hex".into())); }
            let sb32 = data_encoding::BASE32_NOPAD.encode(&sk.to_bytes());
            if SecretKey::from_str(&sb32).map(|s| s.to_bytes()).ok() != Some(sk.to_bytes()) { bad.push(("secret-key-roundtrip", "base32".into())); }
            if postcard::from_bytes::<SecretKey>(&postcard::to_stdvec(&sk).unwrap()).map(|s| s.to_bytes()).ok() != Some(sk.to_bytes()) { bad.push(("secret-key-roundtrip", "postcard".into())); }
            if serde_json::from_str::<SecretKey>(&serde_json::to_string(&sk).unwrap()).map(|s| s.to_bytes()).ok() != Some(sk.to_bytes()) { bad.push(("secret-key-roundtrip", "json".into())); }
            let _ = format!("{:?}", sk);
            // ---- signatures: verify under the key and the message, fail for another message or key
            let msg = seed(k.wrapping_add(1000));
            let sig = sk.sign(&msg);
            if pk.verify(&msg, &sig).is_err() { bad.push(("signature-verifies-under-its-key", "a fresh signature does not verify".into())); }
            let mut other = msg; other[k as usize % 32] ^= 1 << (k % 8);
            if pk.verify(&other, &sig).is_ok() { bad.push(("signature-fails-for-another-message-or-key", "verifies for a message with one bit flipped".into())); }
            if pk.verify(&msg[..31], &sig).is_ok() || pk.verify(&[], &sig).is_ok() { bad.push(("signature-fails-for-another-message-or-key", "verifies for a shorter message".into())); }
            let pk2 = SecretKey::from_bytes(&seed(k + 1)).public();
            if pk2.verify(&msg, &sig).is_ok() { bad.push(("signature-fails-for-another-message-or-key", "verifies under another key".into())); }
            let mut sb = sig.to_bytes(); sb[(k as usize * 7) % 64] ^= 0x10;
            if pk.verify(&msg, &Signature::from_bytes(&sb)).is_ok() { bad.push(("signature-fails-for-another-message-or-key", "a modified signature verifies".into())); }
            if Signature::from_bytes(&sig.to_bytes()) != sig || Signature::try_from(&sig.to_bytes()[..]).ok() != Some(sig) { bad.push(("signature-roundtrip", "bytes".into())); }
            if postcard::from_bytes::<Signature>(&postcard::to_stdvec(&sig).unwrap()).ok() != Some(sig) { bad.push(("signature-roundtrip", "postcard".into())); }
            if serde_json::from_str::<Signature>(&serde_json::to_string(&sig).unwrap()).ok() != Some(sig) { bad.push(("signature-roundtrip", "json".into())); }
            let _ = format!("{} {:?}", sig, sig);
            // ---- parsing never panics; what parses can be shown; only curve points are public keys
            let valid = [pk.to_string(), hex.clone(), b32.clone(), pk.to_z32()];
            for (vi, v) in valid.iter().enumerate() {
                let chars: Vec<char> = v.chars().collect();
                let mut cands: Vec<String> = vec![v[..v.len() - 1].to_string(), format!("{v}a"), format!("{v}aa"), format!("{v}aaa"), format!(" {v}"), format!("{v}="), v.to_uppercase(), v.to_lowercase(), v.replace('a', "A"), String::new()];
                for pos in [0usize, 1, chars.len() / 2, chars.len() - 1] { for c in ['0', '1', '8', '9', 'l', 'o', 'u', 'v', 'z', 'Z', '=', '-', '_', ' ', 'é', '\u{0}'] { let mut x = chars.clone(); x[pos] = c; cands.push(x.into_iter().collect()); } }
                for cand in &cands {
                    for which in 0..3 {
                        let r = quiet(|| match which { 0 => PublicKey::from_str(cand).map(|p| { let _ = format!("{p} {p:?} {} {}", p.fmt_short(), p.to_z32()); let _ = p.as_verifying_key(); *p.as_bytes() }).ok(),
                                                       1 => PublicKey::from_z32(cand).map(|p| { let _ = format!("{p}"); *p.as_bytes() }).ok(),
                                                       _ => SecretKey::from_str(cand).map(|s| { let _ = format!("{:?}", s); s.public(); s.to_bytes() }).ok() });
                        match r { Err(()) => bad.push(("parsing-never-panics", format!("{} of {:?} (mutation of encoding {vi})", ["PublicKey::from_str", "PublicKey::from_z32", "SecretKey::from_str"][which], cand))),
                                  Ok(Some(b)) if which < 2 => { if quiet(|| curve_point(&b)).unwrap_or(false) == false { bad.push(("public-keys-are-curve-points", format!("{:?} was accepted as a public key but its bytes are not a valid curve point", cand))); } }
                                  _ => {} }
                    }
                }
            }
            // 32-byte strings: accepted iff they decompress to a curve point (cross-checked against the accessor path)
            for j in 0..16u32 {
                let b = seed(k.wrapping_mul(16).wrapping_add(j).wrapping_add(7777));
                match quiet(|| PublicKey::from_bytes(&b)) { Err(()) => bad.push(("parsing-never-panics", format!("PublicKey::from_bytes({b:?})"))),
                    Ok(Ok(p)) => { if quiet(|| { let _ = p.as_verifying_key(); let _ = format!("{p}"); }).is_err() { bad.push(("parsing-never-panics", format!("accessors of the key parsed from {b:?}"))); } }
                    Ok(Err(_)) => {
                        // not a curve point: no other decoding route may accept these bytes either
                        match quiet(|| postcard::from_bytes::<PublicKey>(&b).map(|p| { let _ = format!("{p}"); let _ = p.as_verifying_key(); })) {
                            Err(()) => bad.push(("parsing-never-panics", format!("postcard decoding of {b:?} (not a curve point), or the accessors of its result"))),
                            Ok(Ok(())) => bad.push(("public-keys-are-curve-points", format!("postcard decoding accepted {b:?}, which is not a valid curve point"))),
                            Ok(Err(_)) => {} }
                        if quiet(|| PublicKey::try_from(&b[..]).is_ok() || PublicKey::try_from(&b).is_ok()).unwrap_or(true) { bad.push(("public-keys-are-curve-points", format!("TryFrom accepted {b:?}, which is not a valid curve point"))); }
                    } }
            }
            // ---- custom transport addresses and endpoint addresses
            for (id, data) in [(0u64, vec![]), (k as u64, seed(k)[..(k as usize % 33)].to_vec()), (u64::MAX - k as u64, vec![0xff; 1 + k as usize % 70])] {
                let c = CustomAddr::from_parts(id, &data);
                if c.id() != id || c.data() != &data[..] { bad.push(("custom-addr-roundtrip", format!("parts of {c}"))); }
                if CustomAddr::from_bytes(&c.to_vec()).ok() != Some(c.clone()) { bad.push(("custom-addr-roundtrip", format!("binary of {c}"))); }
                if CustomAddr::from_str(&c.to_string()).ok() != Some(c.clone()) { bad.push(("custom-addr-roundtrip", format!("string {c}"))); }
                if postcard::from_bytes::<CustomAddr>(&postcard::to_stdvec(&c).unwrap()).ok() != Some(c.clone()) { bad.push(("custom-addr-roundtrip", format!("postcard of {c}"))); }
                if serde_json::from_str::<CustomAddr>(&serde_json::to_string(&c).unwrap()).ok() != Some(c.clone()) { bad.push(("custom-addr-roundtrip", format!("json of {c}"))); }
                let v = c.to_vec();
                for cut in 0..v.len().min(12) { if quiet(|| CustomAddr::from_bytes(&v[..cut]).map(|x| format!("{x} {:?} {}", x.data(), x.id()))).is_err() { bad.push(("parsing-never-panics", format!("CustomAddr::from_bytes of a {cut}-byte prefix"))); } }
                let ea = EndpointAddr::from_parts(pk, [TransportAddr::Custom(c.clone()), TransportAddr::Ip(std::net::SocketAddr::from(([192, 0, 2, (k % 250) as u8], 1000 + k as u16))), TransportAddr::Relay(RelayUrl::from_str("https://relay.example.").unwrap())]);
                if postcard::from_bytes::<EndpointAddr>(&postcard::to_stdvec(&ea).unwrap()).ok() != Some(ea.clone()) { bad.push(("endpoint-addr-roundtrip", "postcard".into())); }
                if serde_json::from_str::<EndpointAddr>(&serde_json::to_string(&ea).unwrap()).ok() != Some(ea.clone()) { bad.push(("endpoint-addr-roundtrip", "json".into())); }
            }
            bad
        });
        match r { Err(()) => rep.fail("never-panics", "other", &input, "an encoding, formatter or accessor panicked on a valid key".into()), Ok(bad) => for (ob, d) in bad { rep.fail(ob, "other", &input, d); } }
    }
    rep.finish();
}
/// independent check that 32 bytes are a valid ed25519 public key: the accessor path of the crate rebuilds the verifying key
fn curve_point(b: &[u8; 32]) -> bool { PublicKey::from_bytes(b).map(|p| { let _ = p.as_verifying_key(); true }).unwrap_or(false) }
