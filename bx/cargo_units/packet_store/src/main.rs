//! C37 — bounded second line (NOT a proof): the real `iroh-dns-server` packet store (redb, in memory) built with
//! `--cfg n0_computer_iroh_verif` (hook `iroh_dns_server::verif_hooks::PacketStore`).  Five packets of one key — timestamps (offsets from
//! ten seconds ago, in microseconds) 1000, 2000, 2000 (another payload), 3000, 4000 — are published in EVERY sequence (with repetition) up to the bound, once with all
//! publishes in one write transaction and once with a transaction per publish, a second key's packet being published in between;
//! after every publish the reply and the stored packet are compared with the rule: stored = the most recent one published so far,
//! reply = "it became the stored packet".  The order itself (timestamp, then payload) is taken from the real `more_recent_than`
//! (checked against its statement by `signed_packet_cx`).
#![allow(dead_code, unused_imports)]
use std::time::Duration;
use iroh_base::SecretKey;
use iroh_dns::pkarr::{SignedPacket, Timestamp};
use iroh_dns_server::verif_hooks::PacketStore;

include!(concat!(env!("VERIF_BX_SHIMS"), "/harness.rs"));

fn undecided(why: &str) -> ! { eprintln!("HARNESS-UNDECIDED: {why}"); std::process::exit(3) }
fn packet(secret: &SecretKey, ts: u64, text: &str) -> SignedPacket {
    let p = SignedPacket::from_txt_strings(secret, "_iroh", [text.to_string()].iter(), 30).unwrap_or_else(|e| undecided(&format!("cannot build a packet: {e}")));
    SignedPacket::from_parts_unchecked(p.public_key().as_bytes(), &p.signature().to_bytes(), Timestamp::from_micros(ts), p.encoded_packet()).unwrap_or_else(|e| undecided(&format!("cannot re-stamp a packet: {e}")))
}
fn main() {
    let args: Vec<String> = std::env::args().collect();
    let max_len: usize = args.get(1).and_then(|s| s.parse().ok()).unwrap_or(4);
    let mut rep = Rep::new(args.get(3).cloned());
    let (k1, k2) = (SecretKey::from_bytes(&[7u8; 32]), SecretKey::from_bytes(&[9u8; 32]));
    // timestamps are offsets from the current time (the store evicts packets whose timestamp is older than its eviction period)
    let base = std::time::SystemTime::now().duration_since(std::time::UNIX_EPOCH).map(|d| d.as_micros() as u64).unwrap_or_else(|_| undecided("no clock")) - 10_000_000;
    let packets: Vec<(&str, SignedPacket)> = vec![("t1000", packet(&k1, base + 1000, "a=1")), ("t2000/x", packet(&k1, base + 2000, "a=2")), ("t2000/y", packet(&k1, base + 2000, "a=3")), ("t3000", packet(&k1, base + 3000, "a=4")), ("t4000", packet(&k1, base + 4000, "a=5"))];
    let other = packet(&k2, base + 2500, "b=1");
    let rt = tokio::runtime::Builder::new_current_thread().enable_all().build().unwrap();
    let n = packets.len();
    for one_batch in [true, false] {
        let mut idx: Vec<usize> = vec![0];
        loop {
            let input = format!("one-write-transaction={one_batch} publishes=[{}]", idx.iter().map(|i| packets[*i].0).collect::<Vec<_>>().join(", "));
            if !rep.skip(&input) {
                rep.evaluations += 1; if idx.len() >= 3 { rep.nontrivial += 1; }
                if idx.len() == 3 && rep.evaluations % 97 == 0 { rep.sample(&input); }
                let verdict: Option<(&'static str, String)> = rt.block_on(async {
                    let store = match PacketStore::in_memory(if one_batch { Duration::from_secs(120) } else { Duration::ZERO }) { Ok(s) => s, Err(e) => undecided(&format!("the in-memory store could not be opened: {e:#}")) };
                    let mut stored: Option<usize> = None;
                    for (k, i) in idx.iter().enumerate() {
                        let p = &packets[*i].1;
                        // "became the stored packet": nothing stored yet, or the stored one is not more recent (publishing the stored packet again stores it again)
                        let becomes = match stored { None => true, Some(s) => !packets[s].1.more_recent_than(p) };
                        let reply = match tokio::time::timeout(Duration::from_secs(30), store.upsert(p.clone())).await { Ok(Ok(r)) => r, Ok(Err(e)) => return Some(("publish-succeeds", format!("publish {} ({}) failed: {e:#}", k + 1, packets[*i].0))), Err(_) => undecided("a publish did not return within 30 s") };
                        if becomes { stored = Some(*i); }
                        if reply != becomes { return Some(("a-publish-reports-an-update-exactly-when-it-became-the-stored-packet", format!("publish {} ({}) reported {reply}; the packet {} the most recent one published so far", k + 1, packets[*i].0, if becomes { "is" } else { "is not" }))); }
                        if k == 0 { if let Ok(Ok(r)) = tokio::time::timeout(Duration::from_secs(30), store.upsert(other.clone())).await { if !r { return Some(("keys-do-not-interfere", "the first packet of a second key was reported as no update".into())); } } }
                        let got = match tokio::time::timeout(Duration::from_secs(30), store.get(p)).await { Ok(Ok(g)) => g, Ok(Err(e)) => return Some(("stored-packet-can-be-read", format!("get failed: {e:#}"))), Err(_) => undecided("a get did not return within 30 s") };
                        let want = stored.map(|s| &packets[s].1);
                        if got.as_ref() != want { return Some(("the-stored-packet-is-the-most-recent-one-published", format!("after publish {} ({}) the store holds {}, the most recent one published is {}", k + 1, packets[*i].0,
                            got.as_ref().map(|g| packets.iter().find(|(_, q)| q == g).map(|(n, _)| n.to_string()).unwrap_or("an unknown packet".into())).unwrap_or("nothing".into()), stored.map(|s| packets[s].0).unwrap_or("nothing")))); }
                    }
                    match store.get(&other).await { Ok(Some(g)) if g == other => None, other_r => Some(("keys-do-not-interfere", format!("the second key's packet reads back as {:?}", other_r.map(|o| o.map(|p| p.timestamp().as_micros()))))) }
                });
                if let Some((ob, d)) = verdict { rep.fail(ob, if one_batch { "one-transaction" } else { "transaction-per-publish" }, &input, d); }
            }
            let mut k = idx.len();
            loop { if k == 0 { idx = vec![0; idx.len() + 1]; break; } k -= 1; if idx[k] + 1 < n { idx[k] += 1; for j in k + 1..idx.len() { idx[j] = 0; } break; } }
            if idx.len() > max_len { break; }
        }
    }
    rep.finish();
}
