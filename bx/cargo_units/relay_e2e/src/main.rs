//! C04 — sampled end-to-end second line (NOT a proof, NOT exhaustive): the real `iroh-relay` crate — a relay server on
//! 127.0.0.1 and real relay clients, all on ONE single-threaded tokio runtime — driven with scripted bursts of distinguishable
//! datagram batches.  Whatever reaches a client must have been sent to that client's endpoint id, carry the authenticated id of
//! its sender and unchanged contents / ECN / segment size, arrive at most once, and keep the per-sender order.  The interleaving
//! of the relay's tasks is whatever the runtime produces for the script (bursts are written before the relay's tasks get to run,
//! so that several packets are queued for one destination when its connection task wakes up); nothing here is exhaustive.
//! Anything that keeps the scenario from running (no loopback, a connect that times out, too little delivered to judge) ends
//! the process with exit code 3: undecided, never a verdict.
#![allow(dead_code, unused_imports)]
use std::collections::HashMap;
use std::net::Ipv4Addr;
use std::num::NonZeroU16;
use std::time::Duration;

use bytes::Bytes;
use iroh_base::{EndpointId, RelayUrl, SecretKey};
use iroh_dns::dns::DnsResolver;
use iroh_relay::client::{Client, ClientBuilder};
use iroh_relay::protos::relay::{ClientToRelayMsg, Datagrams, RelayToClientMsg};
use iroh_relay::server::{RelayConfig, Server, ServerConfig};
use iroh_relay::tls::{CaTlsConfig, default_provider};
use n0_future::{SinkExt, StreamExt};
use noq_proto::EcnCodepoint;

include!(concat!(env!("VERIF_BX_SHIMS"), "/harness.rs"));

fn undecided(why: &str) -> ! { eprintln!("HARNESS-UNDECIDED: {why}"); std::process::exit(3) }

/// what sender `from` puts into its `seq`-th batch for `to`: a header naming all three, then filler derived from them
fn batch(from: u8, to: u8, seq: u32) -> Datagrams {
    let len = 12 + ((seq as usize * 37 + from as usize * 11) % 900);
    let mut v = vec![from, to];
    v.extend_from_slice(&seq.to_be_bytes());
    while v.len() < len { v.push((v.len() as u32).wrapping_mul(31).wrapping_add(seq).wrapping_add(from as u32) as u8); }
    let ecn = match seq % 5 { 1 => Some(EcnCodepoint::Ect0), 2 => Some(EcnCodepoint::Ect1), 3 => Some(EcnCodepoint::Ce), _ => None };
    let segment_size = if seq % 3 == 1 { NonZeroU16::new((len / 2) as u16) } else { None };
    Datagrams { ecn, segment_size, contents: Bytes::from(v) }
}
fn key(tag: u8) -> SecretKey { let mut b = [tag; 32]; b[0] = 0x42; b[31] = tag.wrapping_mul(7); SecretKey::from_bytes(&b) }

struct World { url: RelayUrl, ids: HashMap<EndpointId, u8>, _server: Server }
async fn connect(w: &World, tag: u8) -> Client {
    let cfg = CaTlsConfig::default().client_config(default_provider()).unwrap_or_else(|e| undecided(&format!("tls client config: {e}")));
    match tokio::time::timeout(Duration::from_secs(20), ClientBuilder::new(w.url.clone(), key(tag), DnsResolver::new()).tls_client_config(cfg).connect()).await {
        Ok(Ok(c)) => c,
        Ok(Err(e)) => undecided(&format!("client {tag} could not connect: {e:#}")),
        Err(_) => undecided(&format!("client {tag}: connect timed out")),
    }
}
async fn send(c: &mut Client, from: u8, to: u8, seq: u32) {
    let msg = ClientToRelayMsg::Datagrams { dst_endpoint_id: key(to).public(), datagrams: batch(from, to, seq) };
    match tokio::time::timeout(Duration::from_secs(20), c.send(msg)).await { Ok(Ok(())) => {}, Ok(Err(e)) => undecided(&format!("client {from} could not send: {e:#}")), Err(_) => undecided("send timed out") }
}
/// a ping answered by the relay: the connection's server-side task is running (it is started by the registration)
async fn ping(c: &mut Client, got: &mut Vec<RelayToClientMsg>) {
    let data = *b"verifpng";
    if c.send(ClientToRelayMsg::Ping(data)).await.is_err() { undecided("ping could not be sent"); }
    loop {
        match tokio::time::timeout(Duration::from_secs(20), c.next()).await {
            Ok(Some(Ok(RelayToClientMsg::Pong(d)))) if d == data => return,
            Ok(Some(Ok(RelayToClientMsg::Ping(d)))) => { let _ = c.send(ClientToRelayMsg::Pong(d)).await; }
            Ok(Some(Ok(other))) => got.push(other),
            Ok(Some(Err(e))) => undecided(&format!("receive error while waiting for the pong: {e:#}")),
            Ok(None) => undecided("connection closed while waiting for the pong"),
            Err(_) => undecided("no pong within 20 s"),
        }
    }
}
/// everything that arrives until the connection has been quiet for `quiet`
async fn drain(c: &mut Client, got: &mut Vec<RelayToClientMsg>, quiet: Duration) {
    loop {
        match tokio::time::timeout(quiet, c.next()).await {
            Ok(Some(Ok(RelayToClientMsg::Ping(d)))) => { let _ = c.send(ClientToRelayMsg::Pong(d)).await; }
            Ok(Some(Ok(m))) => got.push(m),
            Ok(Some(Err(_))) | Ok(None) | Err(_) => return,
        }
    }
}
/// checks what one connection of endpoint `me` received; returns per sender the sequence numbers in arrival order
fn judge(rep: &mut Rep, w: &World, input: &str, me: u8, conn: &str, got: &[RelayToClientMsg], senders: &[u8]) -> HashMap<u8, Vec<u32>> {
    let mut seqs: HashMap<u8, Vec<u32>> = HashMap::new();
    for m in got {
        let RelayToClientMsg::Datagrams { remote_endpoint_id, datagrams } = m else { continue };
        let c = &datagrams.contents;
        if c.len() < 6 { rep.fail("delivered-with-unchanged-contents", "e2e", input, format!("{conn} received a batch of {} bytes; every batch sent has at least 12", c.len())); continue; }
        let (from, to, seq) = (c[0], c[1], u32::from_be_bytes([c[2], c[3], c[4], c[5]]));
        if to != me { rep.fail("delivered-only-to-the-addressed-endpoint", "e2e", input, format!("{conn} (endpoint {me}) received batch #{seq} that endpoint {from} addressed to endpoint {to}")); continue; }
        match w.ids.get(remote_endpoint_id) {
            Some(t) if *t == from && senders.contains(&from) => {}
            other => { rep.fail("delivered-with-the-true-sender", "e2e", input, format!("{conn} received batch #{seq} sent by endpoint {from}, labelled as coming from {:?} ({})", other, remote_endpoint_id.fmt_short())); continue; }
        }
        let want = batch(from, to, seq);
        if *datagrams != want { rep.fail("delivered-with-unchanged-contents", "e2e", input, format!("{conn} received batch #{seq} of endpoint {from} as ecn={:?} segment_size={:?} len={}; sent was ecn={:?} segment_size={:?} len={}{}", datagrams.ecn, datagrams.segment_size, c.len(), want.ecn, want.segment_size, want.contents.len(), if datagrams.contents != want.contents { " (bytes differ)" } else { "" })); }
        seqs.entry(from).or_default().push(seq);
    }
    for (from, v) in &seqs {
        if let Some(w2) = v.windows(2).find(|w2| w2[0] == w2[1]) { rep.fail("delivered-at-most-once", "e2e", input, format!("{conn} received batch #{} of endpoint {from} twice", w2[0])); }
        else if let Some(w2) = v.windows(2).find(|w2| w2[0] > w2[1]) { rep.fail("datagrams-of-one-sender-keep-their-order", "e2e", input, format!("{conn} received batch #{} of endpoint {from} before its batch #{} ({} batches of that sender arrived)", w2[0], w2[1], v.len())); }
        let mut s = v.clone(); s.sort(); if s.windows(2).any(|w2| w2[0] == w2[1]) && !v.windows(2).any(|w2| w2[0] == w2[1]) { rep.fail("delivered-at-most-once", "e2e", input, format!("{conn} received a batch of endpoint {from} twice (not adjacent)")); }
    }
    seqs
}

fn main() {
    let args: Vec<String> = std::env::args().collect();
    let n: u32 = args.get(1).and_then(|s| s.parse().ok()).unwrap_or(200);
    let mut rep = Rep::new(args.get(3).cloned());
    let rt = tokio::runtime::Builder::new_current_thread().enable_all().build().unwrap();
    rt.block_on(async {
        let mut relay = RelayConfig::new((Ipv4Addr::LOCALHOST, 0));
        relay.key_cache_capacity = Some(1024);
        let server = match tokio::time::timeout(Duration::from_secs(20), Server::spawn({ let mut c = ServerConfig::default(); c.relay = Some(relay); c })).await {
            Ok(Ok(s)) => s, Ok(Err(e)) => undecided(&format!("the relay could not be started on 127.0.0.1: {e:#}")), Err(_) => undecided("starting the relay timed out") };
        let url: RelayUrl = format!("http://{}", server.http_addr().unwrap_or_else(|| undecided("the relay has no http address"))).parse().unwrap();
        let ids: HashMap<EndpointId, u8> = [1u8, 2, 3].into_iter().map(|t| (key(t).public(), t)).collect();
        let w = World { url, ids, _server: server };

        // ---- scenario 1: endpoints 1 and 3 each send n batches to endpoint 2 (alternating), endpoint 1 also sends n/4 to endpoint 3;
        //      endpoint 2 reads nothing until everything has been written
        let input = format!("scenario=bursts batches-per-sender={n}");
        if !rep.skip(&input) {
            rep.evaluations += 1; rep.nontrivial += 1; rep.sample(&input);
            let (mut a, mut b, mut c) = (connect(&w, 1).await, connect(&w, 2).await, connect(&w, 3).await);
            let (mut ga, mut gb, mut gc) = (vec![], vec![], vec![]);
            ping(&mut a, &mut ga).await; ping(&mut b, &mut gb).await; ping(&mut c, &mut gc).await;
            for i in 0..n { send(&mut a, 1, 2, i).await; send(&mut c, 3, 2, i).await; if i % 4 == 0 { send(&mut a, 1, 3, i / 4).await; } }
            drain(&mut b, &mut gb, Duration::from_millis(700)).await;
            drain(&mut c, &mut gc, Duration::from_millis(300)).await;
            drain(&mut a, &mut ga, Duration::from_millis(100)).await;
            let sb = judge(&mut rep, &w, &input, 2, "endpoint 2", &gb, &[1, 3]);
            let sc = judge(&mut rep, &w, &input, 3, "endpoint 3", &gc, &[1]);
            let sa = judge(&mut rep, &w, &input, 1, "endpoint 1", &ga, &[]);
            if !sa.is_empty() { rep.fail("delivered-only-to-the-addressed-endpoint", "e2e", &input, format!("endpoint 1 received batches although nothing was addressed to it: {:?}", sa.keys().collect::<Vec<_>>())); }
            let arrived = sb.get(&1).map_or(0, |v| v.len()) + sb.get(&3).map_or(0, |v| v.len());
            if (arrived as u32) < n / 2 && rep.failures_is_empty() { undecided(&format!("only {arrived} of {} batches reached endpoint 2: too little to judge", 2 * n)); }
        }
        // ---- scenario 2: a second connection of endpoint 2 takes over between two bursts of endpoint 1
        let input = format!("scenario=duplicate-connection batches-per-burst={}", n / 2);
        if !rep.skip(&input) {
            rep.evaluations += 1; rep.nontrivial += 1;
            let (mut a, mut b1) = (connect(&w, 1).await, connect(&w, 2).await);
            let (mut ga, mut g1, mut g2) = (vec![], vec![], vec![]);
            ping(&mut a, &mut ga).await; ping(&mut b1, &mut g1).await;
            let half = n / 2;
            for i in 0..half { send(&mut a, 1, 2, i).await; }
            ping(&mut a, &mut ga).await;                      // the relay has read the first burst
            let mut b2 = connect(&w, 2).await;
            ping(&mut b2, &mut g2).await;                     // the second connection is registered (its task answers)
            tokio::time::sleep(Duration::from_millis(300)).await;
            for i in half..2 * half { send(&mut a, 1, 2, i).await; }
            drain(&mut b2, &mut g2, Duration::from_millis(700)).await;
            drain(&mut b1, &mut g1, Duration::from_millis(300)).await;
            let s1 = judge(&mut rep, &w, &input, 2, "endpoint 2's first connection", &g1, &[1]);
            let s2 = judge(&mut rep, &w, &input, 2, "endpoint 2's second connection", &g2, &[1]);
            let (v1, v2) = (s1.get(&1).cloned().unwrap_or_default(), s2.get(&1).cloned().unwrap_or_default());
            if let Some(x) = v1.iter().find(|x| v2.contains(x)) { rep.fail("delivered-at-most-once", "e2e", &input, format!("batch #{x} reached both connections of endpoint 2")); }
            if let Some(x) = v1.iter().find(|x| **x >= half) { rep.fail("delivered-only-on-the-active-connection", "e2e", &input, format!("batch #{x}, sent after the second connection of endpoint 2 had taken over, reached the displaced first connection")); }
            if let Some(x) = v2.iter().find(|x| **x < half) { rep.fail("delivered-only-on-the-active-connection", "e2e", &input, format!("batch #{x}, read by the relay before the second connection of endpoint 2 existed, reached that second connection")); }
            if ((v1.len() + v2.len()) as u32) < half / 2 && rep.failures_is_empty() { undecided(&format!("only {} of {} batches reached endpoint 2: too little to judge", v1.len() + v2.len(), 2 * half)); }
        }
    });
    rep.finish();
}
