#!/usr/bin/env python3
"""bx/dev.py <unit.rs> <prop> <bound0> [bound1] [only] — run an unregistered BX unit (development aid)."""
import json, sys, os
sys.path.insert(0, os.path.dirname(os.path.abspath(__file__)))
import bx_run
u, prop = sys.argv[1], sys.argv[2]
b = sys.argv[3:5] if len(sys.argv) > 4 else [sys.argv[3], '0']
bx_run.GROUPS['_dev'] = dict(unit=u, props=[prop], bounds=dict(quick=b), space='dev {0}', nontrivial='dev', functions=[])
r = bx_run.run_group('_dev', prop, 'quick', sys.argv[5] if len(sys.argv) > 5 else None)
r.pop('rewrites', None); r.pop('functions', None)
print(json.dumps(r, indent=1)[:6000])
