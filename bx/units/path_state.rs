//@unit path_state_bx props=C22
// C22 — bounded second line (NOT a proof) behind the Verus unit `path_state`: RemotePathState's methods (with the real pruning
// function underneath), extracted verbatim, on every history of resolve requests, path insertions, abandonments and finished
// address lookups up to the bound, against a reference that restates the property.
#![allow(dead_code, unused_imports, unused_variables, unused_macros, unused_mut)]
macro_rules! trace { ($($t:tt)*) => { () }; }
macro_rules! debug { ($($t:tt)*) => { () }; }
macro_rules! warn { ($($t:tt)*) => { () }; }
macro_rules! e { ($($t:tt)*) => { $($t)* }; }
use std::collections::{HashMap, HashSet, VecDeque};
use std::sync::Arc;
use std::time::{Duration, Instant};
type FxHashMap<K, V> = HashMap<K, V>;
pub mod transports {
    #[derive(Clone, PartialEq, Eq, Hash, Debug, PartialOrd, Ord)]
    pub enum Addr { Ip(u32), Relay(u32, u8), Custom(u32) }
    impl Addr { pub fn is_relay(&self) -> bool { matches!(self, Addr::Relay(..)) } }
}
#[derive(Clone, PartialEq, Eq, Hash, Debug)] pub enum Source { App, Lookup }
#[derive(Debug, Default)] pub struct Counter; impl Counter { pub fn inc(&self) -> u64 { 0 } }
#[derive(Debug, Default)] pub struct SocketMetrics { pub transport_ip_paths_added: Counter, pub transport_ip_paths_removed: Counter, pub transport_relay_paths_added: Counter, pub transport_relay_paths_removed: Counter, pub transport_custom_paths_added: Counter, pub transport_custom_paths_removed: Counter }
#[derive(Debug, Clone, PartialEq)] pub struct LookupError(pub u8);
#[derive(Debug, Clone, PartialEq)] pub enum AddressLookupFailed { NoServiceConfigured, NoResults { errors: Vec<LookupError> } }
// shim: tokio oneshot (send consumes the sender; the receiving end is read by the harness)
pub mod oneshot {
    use std::sync::{Arc, Mutex};
    #[derive(Debug)] pub struct Sender<T> { pub slot: Arc<Mutex<Vec<T>>>, pub dropped: Arc<std::sync::atomic::AtomicBool> }
    #[derive(Debug, Clone)] pub struct Receiver<T> { pub slot: Arc<Mutex<Vec<T>>>, pub dropped: Arc<std::sync::atomic::AtomicBool> }
    pub fn channel<T>() -> (Sender<T>, Receiver<T>) { let (s, d) = (Arc::new(Mutex::new(vec![])), Arc::new(std::sync::atomic::AtomicBool::new(false))); (Sender { slot: s.clone(), dropped: d.clone() }, Receiver { slot: s, dropped: d }) }
    impl<T> Sender<T> {
        /// fails when the receiving end is gone (a cancelled connect), like tokio's
        pub fn send(self, v: T) -> Result<(), T> { if self.is_closed() { return Err(v); } self.slot.lock().unwrap().push(v); Ok(()) }
        pub fn is_closed(&self) -> bool { self.dropped.load(std::sync::atomic::Ordering::SeqCst) }
    }
}

//@item iroh/src/socket/remote_map/remote_state/path_state.rs const MAX_NON_RELAY_PATHS
//@item iroh/src/socket/remote_map/remote_state/path_state.rs const MAX_INACTIVE_NON_RELAY_PATHS
//@item iroh/src/socket/remote_map/remote_state/path_state.rs enum PathStatus derive=Debug,Clone
impl Default for PathStatus { fn default() -> Self { PathStatus::Unknown } }   // the extractor drops the #[default] variant attribute
//@item iroh/src/socket/remote_map/remote_state/path_state.rs struct PathState derive=Debug,Default
//@item iroh/src/socket/remote_map/remote_state/path_state.rs struct RemotePathState derive=Debug
//@fn iroh/src/socket/remote_map/remote_state/path_state.rs prune_non_relay_paths
//@end
impl RemotePathState {
//@fn iroh/src/socket/remote_map/remote_state/path_state.rs RemotePathState::new
//@end
//@fn iroh/src/socket/remote_map/remote_state/path_state.rs RemotePathState::insert_open_path
//@end
//@fn iroh/src/socket/remote_map/remote_state/path_state.rs RemotePathState::abandoned_path
//@end
//@fn iroh/src/socket/remote_map/remote_state/path_state.rs RemotePathState::insert_multiple
//@end
//@fn iroh/src/socket/remote_map/remote_state/path_state.rs RemotePathState::resolve_remote
//@end
//@fn iroh/src/socket/remote_map/remote_state/path_state.rs RemotePathState::resolve_requests_is_empty
//@end
//@fn iroh/src/socket/remote_map/remote_state/path_state.rs RemotePathState::address_lookup_finished
//@end
//@fn iroh/src/socket/remote_map/remote_state/path_state.rs RemotePathState::is_empty
//@end
//@fn iroh/src/socket/remote_map/remote_state/path_state.rs RemotePathState::emit_pending_resolve_requests
//@end
//@fn iroh/src/socket/remote_map/remote_state/path_state.rs RemotePathState::prune_paths
//@end
}
// @extra-items-here (helpers a change newly calls are spliced in above this line)
//@include shims/harness.rs

#[derive(Debug, Clone, PartialEq)]
enum Op { Resolve, InsertOpen(u8), InsertMany(Vec<u8>), Abandon(u8), LookupOk, LookupErr, CancelOldest }
fn addr(i: u8) -> transports::Addr { match i { 0 => transports::Addr::Ip(1), 1 => transports::Addr::Ip(2), 2 => transports::Addr::Relay(1, 9), _ => transports::Addr::Custom(7) } }

fn main() {
    std::panic::set_hook(Box::new(|_| {}));
    let args: Vec<String> = std::env::args().collect();
    let max_len: usize = args.get(1).and_then(|s| s.parse().ok()).unwrap_or(5);
    let mut rep = Rep::new(args.get(3).cloned());
    let alphabet: Vec<Op> = vec![Op::Resolve, Op::InsertOpen(0), Op::InsertOpen(2), Op::InsertMany(vec![]), Op::InsertMany(vec![1]), Op::InsertMany(vec![0, 3]), Op::Abandon(0), Op::Abandon(2), Op::LookupOk, Op::LookupErr, Op::CancelOldest];
    let n = alphabet.len();
    let mut idx: Vec<usize> = vec![0];
    loop {
        let seq: Vec<Op> = idx.iter().map(|i| alphabet[*i].clone()).collect();
        let input = format!("history={:?}", seq);
        if !rep.skip(&input) {
            rep.evaluations += 1; if seq.iter().filter(|o| **o == Op::Resolve).count() >= 1 && seq.len() >= 3 { rep.nontrivial += 1; }
            if seq.len() == 4 && idx[0] == 0 && idx[1] == 8 { rep.sample(&input); }
            let seq2 = seq.clone();
            let out = std::panic::catch_unwind(move || {
                let mut st = RemotePathState::new(Arc::new(SocketMetrics::default()));
                let mut waiters: Vec<oneshot::Receiver<Result<(), AddressLookupFailed>>> = vec![];
                // reference: known paths, and for every waiter what it must have been told by now
                let mut known: HashSet<u8> = HashSet::new();
                let mut want: Vec<Option<bool>> = vec![];      // None = not answered yet, Some(true) = Ok, Some(false) = failure
                let mut ever_known = false;
                let mut cancelled: Vec<bool> = vec![];
                for (k, op) in seq2.iter().enumerate() {
                    match op {
                        Op::Resolve => { let (tx, rx) = oneshot::channel(); st.resolve_remote(tx); waiters.push(rx); want.push(if known.is_empty() { None } else { Some(true) }); cancelled.push(false); }
                        Op::InsertOpen(a) => { st.insert_open_path(addr(*a), Source::App); known.insert(*a); for w in want.iter_mut() { if w.is_none() { *w = Some(true); } } }
                        Op::InsertMany(l) => { st.insert_multiple(l.iter().map(|a| addr(*a)), Source::Lookup); for a in l { known.insert(*a); } if !known.is_empty() { for w in want.iter_mut() { if w.is_none() { *w = Some(true); } } } }
                        Op::Abandon(a) => st.abandoned_path(&addr(*a)),
                        // the connect that made the oldest unanswered request goes away (its receiving end is dropped)
                        Op::CancelOldest => { if let Some(i) = (0..want.len()).find(|i| want[*i].is_none() && !cancelled[*i]) { cancelled[i] = true; waiters[i].dropped.store(true, std::sync::atomic::Ordering::SeqCst); } }
                        // an address lookup has finished: waiters still pending (no path known) are told it failed
                        Op::LookupOk => { st.address_lookup_finished(Ok(())); for w in want.iter_mut() { if w.is_none() { *w = Some(false); } } }
                        Op::LookupErr => { st.address_lookup_finished(Err(AddressLookupFailed::NoResults { errors: vec![LookupError(1)] })); for w in want.iter_mut() { if w.is_none() { *w = Some(false); } } }
                    }
                    if !known.is_empty() { ever_known = true; }
                    for (i, rx) in waiters.iter().enumerate() {
                        if cancelled[i] { continue; }     // nobody is listening any more
                        let got = rx.slot.lock().unwrap().clone();
                        if got.len() > 1 { return Some(("answered-exactly-once", format!("after step {} {:?}: request {} was answered {} times", k + 1, op, i + 1, got.len()))); }
                        let got1 = got.first().map(|r| r.is_ok());
                        if got1 != want[i] {
                            let ob = match (got1, want[i]) { (None, Some(true)) => "success-as-soon-as-a-path-is-known", (Some(false), _) => "failure-only-after-a-lookup-finished-without-a-path", (Some(true), _) => "success-only-when-a-path-is-known", (None, Some(false)) => "failure-once-a-lookup-finished-without-a-path", _ => "answered-exactly-once" };
                            return Some((ob, format!("after step {} {:?}: request {} has been told {:?}, expected {:?} (true = success)", k + 1, op, i + 1, got1, want[i])));
                        }
                    }
                    if ever_known && st.is_empty() { return Some(("never-loses-all-paths", format!("after step {} {:?}: a path had been known, now none is", k + 1, op))); }
                    if st.is_empty() != known.is_empty() { return Some(("known-paths-are-kept", format!("after step {} {:?}: is_empty() = {}, paths inserted so far: {:?}", k + 1, op, st.is_empty(), known))); }
                    // while a request with a live receiver is unanswered the state must say so (it is what keeps the remote's actor alive);
                    // with no unanswered request at all it must say there is none
                    let live_unanswered = (0..want.len()).filter(|i| want[*i].is_none() && !cancelled[*i]).count();
                    let any_unanswered = want.iter().any(|w| w.is_none());
                    if (live_unanswered > 0 && st.resolve_requests_is_empty()) || (!any_unanswered && !st.resolve_requests_is_empty()) { return Some(("pending-requests-are-reported", format!("after step {} {:?}: resolve_requests_is_empty() = {} with {} unanswered request(s) whose connect is still waiting", k + 1, op, st.resolve_requests_is_empty(), live_unanswered))); }
                }
                None
            });
            match out { Err(_) => rep.fail("never-panics", "other", &input, "RemotePathState panicked".into()), Ok(Some((ob, d))) => rep.fail(ob, "other", &input, d), Ok(None) => {} }
        }
        let mut k = idx.len();
        loop { if k == 0 { idx = vec![0; idx.len() + 1]; break; } k -= 1; if idx[k] + 1 < n { idx[k] += 1; for j in k + 1..idx.len() { idx[j] = 0; } break; } }
        if idx.len() > max_len { break; }
    }
    rep.finish();
}
