//@unit ip_dispatch_bx props=C19
// C19 — bounded second line (NOT a proof) for the DISPATCH the Kani harnesses leave undecided: TransportsSender::poll_send with
// IpTransports::{bind, create_sender}, IpTransportsSender and its accessors, IpSender::{is_valid_send_addr, is_valid_default_addr}
// and ip::Config with all its predicates, extracted verbatim; sockets, relay and custom senders are recording shims.  Every set of
// bind configurations from a pool, then every sequence of datagrams (so that state kept between datagrams is exercised) — the
// socket that was handed each datagram is compared with an independent statement of the property's rule.
#![allow(dead_code, unused_imports, unused_variables, unused_macros, unused_mut, unexpected_cfgs)]
macro_rules! trace { ($($t:tt)*) => { () }; }
macro_rules! debug { ($($t:tt)*) => { () }; }
macro_rules! info { ($($t:tt)*) => { () }; }
macro_rules! warn { ($($t:tt)*) => { () }; }
use std::io;
use std::net::{IpAddr, Ipv4Addr, Ipv6Addr, SocketAddr, SocketAddrV4, SocketAddrV6};
use std::num::NonZeroUsize;
use std::pin::Pin;
use std::sync::{Arc, Mutex};
use std::task::Poll;
// shims: ipnet
#[derive(Debug, Clone, Copy, PartialEq, Eq)] pub struct Ipv4Net { a: Ipv4Addr, p: u8 }
impl Ipv4Net { pub fn new(a: Ipv4Addr, p: u8) -> Result<Self, ()> { if p <= 32 { Ok(Ipv4Net { a, p }) } else { Err(()) } } pub fn addr(&self) -> Ipv4Addr { self.a } pub fn prefix_len(&self) -> u8 { self.p }
    pub fn network(&self) -> Ipv4Addr { let m = if self.p == 0 { 0 } else { u32::MAX << (32 - self.p) }; Ipv4Addr::from(u32::from(self.a) & m) }
    pub fn contains(&self, o: &Ipv4Addr) -> bool { let m = if self.p == 0 { 0 } else { u32::MAX << (32 - self.p) }; u32::from(self.a) & m == u32::from(*o) & m } }
#[derive(Debug, Clone, Copy, PartialEq, Eq)] pub struct Ipv6Net { a: Ipv6Addr, p: u8 }
impl Ipv6Net { pub fn new(a: Ipv6Addr, p: u8) -> Result<Self, ()> { if p <= 128 { Ok(Ipv6Net { a, p }) } else { Err(()) } } pub fn addr(&self) -> Ipv6Addr { self.a } pub fn prefix_len(&self) -> u8 { self.p }
    pub fn network(&self) -> Ipv6Addr { let m = if self.p == 0 { 0 } else { u128::MAX << (128 - self.p) }; Ipv6Addr::from(u128::from(self.a) & m) }
    pub fn contains(&self, o: &Ipv6Addr) -> bool { let m = if self.p == 0 { 0 } else { u128::MAX << (128 - self.p) }; u128::from(self.a) & m == u128::from(*o) & m } }
// shims: identifiers, the datagram, metrics
#[derive(Debug, Clone, PartialEq, Eq, Hash)] pub struct RelayUrl(pub u8);
impl std::fmt::Display for RelayUrl { fn fmt(&self, f: &mut std::fmt::Formatter<'_>) -> std::fmt::Result { write!(f, "relay{}", self.0) } }
#[derive(Debug, Clone, Copy, PartialEq, Eq, Hash)] pub struct EndpointId(pub u8);
impl EndpointId { pub fn fmt_short(&self) -> String { format!("e{}", self.0) } }
#[derive(Debug, Clone, PartialEq, Eq, Hash)] pub struct CustomAddr { pub id: u64, pub data: u8 }
impl CustomAddr { pub fn id(&self) -> u64 { self.id } }
#[derive(Debug)] pub struct Transmit<'a> { pub contents: &'a [u8], pub ecn: Option<u8>, pub segment_size: Option<usize> }
#[derive(Debug, Default)] pub struct SocketMetrics;
#[derive(Debug, Default)] pub struct EndpointMetrics { pub socket: Arc<SocketMetrics> }
/// who was handed a datagram: ("ip", socket id) / ("relay", sender id) / ("custom", sender id)
pub static LOG: Mutex<Vec<(&'static str, usize)>> = Mutex::new(Vec::new());
// shim: a bound socket (binding always succeeds; ids count up in the order of the configurations given to bind)
pub static NEXT_ID: std::sync::atomic::AtomicUsize = std::sync::atomic::AtomicUsize::new(0);
#[derive(Debug)] pub struct IpTransport { pub config: Config, pub id: usize }
impl IpTransport {
    pub fn bind(config: Config, _metrics: Arc<SocketMetrics>) -> io::Result<Self> { Ok(IpTransport { config, id: NEXT_ID.fetch_add(1, std::sync::atomic::Ordering::SeqCst) }) }
    pub fn create_sender(&self) -> IpSender { IpSender { config: self.config, id: self.id } }
}
#[derive(Debug, Clone)] pub struct IpSender { pub config: Config, pub id: usize }
impl IpSender {
//@fn iroh/src/socket/transports/ip.rs IpSender::is_valid_send_addr stripattrs
//@end
//@fn iroh/src/socket/transports/ip.rs IpSender::is_valid_default_addr stripattrs
//@end
    pub fn poll_send(self: Pin<&mut Self>, _cx: &mut std::task::Context, _dst: SocketAddr, _src: Option<IpAddr>, _t: &Transmit<'_>) -> Poll<io::Result<()>> { LOG.lock().unwrap().push(("ip", self.id)); Poll::Ready(Ok(())) }
}
#[derive(Debug, Clone)] pub struct RelaySender { pub id: usize, pub url: RelayUrl }
impl RelaySender {
    pub fn is_valid_send_addr(&self, url: &RelayUrl, _e: &EndpointId) -> bool { *url == self.url }
    pub fn poll_send(&mut self, _cx: &mut std::task::Context, _url: RelayUrl, _e: EndpointId, _t: &Transmit<'_>) -> Poll<io::Result<()>> { LOG.lock().unwrap().push(("relay", self.id)); Poll::Ready(Ok(())) }
}
pub trait CustomSender: std::fmt::Debug + Send + Sync + 'static {
    fn is_valid_send_addr(&self, addr: &CustomAddr) -> bool;
    fn poll_send(&self, cx: &mut std::task::Context, dst: &CustomAddr, src: Option<&CustomAddr>, transmit: &Transmit<'_>) -> Poll<io::Result<()>>;
}
#[derive(Debug)] pub struct RecCustom { pub id: usize, pub transport: u64 }
impl CustomSender for RecCustom {
    fn is_valid_send_addr(&self, addr: &CustomAddr) -> bool { addr.id == self.transport }
    fn poll_send(&self, _cx: &mut std::task::Context, _dst: &CustomAddr, _src: Option<&CustomAddr>, _t: &Transmit<'_>) -> Poll<io::Result<()>> { LOG.lock().unwrap().push(("custom", self.id)); Poll::Ready(Ok(())) }
}

//@item iroh/src/socket/transports.rs enum FourTuple stripattrs derive=Debug,Clone,PartialEq,Eq,Hash
impl std::fmt::Display for FourTuple { fn fmt(&self, f: &mut std::fmt::Formatter<'_>) -> std::fmt::Result { write!(f, "{self:?}") } }
//@item iroh/src/socket/transports/ip.rs enum Config stripattrs derive=Debug,Copy,Clone,PartialEq,Eq
// @impl-header Config: impl Config
impl Config {
//@fn iroh/src/socket/transports/ip.rs Config::is_ipv4
//@end
//@fn iroh/src/socket/transports/ip.rs Config::is_ipv6
//@end
//@fn iroh/src/socket/transports/ip.rs Config::prefix_len
//@end
//@fn iroh/src/socket/transports/ip.rs Config::is_default
//@end
//@fn iroh/src/socket/transports/ip.rs Config::is_required
//@end
//@fn iroh/src/socket/transports/ip.rs Config::is_valid_default_addr
//@end
//@fn iroh/src/socket/transports/ip.rs Config::is_valid_send_addr
//@end
}
//@item iroh/src/socket/transports/ip.rs struct IpTransportsSender stripattrs derive=Debug,Clone
//@item iroh/src/socket/transports/ip.rs struct IpTransports stripattrs derive=Debug
impl IpTransports {
//@fn iroh/src/socket/transports/ip.rs IpTransports::create_sender
//@end
//@fn iroh/src/socket/transports/ip.rs IpTransports::bind
//@end
}
//@item iroh/src/socket/transports.rs struct TransportsSender stripattrs derive=Debug,Clone
impl TransportsSender {
//@fn iroh/src/socket/transports.rs TransportsSender::poll_send
//@end
}
// the accessors of IpTransportsSender (and whatever else poll_send calls) are NOT listed: they are pulled in from the source on demand, so that a
// restructured sender (other accessors, a per-family type) is still taken as it is
// @extra-items-here (helpers a change newly calls are spliced in above this line)
//@include shims/harness.rs

fn v4(a: [u8; 4], p: u8, def: bool) -> Config { Config::V4 { ip_net: Ipv4Net::new(Ipv4Addr::from(a), p).unwrap(), port: 0, is_required: true, is_default: def } }
fn v6(a: Ipv6Addr, p: u8, scope: u32, def: bool) -> Config { Config::V6 { ip_net: Ipv6Net::new(a, p).unwrap(), scope_id: scope, port: 0, is_required: true, is_default: def } }
/// independent statement of the rule: may socket `c` be handed a datagram with this source / destination as a NON-default choice?
fn fits(c: &Config, src: Option<IpAddr>, dst: SocketAddr) -> bool {
    match (c, src) {
        (Config::V4 { ip_net, .. }, Some(IpAddr::V4(s))) => ip_net.addr() == Ipv4Addr::UNSPECIFIED || ip_net.addr() == s,
        (Config::V6 { ip_net, .. }, Some(IpAddr::V6(s))) => ip_net.addr() == Ipv6Addr::UNSPECIFIED || ip_net.addr() == s,
        (_, Some(_)) => false,
        (Config::V4 { ip_net, .. }, None) => matches!(dst, SocketAddr::V4(d) if ip_net.contains(d.ip())),
        (Config::V6 { ip_net, scope_id, .. }, None) => matches!(dst, SocketAddr::V6(d) if ip_net.contains(d.ip()) || (d.ip().segments()[0] & 0xffc0 == 0xfe80 && *scope_id == d.scope_id())),
    }
}
fn main() {
    std::panic::set_hook(Box::new(|_| {}));
    let args: Vec<String> = std::env::args().collect();
    let max_socks: usize = args.get(1).and_then(|s| s.parse().ok()).unwrap_or(3);
    let seq_len: usize = args.get(2).and_then(|s| s.parse().ok()).filter(|n| *n > 0).unwrap_or(2);
    let mut rep = Rep::new(args.get(3).cloned());
    let ll = |x: u16| Ipv6Addr::new(0xfe80, 0, 0, 0, 0, 0, 0, x);
    let pool: Vec<(&str, Config)> = vec![
        ("v4 0.0.0.0/0 default", v4([0, 0, 0, 0], 0, true)), ("v4 10.0.0.1/8", v4([10, 0, 0, 1], 8, false)), ("v4 10.1.0.1/16", v4([10, 1, 0, 1], 16, false)), ("v4 192.168.1.1/24", v4([192, 168, 1, 1], 24, false)),
        ("v6 ::/0 default", v6(Ipv6Addr::UNSPECIFIED, 0, 0, true)), ("v6 fe80::a/128 scope 2", v6(ll(0xa), 128, 2, false)), ("v6 fe80::b/128 scope 3", v6(ll(0xb), 128, 3, false)), ("v6 2001:db8::1/32", v6(Ipv6Addr::new(0x2001, 0xdb8, 0, 0, 0, 0, 0, 1), 32, 0, false)),
    ];
    let v4d = |a: [u8; 4]| SocketAddr::V4(SocketAddrV4::new(Ipv4Addr::from(a), 7));
    let v6d = |a: Ipv6Addr, scope: u32| SocketAddr::V6(SocketAddrV6::new(a, 7, 0, scope));
    let sends: Vec<(&str, FourTuple)> = vec![
        ("to 10.1.2.3", FourTuple::Ip { remote: v4d([10, 1, 2, 3]), local: None }), ("to 10.9.9.9", FourTuple::Ip { remote: v4d([10, 9, 9, 9]), local: None }), ("to 8.8.8.8", FourTuple::Ip { remote: v4d([8, 8, 8, 8]), local: None }),
        ("to 8.8.8.8 from 10.1.0.1", FourTuple::Ip { remote: v4d([8, 8, 8, 8]), local: Some(IpAddr::V4(Ipv4Addr::new(10, 1, 0, 1))) }), ("to 10.1.2.3 from 172.16.0.1", FourTuple::Ip { remote: v4d([10, 1, 2, 3]), local: Some(IpAddr::V4(Ipv4Addr::new(172, 16, 0, 1))) }),
        ("to fe80::1%2", FourTuple::Ip { remote: v6d(ll(1), 2), local: None }), ("to fe80::1%3", FourTuple::Ip { remote: v6d(ll(1), 3), local: None }), ("to fe80::1%4", FourTuple::Ip { remote: v6d(ll(1), 4), local: None }),
        ("to 2001:db8::9", FourTuple::Ip { remote: v6d(Ipv6Addr::new(0x2001, 0xdb8, 0, 0, 0, 0, 0, 9), 0), local: None }), ("to 2001:db9::9", FourTuple::Ip { remote: v6d(Ipv6Addr::new(0x2001, 0xdb9, 0, 0, 0, 0, 0, 9), 0), local: None }),
        ("to 2001:db9::9 from fe80::b", FourTuple::Ip { remote: v6d(Ipv6Addr::new(0x2001, 0xdb9, 0, 0, 0, 0, 0, 9), 0), local: Some(IpAddr::V6(ll(0xb))) }), ("to 10.1.2.3 from fe80::b", FourTuple::Ip { remote: v4d([10, 1, 2, 3]), local: Some(IpAddr::V6(ll(0xb))) }),
        ("relay1/e5", FourTuple::Relay { url: RelayUrl(1), endpoint_id: EndpointId(5) }), ("relay9/e5", FourTuple::Relay { url: RelayUrl(9), endpoint_id: EndpointId(5) }),
        ("custom 7", FourTuple::Custom { remote: CustomAddr { id: 7, data: 1 }, local: None }), ("custom 8", FourTuple::Custom { remote: CustomAddr { id: 8, data: 1 }, local: None }),
    ];
    // every subset of the pool with at most `max_socks` sockets, in pool order and in reverse order (bind must sort)
    for mask in 0u32..(1 << pool.len()) { if mask.count_ones() as usize > max_socks { continue; } for rev in [false, true] {
        let mut chosen: Vec<usize> = (0..pool.len()).filter(|i| mask & (1 << i) != 0).collect();
        if rev { if chosen.len() < 2 { continue; } chosen.reverse(); }
        let mut idx: Vec<usize> = vec![0; 1];
        loop {
            let input = format!("sockets=[{}] datagrams=[{}]", chosen.iter().map(|i| pool[*i].0).collect::<Vec<_>>().join("; "), idx.iter().map(|i| sends[*i].0).collect::<Vec<_>>().join("; "));
            if !rep.skip(&input) {
                rep.evaluations += 1; if idx.len() >= 2 && chosen.len() >= 2 { rep.nontrivial += 1; }
                if rep.evaluations % 50021 == 1 { rep.sample(&input); }
                let (chosen2, idx2, sends2, pool2) = (chosen.clone(), idx.clone(), sends.clone(), pool.clone());
                let out = std::panic::catch_unwind(move || {
                    NEXT_ID.store(0, std::sync::atomic::Ordering::SeqCst);
                    let cfgs: Vec<Config> = chosen2.iter().map(|i| pool2[*i].1).collect();
                    let t = match IpTransports::bind(cfgs.clone().into_iter(), &EndpointMetrics::default()) { Ok(t) => t, Err(e) => return Some(("bind-accepts-one-default-per-family", format!("bind failed: {e}"))) };
                    let mut s = TransportsSender { ip: t.create_sender(), relay: vec![RelaySender { id: 100, url: RelayUrl(1) }, RelaySender { id: 101, url: RelayUrl(2) }],
                                                   custom: vec![Arc::new(RecCustom { id: 200, transport: 7 })], max_transmit_segments: NonZeroUsize::new(1).unwrap() };
                    let waker = std::task::Waker::noop(); let mut cx = std::task::Context::from_waker(&waker);
                    for (k, si) in idx2.iter().enumerate() {
                        LOG.lock().unwrap().clear();
                        let r = Pin::new(&mut s).poll_send(&mut cx, &sends2[*si].1, &Transmit { contents: b"x", ecn: None, segment_size: None });
                        let got = LOG.lock().unwrap().clone();
                        if !matches!(r, Poll::Ready(Ok(()))) { return Some(("no-per-datagram-failure-is-reported", format!("datagram {} ({}) returned {:?}", k + 1, sends2[*si].0, r))); }
                        if got.len() > 1 { return Some(("handed-to-one-transport", format!("datagram {} ({}) was handed to {:?}", k + 1, sends2[*si].0, got))); }
                        match &sends2[*si].1 {
                            FourTuple::Ip { remote, local } => {
                                let fam = |c: &Config| match local { Some(l) => c.is_ipv4() == l.is_ipv4(), None => c.is_ipv4() == remote.is_ipv4() };
                                let dst_fam = |c: &Config| c.is_ipv4() == remote.is_ipv4();
                                // candidates live in the DESTINATION's family table; a non-default candidate must fit; among those that fit (no source given) the longest prefix wins
                                let fitting: Vec<usize> = (0..cfgs.len()).filter(|i| dst_fam(&cfgs[*i]) && fits(&cfgs[*i], *local, *remote)).collect();
                                let best = fitting.iter().map(|i| cfgs[*i].prefix_len()).max();
                                let default: Option<usize> = (0..cfgs.len()).find(|i| dst_fam(&cfgs[*i]) && cfgs[*i].is_default() && fam(&cfgs[*i]));
                                let want: Vec<usize> = if let Some(b) = best { if local.is_none() { fitting.iter().copied().filter(|i| cfgs[*i].prefix_len() == b).collect() } else { fitting.clone() } } else { default.into_iter().collect() };
                                match got.first() {
                                    None => if !want.is_empty() { return Some(("ip-datagram-goes-to-the-socket-the-rule-names", format!("datagram {} ({}) was dropped; the rule names socket(s) {:?}", k + 1, sends2[*si].0, want.iter().map(|i| pool2[chosen2[*i]].0).collect::<Vec<_>>()))); },
                                    Some(("ip", id)) => if !want.contains(id) { return Some(("ip-datagram-goes-to-the-socket-the-rule-names", format!("datagram {} ({}) was handed to socket [{}]; the rule names {:?}", k + 1, sends2[*si].0, pool2[chosen2[*id]].0, want.iter().map(|i| pool2[chosen2[*i]].0).collect::<Vec<_>>()))); },
                                    Some(other) => return Some(("ip-datagram-goes-to-the-socket-the-rule-names", format!("datagram {} ({}) was handed to {:?}", k + 1, sends2[*si].0, other))),
                                }
                            }
                            FourTuple::Relay { url, .. } => { let want: Vec<(&str, usize)> = if url.0 == 1 { vec![("relay", 100)] } else if url.0 == 2 { vec![("relay", 101)] } else { vec![] }; if got != want { return Some(("relay-datagram-goes-only-to-that-relay-path", format!("datagram {} ({}) was handed to {:?}, expected {:?}", k + 1, sends2[*si].0, got, want))); } }
                            FourTuple::Custom { remote, .. } => { let want: Vec<(&str, usize)> = if remote.id == 7 { vec![("custom", 200)] } else { vec![] }; if got != want { return Some(("custom-datagram-goes-only-to-that-transport", format!("datagram {} ({}) was handed to {:?}, expected {:?}", k + 1, sends2[*si].0, got, want))); } }
                        }
                    }
                    None
                });
                match out { Err(_) => rep.fail("never-panics", "other", &input, "dispatch panicked".into()), Ok(Some((ob, d))) => rep.fail(ob, "other", &input, d), Ok(None) => {} }
            }
            let mut k = idx.len();
            loop { if k == 0 { idx = vec![0; idx.len() + 1]; break; } k -= 1; if idx[k] + 1 < sends.len() { idx[k] += 1; for j in k + 1..idx.len() { idx[j] = 0; } break; } }
            if idx.len() > seq_len { break; }
        }
    } }
    rep.finish();
}
