//@unit timestamp_bx props=C33
// C33 — bounded second line behind the Verus unit `timestamp` (NOT a proof): Timestamp::now, extracted verbatim, over std's
// own AtomicU64 under a mock wall clock: (a) every sequence of clock readings up to the bound (forwards, backwards, repeated),
// deterministically; (b) a multi-thread stress run in which calls are ordered by tickets taken before and after each call —
// a sample of schedules, stated as such.
#![allow(dead_code, unused_imports, unused_variables, unused_macros, unused_mut)]
use std::sync::atomic::{AtomicU64, Ordering};
// shim: the wall clock (n0_future::time::SystemTime) reads a value the harness sets — any value, it may go backwards
static CLOCK_US: AtomicU64 = AtomicU64::new(0);
pub mod n0_future { pub mod time {
    pub use std::time::Duration;
    #[derive(Debug)] pub struct SystemTimeError;
    #[derive(Debug, Clone, Copy)] pub struct SystemTime(pub u64);
    impl SystemTime {
        pub const UNIX_EPOCH: SystemTime = SystemTime(0);
        pub fn now() -> SystemTime { SystemTime(crate::CLOCK_US.load(std::sync::atomic::Ordering::SeqCst)) }
        pub fn duration_since(&self, earlier: SystemTime) -> Result<Duration, SystemTimeError> { self.0.checked_sub(earlier.0).map(Duration::from_micros).ok_or(SystemTimeError) }
    }
} }
//@item iroh-dns/src/pkarr.rs static LAST_TIMESTAMP
//@item iroh-dns/src/pkarr.rs struct Timestamp derive=Debug,Clone,Copy,PartialEq,Eq,PartialOrd,Ord
impl Timestamp {
//@fn iroh-dns/src/pkarr.rs Timestamp::now
//@end
//@fn iroh-dns/src/pkarr.rs Timestamp::as_micros
//@end
}
// @extra-items-here (helpers a change newly calls are spliced in above this line)
//@include shims/harness.rs

static TICKET: AtomicU64 = AtomicU64::new(0);

fn main() {
    let args: Vec<String> = std::env::args().collect();
    let max_len: usize = args.get(1).and_then(|s| s.parse().ok()).unwrap_or(5);
    let stress_calls: u64 = args.get(2).and_then(|s| s.parse().ok()).unwrap_or(20_000);
    let mut rep = Rep::new(args.get(3).cloned());
    // (a) deterministic: every sequence of wall-clock readings, starting from three histories of the process
    let readings: [u64; 8] = [0, 1, 2, 1_000, 999, 1_000_000, 1_700_000_000_000_000, 1_699_999_999_999_999];
    for start in [0u64, 5, 1_700_000_000_000_500] {
        let mut idx: Vec<usize> = vec![0];
        loop {
            let seq: Vec<u64> = idx.iter().map(|i| readings[*i]).collect();
            let input = format!("last={start} clock={:?}", seq);
            if !rep.skip(&input) {
                rep.evaluations += 1; if seq.len() >= 2 { rep.nontrivial += 1; }
                if seq.len() == 3 && idx[0] == 3 { rep.sample(&input); }
                // the process handed out `start` last (0 = nothing yet)
                LAST_TIMESTAMP.store(start, Ordering::SeqCst);
                let seq2 = seq.clone();
                match std::panic::catch_unwind(move || seq2.iter().map(|c| { CLOCK_US.store(*c, Ordering::SeqCst); Timestamp::now().as_micros() }).collect::<Vec<u64>>()) {
                    Err(_) => rep.fail("never-panics", "other", &input, "Timestamp::now panicked".into()),
                    Ok(vals) => {
                        let mut prev = start;
                        for (k, v) in vals.iter().enumerate() {
                            if *v <= prev { rep.fail("strictly-greater-than-every-earlier-timestamp", "sequential", &input, format!("call {} returned {} after {} had been handed out", k + 1, v, prev)); break; }
                            prev = *v;
                        }
                    }
                }
            }
            let mut k = idx.len();
            loop {
                if k == 0 { idx = vec![0; idx.len() + 1]; break; }
                k -= 1;
                if idx[k] + 1 < readings.len() { idx[k] += 1; for j in k + 1..idx.len() { idx[j] = 0; } break; }
            }
            if idx.len() > max_len { break; }
        }
    }
    // (b) threads: 4 callers while the harness moves the wall clock back and forth; call A precedes call B when A's
    //     after-ticket is smaller than B's before-ticket
    let input = format!("stress threads=4 calls={stress_calls}");
    if !rep.skip(&input) && stress_calls > 0 {
        rep.evaluations += 1; rep.nontrivial += 1;
        LAST_TIMESTAMP.store(0, Ordering::SeqCst);
        CLOCK_US.store(1_000_000, Ordering::SeqCst);
        let stop = std::sync::Arc::new(std::sync::atomic::AtomicBool::new(false));
        let s2 = stop.clone();
        let jig = std::thread::spawn(move || { let mut k = 0u64; while !s2.load(Ordering::Relaxed) { k += 1; CLOCK_US.store(1_000_000 + (k * 7919) % 50, Ordering::SeqCst); std::hint::spin_loop(); } });
        let hs: Vec<_> = (0..4).map(|_| std::thread::spawn(move || {
            let mut v = Vec::with_capacity(stress_calls as usize);
            for _ in 0..stress_calls { let b = TICKET.fetch_add(1, Ordering::SeqCst); let t = Timestamp::now().as_micros(); let a = TICKET.fetch_add(1, Ordering::SeqCst); v.push((b, a, t)); }
            v
        })).collect();
        let mut all: Vec<(u64, u64, u64)> = vec![];
        let mut panicked = false;
        for h in hs { match h.join() { Ok(v) => all.extend(v), Err(_) => panicked = true } }
        stop.store(true, Ordering::Relaxed); let _ = jig.join();
        if panicked { rep.fail("never-panics", "other", &input, "Timestamp::now panicked in a thread".into()); }
        // distinct values; and order: sort by before-ticket, keep the maximum value among calls that had finished
        let mut vals: Vec<u64> = all.iter().map(|x| x.2).collect(); vals.sort();
        if let Some(w) = vals.windows(2).find(|w| w[0] == w[1]) { rep.fail("strictly-greater-than-every-earlier-timestamp", "threads", &input, format!("the value {} was handed out twice", w[0])); }
        let mut by_after = all.clone(); by_after.sort_by_key(|x| x.1);
        let mut by_before = all.clone(); by_before.sort_by_key(|x| x.0);
        let (mut j, mut max_done) = (0usize, 0u64);
        for (b, _a, t) in &by_before {
            while j < by_after.len() && by_after[j].1 < *b { max_done = max_done.max(by_after[j].2); j += 1; }
            if *t <= max_done { rep.fail("strictly-greater-than-every-earlier-timestamp", "threads", &input, format!("a call returned {} although {} had already been handed out before it started", t, max_done)); break; }
        }
    }
    rep.finish();
}
