//@unit builder_bind_bx props=C20
// C20 — bounded stand-in (NOT a proof), second line behind the Verus unit `builder_bind`: catches rewrites of the bind check
// into forms Verus cannot take.  The verbatim builder code is compiled against std + tiny executable shims and EVERY sequence
// of bind calls up to the bound is run in every order.
#![allow(dead_code, unused_imports, unused_variables, unused_macros, unreachable_patterns)]
// tracing macros (shim: logging has no bearing on the property)
macro_rules! trace { ($($t:tt)*) => { () }; }
macro_rules! debug { ($($t:tt)*) => { () }; }
macro_rules! info { ($($t:tt)*) => { () }; }
macro_rules! warn { ($($t:tt)*) => { () }; }
macro_rules! error { ($($t:tt)*) => { () }; }
use std::convert::Infallible;
use std::net::{IpAddr, Ipv4Addr, Ipv6Addr, SocketAddr, SocketAddrV4, SocketAddrV6};
use std::sync::Arc;
macro_rules! e {
    ($($err:tt)::+ { $($body:tt)* }) => { $($err)::+ { $($body)* } };
    ($($err:tt)::+) => { $($err)::+ {} };
}
macro_rules! bail { ($($t:tt)*) => { return Err(e!($($t)*)) }; }
// shim: ipnet — a network is an address and a prefix length; new() rejects prefix lengths beyond the family's width
pub struct PrefixLenError;
#[derive(Debug, Clone, Copy, PartialEq, Eq)]
pub struct Ipv4Net { addr: Ipv4Addr, prefix_len: u8 }
#[derive(Debug, Clone, Copy, PartialEq, Eq)]
pub struct Ipv6Net { addr: Ipv6Addr, prefix_len: u8 }
impl Ipv4Net { pub fn new(ip: Ipv4Addr, prefix_len: u8) -> Result<Self, PrefixLenError> { if prefix_len > 32 { Err(PrefixLenError) } else { Ok(Self { addr: ip, prefix_len }) } } pub fn prefix_len(&self) -> u8 { self.prefix_len } pub fn addr(&self) -> Ipv4Addr { self.addr } }
impl Ipv6Net { pub fn new(ip: Ipv6Addr, prefix_len: u8) -> Result<Self, PrefixLenError> { if prefix_len > 128 { Err(PrefixLenError) } else { Ok(Self { addr: ip, prefix_len }) } } pub fn prefix_len(&self) -> u8 { self.prefix_len } pub fn addr(&self) -> Ipv6Addr { self.addr } }
pub struct RelayMap;
pub trait CustomTransport {}
pub trait ToSocketAddr { type Err; fn to_socket_addr(&self) -> Result<SocketAddr, Self::Err>; }
impl ToSocketAddr for SocketAddr { type Err = Infallible; fn to_socket_addr(&self) -> Result<SocketAddr, Self::Err> { Ok(*self) } }
impl From<Infallible> for InvalidSocketAddr { fn from(e: Infallible) -> Self { match e {} } }

//@item iroh/src/endpoint/bind.rs enum InvalidSocketAddr derive=Debug
//@item iroh/src/endpoint/bind.rs struct BindOpts derive=Debug,Clone
impl BindOpts {
//@fn iroh/src/endpoint/bind.rs BindOpts::prefix_len
//@end
//@fn iroh/src/endpoint/bind.rs BindOpts::is_required
//@end
//@fn iroh/src/endpoint/bind.rs BindOpts::is_default_route
//@end
}
//@item iroh/src/socket/transports/ip.rs enum Config name=IpConfig derive=Debug,Clone
pub mod ip { pub use super::IpConfig as Config; }
impl IpConfig {
//@fn iroh/src/socket/transports/ip.rs Config::is_ipv4
//@end
//@fn iroh/src/socket/transports/ip.rs Config::is_ipv6
//@end
//@fn iroh/src/socket/transports/ip.rs Config::is_default
//@end
}
//@item iroh/src/socket/transports.rs enum TransportConfig
impl TransportConfig {
//@fn iroh/src/socket/transports.rs TransportConfig::is_ipv4_default
//@end
//@fn iroh/src/socket/transports.rs TransportConfig::is_ipv6_default
//@end
//@fn iroh/src/socket/transports.rs TransportConfig::is_user_defined
//@end
}
//@item iroh/src/endpoint.rs struct Builder keep=transports
impl Builder {
//@fn iroh/src/endpoint.rs Builder::bind_addr_with_opts
//@end
}

// @extra-items-here (helpers a change newly calls are spliced in above this line)
#[derive(Clone, Copy, Debug, PartialEq, Eq)]
struct Bind { v4: bool, prefix_len: u8, explicit: Option<bool>, required: bool }
impl Bind {
    fn is_default(&self) -> bool { self.explicit.unwrap_or(self.prefix_len == 0) }
    fn prefix_ok(&self) -> bool { self.prefix_len <= if self.v4 { 32 } else { 128 } }
}
fn run(seq: &[Bind]) -> bool {
    let mut b = Builder { transports: Vec::new() };
    for (i, x) in seq.iter().enumerate() {
        let addr: SocketAddr = if x.v4 { SocketAddr::V4(SocketAddrV4::new(Ipv4Addr::new(10, 0, i as u8, 1), 0)) } else { SocketAddr::V6(SocketAddrV6::new(Ipv6Addr::new(0xfd00, 0, 0, i as u16, 0, 0, 0, 1), 0, 0, 0)) };
        let opts = BindOpts { prefix_len: x.prefix_len, is_required: x.required, is_default_route: x.explicit };
        match b.bind_addr_with_opts(addr, opts) { Ok(nb) => b = nb, Err(_) => return false }
    }
    true
}
fn permutations(v: &[Bind]) -> Vec<Vec<Bind>> {
    if v.len() <= 1 { return vec![v.to_vec()]; }
    let mut out = Vec::new();
    for i in 0..v.len() { let mut rest = v.to_vec(); let x = rest.remove(i); for mut p in permutations(&rest) { p.insert(0, x); out.push(p); } }
    out
}
fn main() {
    let args: Vec<String> = std::env::args().collect();
    let max_len: usize = args.get(1).and_then(|s| s.parse().ok()).unwrap_or(3);
    let only: Option<String> = args.get(3).cloned();
    let mut alphabet = Vec::new();
    for v4 in [true, false] {
        for (p, e) in [(0u8, None), (24, None), (24, Some(true)), (0, Some(false)), (if v4 { 33 } else { 129 }, None), (if v4 { 32 } else { 128 }, Some(true))] {
            alphabet.push(Bind { v4, prefix_len: p, explicit: e, required: true });
            if p == 0 || e == Some(true) { alphabet.push(Bind { v4, prefix_len: p, explicit: e, required: false }); }
        }
    }
    let mut evaluations = 0u64; let mut nontrivial = 0u64; let mut nfail: [u64; 2] = [0, 0];
    let mut fails: Vec<(&'static str, String, String)> = Vec::new(); let mut samples: Vec<String> = Vec::new();
    // every multiset (as non-decreasing index sequence) of up to max_len binds, each in every order
    let mut idx: Vec<usize> = vec![];
    loop {
        let set: Vec<Bind> = idx.iter().map(|i| alphabet[*i]).collect();
        let dv4 = set.iter().filter(|b| b.v4 && b.is_default()).count();
        let dv6 = set.iter().filter(|b| !b.v4 && b.is_default()).count();
        let want_accept = dv4 <= 1 && dv6 <= 1 && set.iter().all(|b| b.prefix_ok());
        let mut results = Vec::new();
        for perm in permutations(&set) {
            let input = format!("{:?}", perm);
            if let Some(o) = &only { if *o != input { continue; } }
            evaluations += 1;
            if set.len() >= 2 { nontrivial += 1; }
            if samples.len() < 3 && set.len() == 3 && evaluations % 211 == 0 { samples.push(input.clone()); }
            let got = run(&perm);
            results.push((input.clone(), got));
            // (1) accepted exactly when at most one default route per family and all prefix lengths valid
            if got != want_accept { nfail[0] += 1; if fails.iter().filter(|f| f.0 == "accept-rule").count() < 3 { fails.push(("accept-rule", input, format!("accepted={got}, the rule gives accepted={want_accept}"))); } }
        }
        // (2) order independence: all orders of one set agree
        if results.iter().any(|r| r.1 != results[0].1) {
            nfail[1] += 1;
            if fails.iter().filter(|f| f.0 == "order-independence").count() < 3 {
                let a = results.iter().find(|r| r.1).unwrap(); let r = results.iter().find(|r| !r.1).unwrap();
                fails.push(("order-independence", a.0.clone(), format!("accepted in this order but rejected as {}", r.0)));
            }
        }
        // next non-decreasing index sequence
        let mut k = idx.len();
        loop {
            if k == 0 { idx = vec![0; idx.len() + 1]; break; }
            k -= 1;
            if idx[k] + 1 < alphabet.len() { idx[k] += 1; let v = idx[k]; for j in k + 1..idx.len() { idx[j] = v; } break; }
        }
        if idx.len() > max_len { break; }
    }
    let esc = |s: &str| s.replace('\\', "\\\\").replace('"', "\\\"");
    let names = ["accept-rule", "order-independence"];
    let fc: Vec<String> = (0..2).filter(|i| nfail[*i] > 0).map(|i| format!("{{\"obligation\": \"{}\", \"class\": \"other\", \"count\": {}}}", names[i], nfail[i])).collect();
    let mut out = format!("{{\"evaluations\": {evaluations}, \"nontrivial\": {nontrivial}, \"samples\": [{}], ", samples.iter().map(|s| format!("\"{}\"", esc(s))).collect::<Vec<_>>().join(", "));
    out += &format!("\"fail_counts\": [{}], ", fc.join(", "));
    out += &format!("\"failures\": [{}]}}", fails.iter().map(|(o, i, d)| format!("{{\"obligation\": \"{o}\", \"class\": \"other\", \"input\": \"{}\", \"detail\": \"{}\"}}", esc(i), esc(d))).collect::<Vec<_>>().join(", "));
    println!("{out}");
}
