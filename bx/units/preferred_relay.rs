//@unit preferred_relay_bx props=C28
// C28 — bounded stand-in (NOT a proof): Client::add_report_history_and_set_preferred_relay and the RelayLatencies methods it
// uses are extracted verbatim and run on every report history up to the bound under a mock clock.
#![allow(dead_code, unused_imports, unused_variables, unused_macros)]
// tracing macros (shim: logging has no bearing on the property)
macro_rules! trace { ($($t:tt)*) => { () }; }
macro_rules! debug { ($($t:tt)*) => { () }; }
macro_rules! info { ($($t:tt)*) => { () }; }
macro_rules! warn { ($($t:tt)*) => { () }; }
macro_rules! error { ($($t:tt)*) => { () }; }
use std::collections::BTreeMap;
use std::net::{SocketAddrV4, SocketAddrV6};
use std::time::Duration;
use std::cell::Cell;
// shim: the clock (n0_future::time::Instant) is a mock the harness advances
thread_local! { static NOW: Cell<u64> = Cell::new(1_000_000); }
#[derive(Debug, Clone, Copy, PartialEq, Eq, PartialOrd, Ord)]
pub struct Instant(u64);   // milliseconds
impl Instant {
    pub fn now() -> Self { Instant(NOW.with(|n| n.get())) }
    pub fn duration_since(&self, earlier: Instant) -> Duration { Duration::from_millis(self.0.saturating_sub(earlier.0)) }
}
// shim: iroh_base::RelayUrl — an ordered, cloneable identifier
#[derive(Debug, Clone, PartialEq, Eq, PartialOrd, Ord, Hash)]
pub struct RelayUrl(pub u8);

//@item iroh/src/net_report/probes.rs enum Probe derive=Debug,Clone,Copy,PartialEq,Eq
//@item iroh/src/net_report/report.rs struct RelayLatencies derive=Debug,Default,PartialEq,Eq,Clone
//@item iroh/src/net_report/report.rs struct Report derive=Default,Debug,PartialEq,Eq,Clone
//@item iroh/src/net_report.rs struct Reports derive=Debug
//@item iroh/src/net_report.rs struct Client keep=reports
impl RelayLatencies {
//@fn iroh/src/net_report/report.rs RelayLatencies::update_relay stripattrs
//@end
//@fn iroh/src/net_report/report.rs RelayLatencies::merge stripattrs
//@end
//@fn iroh/src/net_report/report.rs RelayLatencies::iter
//@end
//@fn iroh/src/net_report/report.rs RelayLatencies::get stripattrs
//@end
}
impl Client {
//@fn iroh/src/net_report.rs Client::add_report_history_and_set_preferred_relay
//@end
}
// @extra-items-here (helpers a change newly calls are spliced in above this line)

type Lat = Vec<(u8, u8, u64)>;   // (probe 0=https 1=v4 2=v6, relay, latency ms)
fn mk_report(l: &Lat) -> Report {
    let mut r = Report::default();
    for (p, u, ms) in l {
        let probe = match p { 0 => Probe::Https, 1 => Probe::QadIpv4, _ => Probe::QadIpv6 };
        r.relay_latency.update_relay(RelayUrl(*u), Duration::from_millis(*ms), probe);
    }
    r
}
fn lowest(l: &Lat, u: u8) -> Option<u64> { l.iter().filter(|x| x.1 == u).map(|x| x.2).min() }

fn main() {
    let args: Vec<String> = std::env::args().collect();
    let max_reports: usize = args.get(1).and_then(|s| s.parse().ok()).unwrap_or(2);
    let only: Option<String> = args.get(3).cloned();
    // latency tables of one report: up to two relays, each measured by one or two probe kinds, latencies from a small set
    let lat_vals = [9u64, 12, 18, 30];
    let mut tables: Vec<Lat> = vec![vec![]];
    for a in lat_vals { tables.push(vec![(0, 0, a)]); }
    for a in lat_vals { for b in lat_vals { tables.push(vec![(0, 0, a), (0, 1, b)]); } }
    for a in lat_vals { for b in lat_vals { tables.push(vec![(0, 0, a), (2, 0, b)]); } }                    // one relay, two probe kinds
    for a in [12u64, 30] { for b in [9u64, 30] { for c in lat_vals { tables.push(vec![(0, 0, a), (2, 0, b), (1, 1, c)]); } } }
    let gaps = [1_000u64, 240_000, 360_000];   // 1 s, 4 min, 6 min between reports
    let mut evaluations = 0u64; let mut nontrivial = 0u64;
    let mut fail_counts: BTreeMap<(&'static str, &'static str), u64> = BTreeMap::new();
    let mut fails: Vec<(&'static str, &'static str, String, String)> = Vec::new();
    let mut samples: Vec<String> = Vec::new();
    let mut idx: Vec<(usize, usize)> = vec![(0, 0)];
    loop {
        let hist: Vec<(Lat, u64)> = idx.iter().map(|(t, g)| (tables[*t].clone(), gaps[*g])).collect();
        let input = format!("{:?}", hist);
        if only.as_ref().map(|o| *o == input).unwrap_or(true) {
            evaluations += 1;
            if hist.len() >= 2 { nontrivial += 1; }
            if samples.len() < 4 && hist.len() == max_reports && evaluations % 2477 == 0 { samples.push(input.clone()); }
            let mut fail = |ob: &'static str, class: &'static str, detail: String| {
                *fail_counts.entry((ob, class)).or_insert(0) += 1;
                if fails.iter().filter(|f| f.0 == ob && f.1 == class).count() < 3 { fails.push((ob, class, input.clone(), detail)); }
            };
            NOW.with(|n| n.set(1_000_000));
            let mut c = Client { reports: Reports { next_full: true, prev: Default::default(), last: None, last_full: Instant::now() } };
            let mut prev_pref: Option<u8> = None;
            let mut times: Vec<u64> = Vec::new();
            for (k, (lat, gap)) in hist.iter().enumerate() {
                NOW.with(|n| n.set(n.get() + gap));
                let now = NOW.with(|n| n.get());
                times.push(now);
                let mut r = mk_report(lat);
                c.add_report_history_and_set_preferred_relay(&mut r);
                let pref = r.preferred_relay.as_ref().map(|u| u.0);
                let measured: Vec<u8> = { let mut m: Vec<u8> = lat.iter().map(|x| x.1).collect(); m.sort(); m.dedup(); m };
                // (1) one of the relays measured in THIS report, none iff none was measured
                match pref {
                    None => if !measured.is_empty() { fail("preferred-is-measured", "other", format!("report #{k}: relays {:?} measured but none preferred", measured)); },
                    Some(p) => if !measured.contains(&p) { fail("preferred-is-measured", "other", format!("report #{k}: preferred relay {p} was not measured in this report ({:?})", measured)); },
                }
                // best latency per measured relay over the last five minutes (reports not older than 5 min, plus this one)
                let best = |u: u8| -> Option<u64> {
                    hist[..=k].iter().zip(times.iter()).filter(|(_, t)| now - **t <= 300_000).filter_map(|((l, _), _)| lowest(l, u)).min()
                };
                if let Some(p) = pref {
                    let bp = best(p).unwrap();
                    let overall = measured.iter().filter_map(|u| best(*u)).min().unwrap();
                    match prev_pref {
                        Some(q) if q != p && measured.contains(&q) => {
                            // (3) stickiness: moved away from a still-measured previous choice only if the new relay's best latency is
                            //     at most two thirds of the previous relay's LOWEST latency in the current report
                            let old_low = lowest(lat, q).unwrap();
                            if old_low > 0 && bp * 3 > old_low * 2 {
                                let class = if lat.iter().filter(|x| x.1 == q).count() > 1 { "old-latency-not-the-lowest" } else { "other" };
                                fail("sticky", class, format!("report #{k}: switched {q} -> {p} although best({p}) = {bp} ms > 2/3 of {q}'s lowest current latency {old_low} ms"));
                            }
                        }
                        Some(q) if q == p => {
                            // (4) stayed on the previous choice: fine if it still has the best recent latency, or the best candidate is
                            //     NOT at most two thirds of its lowest current latency; staying although a relay is that much better
                            //     contradicts "chosen by best latency"
                            let old_low = lowest(lat, q).unwrap();
                            if bp != overall && old_low > 0 && overall * 3 <= old_low * 2 {
                                fail("switches-when-much-better", "other", format!("report #{k}: stayed on {q} (lowest current latency {old_low} ms) although a measured relay has best recent latency {overall} ms <= 2/3 of it"));
                            }
                        }
                        _ => {
                            // (2) no (measured) previous choice: the relay with the best recent latency
                            if bp != overall { fail("best-recent-latency", "other", format!("report #{k}: preferred {p} has best recent latency {bp} ms, another measured relay has {overall} ms")); }
                        }
                    }
                    if prev_pref.is_some() && prev_pref != pref && !measured.contains(&prev_pref.unwrap()) && bp != overall {
                        fail("best-recent-latency", "other", format!("report #{k}: previous relay gone; preferred {p} has {bp} ms, best is {overall} ms"));
                    }
                }
                prev_pref = pref;
            }
        }
        // next history
        let mut k = idx.len();
        loop {
            if k == 0 { idx = vec![(0, 0); idx.len() + 1]; break; }
            k -= 1;
            if idx[k].1 + 1 < gaps.len() { idx[k].1 += 1; for j in k + 1..idx.len() { idx[j] = (0, 0); } break; }
            if idx[k].0 + 1 < tables.len() { idx[k] = (idx[k].0 + 1, 0); for j in k + 1..idx.len() { idx[j] = (0, 0); } break; }
        }
        if idx.len() > max_reports { break; }
    }
    let esc = |s: &str| s.replace('\\', "\\\\").replace('"', "\\\"");
    let mut out = format!("{{\"evaluations\": {evaluations}, \"nontrivial\": {nontrivial}, \"samples\": [{}], ", samples.iter().map(|s| format!("\"{}\"", esc(s))).collect::<Vec<_>>().join(", "));
    out += &format!("\"fail_counts\": [{}], ", fail_counts.iter().map(|((o, c), n)| format!("{{\"obligation\": \"{o}\", \"class\": \"{c}\", \"count\": {n}}}")).collect::<Vec<_>>().join(", "));
    out += &format!("\"failures\": [{}]}}", fails.iter().map(|(o, c, i, d)| format!("{{\"obligation\": \"{o}\", \"class\": \"{c}\", \"input\": \"{}\", \"detail\": \"{}\"}}", esc(i), esc(d))).collect::<Vec<_>>().join(", "));
    println!("{out}");
}
