//@unit rate_limited_bx props=C09
// C09 — bounded stand-in (NOT a proof) for the part the Verus unit `rate_bucket` leaves undecided: RateLimited::poll_read
// (throttle sleep, live reconfiguration through the watch channel) together with Bucket::{new, from_config, update_state,
// consume}, all extracted verbatim, driven under a mock clock over every poll history up to the bound.
#![allow(dead_code, unused_imports, unused_variables, unused_macros, unused_mut)]
macro_rules! trace { ($($t:tt)*) => { () }; }
macro_rules! debug { ($($t:tt)*) => { () }; }
macro_rules! info { ($($t:tt)*) => { () }; }
macro_rules! warn { ($($t:tt)*) => { () }; }
macro_rules! error { ($($t:tt)*) => { () }; }
// shim: n0_error::ensure!(cond, ErrValue) returns Err(ErrValue) when cond is false (the error's location meta is dropped)
macro_rules! ensure { ($cond:expr, $($t:tt)*) => { if !($cond) { return Err(InvalidBucketConfig::default()); } }; }
use std::cell::{Cell, RefCell};
use std::future::Future;
use std::num::NonZeroU32;
use std::pin::Pin;
use std::rc::Rc;
use std::sync::Arc;
use std::task::{Context, Poll, ready};
use tokio::io::AsyncRead;
use tokio::sync::watch;

thread_local! { static NOW_MS: Cell<u64> = Cell::new(10_000_000); }
// shim: n0_future::time under a mock clock the harness advances (millisecond resolution, like the tokio timer)
pub mod time {
    pub use std::time::Duration;
    #[derive(Debug, Clone, Copy, PartialEq, Eq, PartialOrd, Ord)]
    pub struct Instant(pub u128);   // nanoseconds
    impl Instant {
        pub fn now() -> Self { Instant(super::NOW_MS.with(|n| n.get()) as u128 * 1_000_000) }
        pub fn saturating_duration_since(&self, earlier: Instant) -> Duration { nanos(self.0.saturating_sub(earlier.0)) }
        pub fn duration_since(&self, earlier: Instant) -> Duration { self.saturating_duration_since(earlier) }
    }
    fn nanos(n: u128) -> Duration { Duration::new((n / 1_000_000_000) as u64, (n % 1_000_000_000) as u32) }
    impl std::ops::Add<Duration> for Instant { type Output = Instant; fn add(self, d: Duration) -> Instant { Instant(self.0.checked_add(d.as_nanos()).expect("overflow when adding duration to instant")) } }
    impl std::ops::AddAssign<Duration> for Instant { fn add_assign(&mut self, d: Duration) { *self = *self + d; } }
    impl std::ops::Sub<Duration> for Instant { type Output = Instant; fn sub(self, d: Duration) -> Instant { Instant(self.0.checked_sub(d.as_nanos()).expect("overflow when subtracting duration from instant")) } }
    /// completes exactly when the mock clock has reached the deadline
    #[derive(Debug)]
    pub struct Sleep { pub deadline: Instant }
    pub fn sleep_until(deadline: Instant) -> Sleep { super::LAST_SLEEP.with(|s| s.set(Some(deadline.0))); Sleep { deadline } }
    impl std::future::Future for Sleep {
        type Output = ();
        fn poll(self: std::pin::Pin<&mut Self>, _cx: &mut std::task::Context<'_>) -> std::task::Poll<()> {
            if Instant::now() >= self.deadline { std::task::Poll::Ready(()) } else { std::task::Poll::Pending }
        }
    }
}
thread_local! { static LAST_SLEEP: Cell<Option<u128>> = Cell::new(None); }
// shim: n0_future::FutureExt::poll for Unpin futures
pub trait FutureExt: Future { fn poll(&mut self, cx: &mut Context<'_>) -> Poll<Self::Output> where Self: Unpin { Future::poll(Pin::new(self), cx) } }
impl<F: Future + ?Sized> FutureExt for F {}
pub mod tokio {
    pub mod io {
        pub struct ReadBuf<'a> { pub buf: &'a mut [u8], pub filled: usize }
        impl<'a> ReadBuf<'a> {
            pub fn new(buf: &'a mut [u8]) -> Self { ReadBuf { buf, filled: 0 } }
            pub fn remaining(&self) -> usize { self.buf.len() - self.filled }
            pub fn put_slice(&mut self, s: &[u8]) { self.buf[self.filled..self.filled + s.len()].copy_from_slice(s); self.filled += s.len(); }
            pub fn filled(&self) -> &[u8] { &self.buf[..self.filled] }
        }
        pub trait AsyncRead { fn poll_read(self: std::pin::Pin<&mut Self>, cx: &mut std::task::Context<'_>, buf: &mut ReadBuf<'_>) -> std::task::Poll<std::io::Result<()>>; }
    }
    pub mod sync { pub mod watch {
        use std::{cell::RefCell, rc::Rc};
        #[derive(Debug)] pub struct RecvError;
        #[derive(Debug)] pub struct Sender<T> { pub shared: Rc<RefCell<(T, u64)>> }
        #[derive(Debug)] pub struct Receiver<T> { pub shared: Rc<RefCell<(T, u64)>>, pub seen: u64 }
        pub struct Ref<T>(T);
        impl<T> std::ops::Deref for Ref<T> { type Target = T; fn deref(&self) -> &T { &self.0 } }
        impl<T: Clone> Sender<T> {
            pub fn new(v: T) -> Self { Sender { shared: Rc::new(RefCell::new((v, 0))) } }
            pub fn send_modify<F: FnOnce(&mut T)>(&self, f: F) { let mut g = self.shared.borrow_mut(); f(&mut g.0); g.1 += 1; }
            pub fn send_replace(&self, v: T) { let mut g = self.shared.borrow_mut(); g.0 = v; g.1 += 1; }
            pub fn subscribe(&self) -> Receiver<T> { Receiver { shared: self.shared.clone(), seen: self.shared.borrow().1 } }
        }
        impl<T: Clone> Receiver<T> {
            pub fn has_changed(&self) -> Result<bool, RecvError> { Ok(self.shared.borrow().1 != self.seen) }
            pub fn borrow_and_update(&mut self) -> Ref<T> { let g = self.shared.borrow(); self.seen = g.1; Ref(g.0.clone()) }
            pub fn borrow(&self) -> Ref<T> { Ref(self.shared.borrow().0.clone()) }
        }
    } }
}
// shim: the relay's metrics (counters only)
#[derive(Debug, Default)] pub struct Counter(Cell<u64>);
impl Counter { pub fn inc(&self) { self.0.set(self.0.get() + 1); } pub fn inc_by(&self, n: u64) { self.0.set(self.0.get().saturating_add(n)); } pub fn get(&self) -> u64 { self.0.get() } }
#[derive(Debug, Default)] pub struct Metrics { pub bytes_rx_ratelimited_total: Counter, pub conns_rx_ratelimited_total: Counter }
#[derive(Debug, Default)] pub struct InvalidBucketConfig;

//@item iroh-relay/src/server.rs struct ClientRateLimit stripattrs derive=Debug,Copy,Clone,PartialEq,Eq
//@item iroh-relay/src/server/streams.rs struct Bucket derive=Debug
//@item iroh-relay/src/server/streams.rs struct RateLimited derive=Debug
impl Bucket {
//@fn iroh-relay/src/server/streams.rs Bucket::new
//@end
//@fn iroh-relay/src/server/streams.rs Bucket::from_config
//@end
//@fn iroh-relay/src/server/streams.rs Bucket::update_state
//@end
//@fn iroh-relay/src/server/streams.rs Bucket::consume
//@end
}
impl<S> RateLimited<S> {
//@fn iroh-relay/src/server/streams.rs RateLimited::from_watcher
//@end
//@fn iroh-relay/src/server/streams.rs RateLimited::record_rate_limited
//@end
}
impl<S: AsyncRead + Unpin> AsyncRead for RateLimited<S> {
//@fn iroh-relay/src/server/streams.rs RateLimited::poll_read stripattrs
//@end
}
// @extra-items-here (helpers a change newly calls are spliced in above this line)
//@include shims/harness.rs

// the inner stream: hands out what the harness scripted for this poll (None = Pending)
struct Src { next: Rc<Cell<Option<usize>>>, polled: Rc<Cell<u32>> }
impl AsyncRead for Src {
    fn poll_read(self: Pin<&mut Self>, _cx: &mut Context<'_>, buf: &mut tokio::io::ReadBuf<'_>) -> Poll<std::io::Result<()>> {
        self.polled.set(self.polled.get() + 1);
        match self.next.get() {
            None => Poll::Pending,
            Some(n) => { let k = n.min(buf.remaining()); buf.put_slice(&vec![7u8; k]); Poll::Ready(Ok(())) }
        }
    }
}

const BUF: usize = 1024;
#[derive(Debug, Clone, Copy, PartialEq)]
enum Dt { Ms(u64), ToDeadline, BeforeDeadline, HalfDeadline, PeriodBeforeDeadline }
#[derive(Debug, Clone, Copy, PartialEq)]
enum Act { Read(Option<usize>), Reconf(usize) }   // Reconf(k): publish configuration k, then poll with 64 bytes available
type Cfg = Option<(u32, Option<u32>)>;
fn mk_cfg(c: Cfg) -> Option<ClientRateLimit> {
    c.map(|(bps, burst)| ClientRateLimit { bytes_per_second: NonZeroU32::new(bps).unwrap(), max_burst_bytes: burst.map(|b| NonZeroU32::new(b).unwrap()) })
}
// reference bucket (the property's reading of "the bucket"): burst tokens at the instant the limit took effect, `refill`
// tokens per whole 100 ms period, capped at burst; a read is allowed while tokens remain and may overdraw by one chunk
#[derive(Debug, Clone, Copy)]
struct Model { burst: i128, bps: i128, refill: i128, fill: i128, last: u64, effect: u64, read_since: i128 }
impl Model {
    fn new(c: (u32, Option<u32>), now: u64) -> Option<Model> {
        let bps = c.0 as i128; let burst = c.1.map(|b| b as i128).unwrap_or(bps / 10); let refill = bps * 100 / 1000;
        if burst <= 0 || refill <= 0 { return None; }
        Some(Model { burst, bps, refill, fill: burst, last: now, effect: now, read_since: 0 })
    }
    fn advance(&mut self, now: u64) {
        let p = (now - self.last) / 100; self.fill = (self.fill + p as i128 * self.refill).min(self.burst); self.last += p * 100; }
    /// earliest instant at which tokens remain again
    fn enough_at(&self) -> u64 { if self.fill > 0 { self.last } else { self.last + 100 * ((-self.fill / self.refill) as u64 + 1) } }
}

fn main() {
    let args: Vec<String> = std::env::args().collect();
    let max_len: usize = args.get(1).and_then(|s| s.parse().ok()).unwrap_or(3);
    let mut rep = Rep::new(args.get(3).cloned());
    let cfgs: Vec<Cfg> = vec![Some((1000, None)), Some((10, None)), Some((100_000, Some(1))), Some((u32::MAX, Some(500))), Some((5, None)), None];
    let initial = [0usize, 1, 2, 5];
    let reconf = [0usize, 2, 4, 5];          // two valid limits, the invalid one (5 B/s refills nothing per period), and "no limit"
    let mut steps: Vec<(Dt, Act)> = vec![];
    for dt in [Dt::Ms(0), Dt::Ms(50), Dt::Ms(100), Dt::Ms(1000), Dt::ToDeadline, Dt::BeforeDeadline, Dt::HalfDeadline, Dt::PeriodBeforeDeadline] {
        for a in [Act::Read(None), Act::Read(Some(1)), Act::Read(Some(64)), Act::Read(Some(5000))] { steps.push((dt, a)); }
        for k in reconf { steps.push((dt, Act::Reconf(k))); }
    }
    let n = steps.len();
    for ini in initial {
        let mut idx: Vec<usize> = vec![0];
        loop {
            let seq: Vec<(Dt, Act)> = idx.iter().map(|i| steps[*i]).collect();
            let input = format!("initial={:?} polls={:?}", cfgs[ini], seq);
            if !rep.skip(&input) {
                rep.evaluations += 1; if seq.len() >= 2 { rep.nontrivial += 1; }
                if seq.len() == 3 && idx[0] == 9 { rep.sample(&input); }
                run_one(&mut rep, &input, &cfgs, ini, &seq);
            }
            let mut k = idx.len();
            loop {
                if k == 0 { idx = vec![0; idx.len() + 1]; break; }
                k -= 1;
                if idx[k] + 1 < n { idx[k] += 1; for j in k + 1..idx.len() { idx[j] = 0; } break; }
            }
            if idx.len() > max_len { break; }
        }
    }
    rep.finish();
}

fn run_one(rep: &mut Rep, input: &str, cfgs: &[Cfg], ini: usize, seq: &[(Dt, Act)]) {
    NOW_MS.with(|n| n.set(10_000_000));
    let (cfgs2, seq2) = (cfgs.to_vec(), seq.to_vec());
    let out = std::panic::catch_unwind(move || {
        let mut fails: Vec<(&'static str, String)> = vec![];
        let tx = watch::Sender::new(mk_cfg(cfgs2[ini]));
        let next = Rc::new(Cell::new(None)); let polled = Rc::new(Cell::new(0u32));
        let src = Src { next: next.clone(), polled: polled.clone() };
        let mut rl = match RateLimited::from_watcher(src, tx.subscribe(), Arc::new(Metrics::default())) {
            Ok(r) => r,
            Err(_) => { fails.push(("accepts-valid-config", format!("from_watcher rejected {:?}", cfgs2[ini]))); return fails; }
        };
        let now0 = NOW_MS.with(|n| n.get());
        let mut model: Option<Model> = cfgs2[ini].and_then(|c| Model::new(c, now0));
        let mut cx = Context::from_waker(std::task::Waker::noop());
        for (k, (dt, act)) in seq2.iter().enumerate() {
            let now = NOW_MS.with(|n| n.get());
            let target = match (dt, &model) {
                (Dt::Ms(ms), _) => now + ms,
                (Dt::ToDeadline, Some(m)) => { let mut mm = *m; mm.advance(now); mm.enough_at().max(now) }
                (Dt::BeforeDeadline, Some(m)) => { let mut mm = *m; mm.advance(now); mm.enough_at().saturating_sub(1).max(now) }
                (Dt::PeriodBeforeDeadline, Some(m)) => { let mut mm = *m; mm.advance(now); mm.enough_at().saturating_sub(100).max(now) }
                (Dt::HalfDeadline, Some(m)) => { let mut mm = *m; mm.advance(now); (now + mm.enough_at().saturating_sub(now) / 2).max(now) }
                _ => now,
            };
            NOW_MS.with(|n| n.set(target));
            let now = target;
            let avail = match act {
                Act::Read(a) => *a,
                Act::Reconf(c) => {
                    tx.send_replace(mk_cfg(cfgs2[*c]));
                    match cfgs2[*c] { None => model = None, Some(cc) => if let Some(m) = Model::new(cc, now) { model = Some(m) } }   // an invalid update is ignored
                    Some(64)
                }
            };
            next.set(avail);
            let before = polled.get();
            let mut storage = [0u8; BUF];
            let mut rb = tokio::io::ReadBuf::new(&mut storage);
            let r = Pin::new(&mut rl).poll_read(&mut cx, &mut rb);
            let got = rb.filled().len();
            let inner_polled = polled.get() > before;
            let want_bytes = avail.map(|a| a.min(BUF));
            match &mut model {
                None => {
                    // no limit in force: reads pass straight through
                    if !inner_polled || want_bytes.map(|w| w != got).unwrap_or(got != 0) { fails.push(("unlimited-passes-through", format!("poll {}: no limit configured, {} bytes available, inner polled: {inner_polled}, {got} bytes delivered", k + 1, want_bytes.map(|w| w.to_string()).unwrap_or("no".into())))); }
                }
                Some(m) => {
                    m.advance(now);
                    let allowed = m.fill > 0;
                    // (1) never more than burst + refill accrued since the limit took effect + one read chunk: a read may overdraw the
                    //     budget once, so no read starts when what was read already reaches burst + accrued (accrual taken at its most
                    //     generous: continuous at bytes_per_second, rounded up, not capped)
                    let accrued = (m.bps * (now - m.effect) as i128 + 999) / 1000;
                    if got > 0 && m.read_since >= m.burst + accrued { fails.push(("reads-within-burst-plus-refill-plus-one-chunk", format!("poll {}: {} bytes already read since the limit took effect {} ms ago (burst {} + accrued {}), yet {got} more bytes were read", k + 1, m.read_since, now - m.effect, m.burst, accrued))); }
                    if got > 0 { m.read_since += got as i128; }
                    // (2) once the bucket has refilled enough, reading resumes (no later than that instant)
                    if allowed && !inner_polled { fails.push(("resumes-once-refilled", format!("poll {}: tokens remain ({} at +{} ms) but the stream was not polled (still throttled)", k + 1, m.fill, now - m.effect))); }
                    if allowed && inner_polled && want_bytes.map(|w| w != got).unwrap_or(got != 0) { fails.push(("delivers-what-was-read", format!("poll {}: {:?} bytes available, {got} delivered", k + 1, want_bytes))); }
                    if got > 0 { m.fill -= got as i128; }
                    if matches!(r, Poll::Ready(Err(_))) { fails.push(("never-errors", format!("poll {}: poll_read returned an error", k + 1))); }
                }
            }
        }
        fails
    });
    match out {
        Err(_) => rep.fail("never-panics", "other", input, "RateLimited::poll_read / Bucket panicked".into()),
        Ok(fails) => for (ob, d) in fails { rep.fail(ob, "other", input, d); }
    }
}
