//@unit auth_token_bx props=C12
// C12 — bounded stand-in (NOT a proof), second line behind the Verus unit `auth_token`: when a change rewrites the function
// into a form Verus cannot take (iterator-adapter chains), the verbatim text still compiles with rustc against these small
// EXECUTABLE std-only shims of http/url, and is run on every request of a stated finite space against the documented rule.
#![allow(dead_code, unused_imports, unused_variables, unused_macros)]
// tracing macros (shim: logging has no bearing on the property)
macro_rules! trace { ($($t:tt)*) => { () }; }
macro_rules! debug { ($($t:tt)*) => { () }; }
macro_rules! info { ($($t:tt)*) => { () }; }
macro_rules! warn { ($($t:tt)*) => { () }; }
macro_rules! error { ($($t:tt)*) => { () }; }
use std::borrow::Cow;

pub struct HeaderName(&'static str);
pub const AUTHORIZATION: HeaderName = HeaderName("authorization");
pub struct HeaderValue(pub Vec<u8>);
pub struct ToStrError;
impl HeaderValue {
    // http: Ok iff every byte is visible ASCII (32..=126) or tab
    pub fn to_str(&self) -> Result<&str, ToStrError> {
        if self.0.iter().all(|b| (32..=126).contains(b) || *b == 9) { Ok(std::str::from_utf8(&self.0).unwrap()) } else { Err(ToStrError) }
    }
    pub fn as_bytes(&self) -> &[u8] { &self.0 }
}
pub struct HeaderMap(pub Vec<HeaderValue>);   // only Authorization values, in request order
pub struct GetAll<'a>(&'a [HeaderValue]);
impl HeaderMap {
    pub fn get_all(&self, _n: HeaderName) -> GetAll<'_> { GetAll(&self.0) }
    pub fn get(&self, _n: HeaderName) -> Option<&HeaderValue> { self.0.first() }
}
impl<'a> GetAll<'a> { pub fn iter(&self) -> std::slice::Iter<'a, HeaderValue> { self.0.iter() } }
impl<'a> IntoIterator for GetAll<'a> { type Item = &'a HeaderValue; type IntoIter = std::slice::Iter<'a, HeaderValue>; fn into_iter(self) -> Self::IntoIter { self.0.iter() } }
impl<'a> IntoIterator for &GetAll<'a> { type Item = &'a HeaderValue; type IntoIter = std::slice::Iter<'a, HeaderValue>; fn into_iter(self) -> Self::IntoIter { self.0.iter() } }
pub struct Uri(pub Option<String>);
impl Uri { pub fn query(&self) -> Option<&str> { self.0.as_deref() } }
pub mod http { pub mod request { pub struct Parts { pub headers: super::super::HeaderMap, pub uri: super::super::Uri } } pub use super::{HeaderMap, HeaderName, HeaderValue, Uri}; pub mod header { pub use super::super::{HeaderMap, HeaderName, HeaderValue}; } }
pub mod url { pub mod form_urlencoded {
    use std::borrow::Cow;
    fn dec(s: &[u8]) -> String {
        let mut out = Vec::new(); let mut i = 0;
        while i < s.len() {
            match s[i] {
                b'+' => { out.push(b' '); i += 1; }
                b'%' if i + 2 < s.len() => {
                    let h = |c: u8| (c as char).to_digit(16);
                    if let (Some(a), Some(b)) = (h(s[i + 1]), h(s[i + 2])) { out.push((a * 16 + b) as u8); i += 3; } else { out.push(b'%'); i += 1; }
                }
                c => { out.push(c); i += 1; }
            }
        }
        String::from_utf8_lossy(&out).into_owned()
    }
    // application/x-www-form-urlencoded: pairs separated by '&', name and value split at the first '=', empty segments skipped
    pub fn parse(input: &[u8]) -> std::vec::IntoIter<(Cow<'static, str>, Cow<'static, str>)> {
        let mut v = Vec::new();
        for seg in input.split(|b| *b == b'&') {
            if seg.is_empty() { continue; }
            let (n, val) = match seg.iter().position(|b| *b == b'=') { Some(p) => (&seg[..p], &seg[p + 1..]), None => (seg, &seg[0..0]) };
            v.push((Cow::Owned(dec(n)), Cow::Owned(dec(val))));
        }
        v.into_iter()
    }
} }

//@item iroh-relay/src/http.rs const AUTH_TOKEN_URL_QUERY_PARAM
//@item iroh-relay/src/server.rs struct ClientRequest keep=request
impl ClientRequest {
//@fn iroh-relay/src/server.rs ClientRequest::query_pairs
//@end
//@fn iroh-relay/src/server.rs ClientRequest::auth_token
//@end
}

// @extra-items-here (helpers a change newly calls are spliced in above this line)
// the documented rule, written independently of the code under test
fn rule(headers: &[Vec<u8>], query: Option<&str>) -> Option<String> {
    for h in headers {
        let Ok(s) = std::str::from_utf8(h) else { return None; };
        if !s.bytes().all(|b| (32..=126).contains(&b) || b == 9) { return None; }
        if let Some(p) = s.find(' ') {
            if s[..p].eq_ignore_ascii_case("bearer") { return Some(s[p + 1..].to_string()); }
        }
    }
    for seg in query.unwrap_or("").split('&') {
        if seg.is_empty() { continue; }
        let (n, v) = match seg.find('=') { Some(p) => (&seg[..p], &seg[p + 1..]), None => (seg, "") };
        if n == "token" { return Some(v.replace('+', " ")); }   // the alphabet below contains no percent escapes
    }
    None
}

fn main() {
    let args: Vec<String> = std::env::args().collect();
    let max_headers: usize = args.get(1).and_then(|s| s.parse().ok()).unwrap_or(3);
    let only: Option<String> = args.get(3).cloned();
    let hvals: Vec<Vec<u8>> = vec![
        b"Bearer abc".to_vec(), b"bearer x y".to_vec(), b"BEARER  two".to_vec(), b"Basic Zm9v".to_vec(), b"Bearer".to_vec(),
        b"Bearer \xff\xfe".to_vec(), b"\xffBearer z".to_vec(), b"Token t".to_vec(), b"Bearer ".to_vec(), b" Bearer lead".to_vec(),
    ];
    let queries: Vec<Option<&str>> = vec![None, Some(""), Some("token=q"), Some("x=1&token=q2"), Some("token=q&token=r"), Some("tok=1"), Some("token"), Some("a=b&&token=w+w")];
    let mut evaluations = 0u64; let mut nontrivial = 0u64;
    let mut fails: Vec<(String, String)> = Vec::new(); let mut nfail = 0u64;
    let mut samples: Vec<String> = Vec::new();
    // all header lists of length 0..=max_headers over the alphabet
    let mut idx: Vec<usize> = Vec::new();
    loop {
        for q in &queries {
            evaluations += 1;
            let hs: Vec<Vec<u8>> = idx.iter().map(|i| hvals[*i].clone()).collect();
            let input = format!("headers={:?} query={:?}", hs.iter().map(|h| String::from_utf8_lossy(h).into_owned()).collect::<Vec<_>>(), q);
            if let Some(o) = &only { if *o != input { continue; } }
            if !hs.is_empty() && q.is_some() { nontrivial += 1; }
            if samples.len() < 4 && hs.len() == 2 && q.is_some() && evaluations % 97 == 0 { samples.push(input.clone()); }
            let req = ClientRequest { request: http::request::Parts { headers: HeaderMap(hs.iter().map(|h| HeaderValue(h.clone())).collect()), uri: Uri(q.map(|s| s.to_string())) } };
            let got = req.auth_token();
            let want = rule(&hs, *q);
            if got != want { nfail += 1; if fails.len() < 3 { fails.push((input, format!("got {:?}, the rule gives {:?}", got, want))); } }
        }
        // next index vector
        let mut k = idx.len();
        loop {
            if k == 0 { idx = vec![0; idx.len() + 1]; break; }
            k -= 1;
            if idx[k] + 1 < hvals.len() { idx[k] += 1; for j in k + 1..idx.len() { idx[j] = 0; } break; }
        }
        if idx.len() > max_headers { break; }
    }
    let esc = |s: &str| s.replace('\\', "\\\\").replace('"', "\\\"");
    let mut out = format!("{{\"evaluations\": {evaluations}, \"nontrivial\": {nontrivial}, \"samples\": [{}], ", samples.iter().map(|s| format!("\"{}\"", esc(s))).collect::<Vec<_>>().join(", "));
    out += &format!("\"fail_counts\": [{}], ", if nfail > 0 { format!("{{\"obligation\": \"token-rule\", \"class\": \"other\", \"count\": {nfail}}}") } else { String::new() });
    out += &format!("\"failures\": [{}]}}", fails.iter().map(|(i, d)| format!("{{\"obligation\": \"token-rule\", \"class\": \"other\", \"input\": \"{}\", \"detail\": \"{}\"}}", esc(i), esc(d))).collect::<Vec<_>>().join(", "));
    println!("{out}");
}
