//@unit ping_tracker_bx props=C14
// C14 — bounded second line behind the Verus unit `ping_tracker` (NOT a proof): the tracker's methods run under a mock
// clock on every ping/pong/time history up to the bound and are compared with a direct statement of the rule.
#![allow(dead_code, unused_imports, unused_variables, unused_macros)]
macro_rules! trace { ($($t:tt)*) => { () }; }
macro_rules! debug { ($($t:tt)*) => { () }; }
macro_rules! info { ($($t:tt)*) => { () }; }
macro_rules! warn { ($($t:tt)*) => { () }; }
use std::cell::Cell;
use std::time::Duration;
thread_local! { static NOW: Cell<u64> = Cell::new(0); static RND: Cell<u64> = Cell::new(1); }
// shim: n0_future::time::Instant under a mock clock (milliseconds)
#[derive(Debug, Clone, Copy, PartialEq, Eq, PartialOrd, Ord)]
pub struct Instant(u64);
impl Instant {
    pub fn now() -> Self { Instant(NOW.with(|n| n.get())) }
    pub fn elapsed(&self) -> Duration { Duration::from_millis(NOW.with(|n| n.get()).saturating_sub(self.0)) }
    pub fn duration_since(&self, e: Instant) -> Duration { Duration::from_millis(self.0.saturating_sub(e.0)) }
}
impl std::ops::Add<Duration> for Instant { type Output = Instant; fn add(self, d: Duration) -> Instant { Instant(self.0 + d.as_millis() as u64) } }
pub mod time { pub use super::Instant; pub use std::time::Duration; }
// shim: rand::random() — fresh, pairwise distinct ping payloads
pub mod rand { pub fn random() -> [u8; 8] { super::RND.with(|r| { let v = r.get(); r.set(v + 1); v.to_be_bytes() }) } }

//@item iroh-relay/src/ping_tracker.rs const PING_TIMEOUT
//@item iroh-relay/src/ping_tracker.rs const MIN_HEALTH_CHECK_TIMEOUT
//@item iroh-relay/src/ping_tracker.rs struct PingTracker derive=Debug
//@item iroh-relay/src/ping_tracker.rs struct PingInner derive=Debug
impl PingTracker {
//@fn iroh-relay/src/ping_tracker.rs PingTracker::new
//@end
//@fn iroh-relay/src/ping_tracker.rs PingTracker::new_ping
//@end
//@fn iroh-relay/src/ping_tracker.rs PingTracker::new_ping_with_timeout
//@end
//@fn iroh-relay/src/ping_tracker.rs PingTracker::pong_received
//@end
//@fn iroh-relay/src/ping_tracker.rs PingTracker::ping_timeout
//@end
}
// @extra-items-here (helpers a change newly calls are spliced in above this line)

#[derive(Clone, Copy, Debug, PartialEq, Eq)]
enum Op { Wait(u64), Ping, PongLatest, PongOlder, PongGarbage }

fn main() {
    let args: Vec<String> = std::env::args().collect();
    let max_ops: usize = args.get(1).and_then(|s| s.parse().ok()).unwrap_or(5);
    let only: Option<String> = args.get(3).cloned();
    let ops = [Op::Wait(100), Op::Wait(600), Op::Wait(2500), Op::Wait(6000), Op::Ping, Op::PongLatest, Op::PongOlder, Op::PongGarbage];
    let max_timeout_ms = 5000u64;
    let mut evaluations = 0u64; let mut nontrivial = 0u64;
    let mut fc: std::collections::BTreeMap<&'static str, u64> = Default::default();
    let mut fails: Vec<(&'static str, String, String)> = Vec::new(); let mut samples: Vec<String> = Vec::new();
    let mut idx: Vec<usize> = vec![0];
    loop {
        let seq: Vec<Op> = idx.iter().map(|i| ops[*i]).collect();
        let input = format!("{:?}", seq);
        if only.as_ref().map(|o| *o == input).unwrap_or(true) {
            evaluations += 1;
            if seq.iter().filter(|o| matches!(o, Op::Ping)).count() >= 1 && seq.iter().any(|o| matches!(o, Op::PongLatest | Op::PongOlder | Op::PongGarbage)) { nontrivial += 1; }
            if samples.len() < 4 && seq.len() == max_ops && evaluations % 3001 == 0 { samples.push(input.clone()); }
            let mut fail = |ob: &'static str, detail: String| { *fc.entry(ob).or_insert(0) += 1; if fails.iter().filter(|f| f.0 == ob).count() < 3 { fails.push((ob, input.clone(), detail)); } };
            NOW.with(|n| n.set(10_000)); RND.with(|r| r.set(1));
            let mut t = PingTracker::new(Duration::from_millis(max_timeout_ms));
            // the rule, stated directly: only the latest ping is tracked
            let mut latest: Option<([u8; 8], u64, u64)> = None;   // data, sent_at, deadline
            let mut older: Vec<[u8; 8]> = Vec::new();
            let mut last_rtt: Option<u64> = None;
            for (k, op) in seq.iter().enumerate() {
                match *op {
                    Op::Wait(d) => { NOW.with(|n| n.set(n.get() + d)); }
                    Op::Ping => {
                        let now = NOW.with(|n| n.get());
                        let want_timeout = match last_rtt { None => max_timeout_ms, Some(r) => (3 * r).clamp(500, max_timeout_ms) };
                        let got_timeout = t.ping_timeout().as_millis() as u64;
                        if got_timeout != want_timeout { fail("deadline-is-clamped-triple-rtt", format!("op #{k}: timeout {got_timeout} ms, expected {want_timeout} ms (last rtt {:?})", last_rtt)); }
                        let data = t.new_ping();
                        if let Some(l) = latest { older.push(l.0); }
                        latest = Some((data, now, now + want_timeout));
                    }
                    Op::PongLatest => {
                        if let Some(l) = latest { t.pong_received(l.0); last_rtt = Some(NOW.with(|n| n.get()) - l.1); latest = None; }
                        else { t.pong_received([0xee; 8]); }
                    }
                    Op::PongOlder => { t.pong_received(older.last().copied().unwrap_or([0xdd; 8])); }
                    Op::PongGarbage => { t.pong_received([0xff; 8]); }
                }
                // compare the tracker with the rule after every step
                let got_inner = t.inner.as_ref().map(|i| (i.data, i.sent_at.0, i.deadline.0));
                if got_inner != latest { fail("only-latest-ping-tracked", format!("after op #{k} {:?}: tracked {:?}, the rule says {:?}", op, got_inner, latest)); break; }
                let got_rtt = t.last_rtt.map(|d| d.as_millis() as u64);
                if got_rtt != last_rtt { fail("stale-pong-changes-nothing", format!("after op #{k} {:?}: last rtt {:?}, the rule says {:?}", op, got_rtt, last_rtt)); break; }
                // declared dead (what timeout() waits for) exactly when the latest ping is past its deadline
                let now = NOW.with(|n| n.get());
                let dead = t.inner.as_ref().map(|i| now >= i.deadline.0).unwrap_or(false);
                let want_dead = latest.map(|l| now >= l.2).unwrap_or(false);
                if dead != want_dead { fail("dead-only-past-latest-deadline", format!("after op #{k} {:?}: dead={dead}, the rule says {want_dead}", op)); break; }
            }
        }
        let mut k = idx.len();
        loop {
            if k == 0 { idx = vec![0; idx.len() + 1]; break; }
            k -= 1;
            if idx[k] + 1 < ops.len() { idx[k] += 1; for j in k + 1..idx.len() { idx[j] = 0; } break; }
        }
        if idx.len() > max_ops { break; }
    }
    let esc = |s: &str| s.replace('\\', "\\\\").replace('"', "\\\"");
    let mut o = format!("{{\"evaluations\": {evaluations}, \"nontrivial\": {nontrivial}, \"samples\": [{}], ", samples.iter().map(|s| format!("\"{}\"", esc(s))).collect::<Vec<_>>().join(", "));
    o += &format!("\"fail_counts\": [{}], ", fc.iter().map(|(k, n)| format!("{{\"obligation\": \"{k}\", \"class\": \"other\", \"count\": {n}}}")).collect::<Vec<_>>().join(", "));
    o += &format!("\"failures\": [{}]}}", fails.iter().map(|(k, i, d)| format!("{{\"obligation\": \"{k}\", \"class\": \"other\", \"input\": \"{}\", \"detail\": \"{}\"}}", esc(i), esc(d))).collect::<Vec<_>>().join(", "));
    println!("{o}");
}
