//@unit zone_store_bx props=C38
// C38 — bounded stand-in (NOT a proof): ZoneStore::{resolve, insert, get_signed_packet} with the whole ZoneCache / CachedZone
// code, extracted verbatim, run under the controlled scheduler (shims/sched.rs): every interleaving of the scenario's tasks at
// the points where the real code can be pre-empted (cache mutex acquisitions, the packet store's and the DHT's replies).
// After every schedule: no answer or packet read produced after a publish was acknowledged as an update reflects an older
// packet — neither the answers of the scenario's own lookups, nor a fresh lookup at the end (what the cache now holds).
#![allow(dead_code, unused_imports, unused_variables, unused_macros, unused_mut)]
macro_rules! trace { ($($t:tt)*) => { () }; }
macro_rules! debug { ($($t:tt)*) => { () }; }
macro_rules! info { ($($t:tt)*) => { () }; }
macro_rules! warn { ($($t:tt)*) => { () }; }
use std::collections::{BTreeMap, HashMap};
use std::num::NonZeroUsize;
use std::sync::Arc;
use std::time::Duration;
//@include shims/sched.rs
// shim: tokio::sync::Mutex — acquisition is a scheduling point; `lock().await` completes in one poll under the scheduler
pub struct Mutex<T> { inner: sched::Mutex2<T> }
impl<T> Mutex<T> {
    pub fn new(t: T) -> Self { Mutex { inner: sched::Mutex2::new(t) } }
    pub async fn lock(&self) -> sched::MutexGuard2<'_, T> { self.inner.lock().unwrap() }
}
impl<T> std::fmt::Debug for Mutex<T> { fn fmt(&self, f: &mut std::fmt::Formatter<'_>) -> std::fmt::Result { f.write_str("Mutex") } }
// shim: n0_error
#[derive(Debug)] pub struct AnyError(pub String);
pub type Result<T, E = AnyError> = std::result::Result<T, E>;
pub trait StdResultExt<T> { fn anyerr(self) -> Result<T>; }
impl<T, E: std::fmt::Debug> StdResultExt<T> for std::result::Result<T, E> { fn anyerr(self) -> Result<T> { self.map_err(|e| AnyError(format!("{e:?}"))) } }
// shims: keys, timestamps, packets (a packet = key, timestamp; its DNS content is identified by the timestamp)
#[derive(Debug, Clone, Copy, PartialEq, Eq, Hash, PartialOrd, Ord)] pub struct PublicKeyBytes(pub u8);
impl PublicKeyBytes { pub fn from_signed_packet(p: &SignedPacket) -> Self { PublicKeyBytes(p.key) } pub fn to_z32(&self) -> String { format!("k{}", self.0) } pub fn as_bytes(&self) -> &u8 { &self.0 } }
#[derive(Debug, Clone, Copy, PartialEq, Eq, PartialOrd, Ord)] pub struct Timestamp(pub u64);
impl Timestamp { pub fn from_micros(m: u64) -> Self { Timestamp(m) } }
#[derive(Debug, Clone, PartialEq, Eq)] pub struct SignedPacket { pub key: u8, pub ts: u64 }
#[derive(Debug)] pub struct SignedPacketVerifyError;
impl SignedPacket {
    pub fn timestamp(&self) -> Timestamp { Timestamp(self.ts) }
    pub fn from_parts_unchecked(key: &u8, _sig: &u8, ts: Timestamp, _value: &u8) -> std::result::Result<SignedPacket, SignedPacketVerifyError> { Ok(SignedPacket { key: *key, ts: ts.0 }) }
}
// shims: hickory names / record sets (one TXT record set per packet, carrying the packet's timestamp as its content)
#[derive(Debug, Clone, PartialEq, Eq, PartialOrd, Ord)] pub struct Name(pub String);
#[derive(Debug, Clone, PartialEq, Eq, PartialOrd, Ord)] pub struct LowerName(pub String);
impl From<&Name> for LowerName { fn from(n: &Name) -> Self { LowerName(n.0.to_lowercase()) } }
#[derive(Debug, Clone, Copy, PartialEq, Eq, PartialOrd, Ord)] pub enum RecordType { TXT, A }
#[derive(Debug, Clone, PartialEq, Eq, PartialOrd, Ord)] pub struct RrKey(pub LowerName, pub RecordType);
impl RrKey { pub fn new(n: LowerName, t: RecordType) -> Self { RrKey(n, t) } }
#[derive(Debug, PartialEq, Eq)] pub struct RecordSet { pub content_of_packet_ts: u64 }
#[derive(Debug)] pub struct ProtoError;
pub struct Label;
pub fn signed_packet_to_hickory_records_without_origin(p: &SignedPacket, _filter: impl Fn(&()) -> bool) -> std::result::Result<(Label, BTreeMap<RrKey, Arc<RecordSet>>), ProtoError> {
    let mut m = BTreeMap::new();
    m.insert(RrKey::new(LowerName("_iroh".into()), RecordType::TXT), Arc::new(RecordSet { content_of_packet_ts: p.ts }));
    Ok((Label, m))
}
// shims: lru::LruCache / ttl_cache::TtlCache (the operations the zone cache uses; recency order and expiry are not modelled:
// capacity is 2^20 entries and the TTL 5 minutes, no scenario reaches either)
#[derive(Debug)] pub struct LruCache<K, V> { m: HashMap<K, V> }
impl<K: std::hash::Hash + Eq, V> LruCache<K, V> {
    pub fn new(_cap: NonZeroUsize) -> Self { LruCache { m: HashMap::new() } }
    pub fn get(&mut self, k: &K) -> Option<&V> { self.m.get(k) }
    pub fn peek(&self, k: &K) -> Option<&V> { self.m.get(k) }
    pub fn put(&mut self, k: K, v: V) -> Option<V> { self.m.insert(k, v) }
    pub fn pop(&mut self, k: &K) -> Option<V> { self.m.remove(k) }
    pub fn len(&self) -> usize { self.m.len() }
}
#[derive(Debug)] pub struct TtlCache<K: std::hash::Hash + Eq, V> { m: HashMap<K, V> }
impl<K: std::hash::Hash + Eq, V> TtlCache<K, V> {
    pub fn new(_cap: usize) -> Self { TtlCache { m: HashMap::new() } }
    pub fn get(&self, k: &K) -> Option<&V> { self.m.get(k) }
    pub fn insert(&mut self, k: K, v: V, _ttl: Duration) -> Option<V> { self.m.insert(k, v) }
    pub fn remove(&mut self, k: &K) -> Option<V> { self.m.remove(k) }
    pub fn iter(&self) -> impl Iterator<Item = (&K, &V)> { self.m.iter() }
}
#[derive(Debug, Default)] pub struct Counter; impl Counter { pub fn inc(&self) -> u64 { 0 } }
#[derive(Debug, Default)] pub struct Gauge; impl Gauge { pub fn set(&self, _v: i64) -> i64 { 0 } }
#[derive(Debug, Default)] pub struct Metrics { pub pkarr_publish_update: Counter, pub pkarr_publish_noop: Counter, pub cache_zones: Gauge, pub cache_zones_dht: Gauge }
// shim: the persistent packet store actor — keeps the newest packet per key (its own contract is property C37's unit
// packet_store); each request is answered at one instant after a scheduling point; what the task does with the reply next (a cache lock, or returning) is ordered by the next scheduling point
#[derive(Debug, Default)] pub struct SignedPacketStore { m: std::sync::Mutex<HashMap<u8, SignedPacket>> }
impl SignedPacketStore {
    pub async fn upsert(&self, packet: SignedPacket) -> Result<bool> {
        sched::yield_point(false);
        let r = { let mut m = self.m.lock().unwrap(); match m.get(&packet.key) { Some(old) if old.ts >= packet.ts => false, _ => { m.insert(packet.key, packet); true } } };
        Ok(r)
    }
    pub async fn get(&self, key: &PublicKeyBytes) -> Result<Option<SignedPacket>> {
        sched::yield_point(false);
        let r = self.m.lock().unwrap().get(&key.0).cloned();
        Ok(r)
    }
}
// shim: the mainline DHT client — answers with what the harness scripted, after a scheduling point
#[derive(Debug, Clone)] pub struct Dht { pub item: Option<MutableItem> }
#[derive(Debug, Clone)] pub struct MutableItem { pub k: u8, pub seq_: i64 }
impl MutableItem { pub fn key(&self) -> &u8 { &self.k } pub fn signature(&self) -> &u8 { &self.k } pub fn seq(&self) -> i64 { self.seq_ } pub fn value(&self) -> &u8 { &self.k } }
impl Dht { pub async fn get_mutable_most_recent(&self, _k: &u8, _salt: Option<&[u8]>) -> Result<Option<MutableItem>> { sched::yield_point(false); let r = self.item.clone(); Ok(r) } }

//@item iroh-dns-server/src/store.rs const DEFAULT_CACHE_CAPACITY
//@item iroh-dns-server/src/store.rs const DHT_CACHE_TTL
//@item iroh-dns-server/src/store.rs enum PacketSource
//@item iroh-dns-server/src/store.rs struct ZoneStore derive=Debug,Clone
//@item iroh-dns-server/src/store.rs struct ZoneCache derive=Debug
//@item iroh-dns-server/src/store.rs struct CachedZone derive=Debug
//@fn iroh-dns-server/src/store.rs mutable_item_to_signed_packet
//@end
impl ZoneStore {
//@fn iroh-dns-server/src/store.rs ZoneStore::new
//@end
//@fn iroh-dns-server/src/store.rs ZoneStore::resolve stripattrs
//@end
//@fn iroh-dns-server/src/store.rs ZoneStore::get_signed_packet stripattrs
//@end
//@fn iroh-dns-server/src/store.rs ZoneStore::insert stripattrs
//@end
}
impl ZoneCache {
//@fn iroh-dns-server/src/store.rs ZoneCache::new
//@end
//@fn iroh-dns-server/src/store.rs ZoneCache::resolve
//@end
//@fn iroh-dns-server/src/store.rs ZoneCache::insert_and_resolve
//@end
//@fn iroh-dns-server/src/store.rs ZoneCache::insert_and_resolve_dht
//@end
//@fn iroh-dns-server/src/store.rs ZoneCache::insert
//@end
//@fn iroh-dns-server/src/store.rs ZoneCache::remove
//@end
}
impl CachedZone {
//@fn iroh-dns-server/src/store.rs CachedZone::from_signed_packet
//@end
//@fn iroh-dns-server/src/store.rs CachedZone::is_newer_than
//@end
//@fn iroh-dns-server/src/store.rs CachedZone::resolve
//@end
}
// @extra-items-here (helpers a change newly calls are spliced in above this line)
//@include shims/harness.rs

fn block_on<F: std::future::Future>(f: F) -> F::Output {
    let mut f = std::pin::pin!(f);
    let mut cx = std::task::Context::from_waker(std::task::Waker::noop());
    loop { if let std::task::Poll::Ready(v) = f.as_mut().poll(&mut cx) { return v; } std::thread::yield_now(); }
}
#[derive(Debug, Clone, Copy, PartialEq)] enum Op { Resolve, Read, Publish(u64) }
#[derive(Debug, Clone)] enum Ev { Ack { ts: u64, updated: bool }, Answer { ts: Option<u64>, what: &'static str } }
struct Scenario { name: &'static str, stored: Option<u64>, cached: bool, dht: Option<u64>, threads: Vec<Vec<Op>> }

fn main() {
    std::panic::set_hook(Box::new(|_| {}));
    let args: Vec<String> = std::env::args().collect();
    let max_threads: usize = args.get(1).and_then(|s| s.parse().ok()).unwrap_or(2);
    let bound: usize = args.get(2).and_then(|s| s.parse().ok()).filter(|b| *b > 0).unwrap_or(usize::MAX);   // 0 = every schedule
    let mut rep = Rep::new(args.get(3).cloned());
    let mut scenarios: Vec<Scenario> = vec![];
    for (stored, cached) in [(Some(10u64), false), (Some(10), true), (None, false)] {
        for dht in [None, Some(5u64)] {
            if dht.is_some() && stored.is_some() { continue; }   // the DHT is asked only when the store has nothing
            scenarios.push(Scenario { name: "lookup|publish", stored, cached, dht, threads: vec![vec![Op::Resolve], vec![Op::Publish(20)]] });
            scenarios.push(Scenario { name: "lookup;lookup|publish", stored, cached, dht, threads: vec![vec![Op::Resolve, Op::Resolve], vec![Op::Publish(20)]] });
            scenarios.push(Scenario { name: "lookup|publish;publish", stored, cached, dht, threads: vec![vec![Op::Resolve], vec![Op::Publish(20), Op::Publish(30)]] });
            scenarios.push(Scenario { name: "lookup|publish;read", stored, cached, dht, threads: vec![vec![Op::Resolve], vec![Op::Publish(20), Op::Read]] });
        }
    }
    scenarios.push(Scenario { name: "publish|publish", stored: Some(10), cached: true, dht: None, threads: vec![vec![Op::Publish(20)], vec![Op::Publish(30)]] });
    scenarios.push(Scenario { name: "lookup|older-publish", stored: Some(10), cached: false, dht: None, threads: vec![vec![Op::Resolve], vec![Op::Publish(7)]] });
    if max_threads >= 3 {
        for (stored, dht) in [(Some(10u64), None), (None, Some(5u64))] {
            scenarios.push(Scenario { name: "lookup|lookup|publish", stored, cached: false, dht, threads: vec![vec![Op::Resolve], vec![Op::Resolve], vec![Op::Publish(20)]] });
            scenarios.push(Scenario { name: "lookup|publish|publish", stored, cached: false, dht, threads: vec![vec![Op::Resolve], vec![Op::Publish(20)], vec![Op::Publish(30)]] });
        }
    }
    let key = PublicKeyBytes(1);
    let name = Name("_iroh".into());
    for sc in &scenarios {
        // two-task scenarios: every schedule; three tasks: every schedule with at most `bound` pre-emptions
        sched::PREEMPTION_BOUND.store(if sc.threads.len() >= 3 { bound } else { usize::MAX }, std::sync::atomic::Ordering::Relaxed);
        let mut prefix: Vec<usize> = vec![];
        let base = format!("scenario={} stored={:?} cached={} dht={:?}", sc.name, sc.stored, sc.cached, sc.dht);
        if let Some(o) = &rep.only { if !o.starts_with(&format!("{base} ")) { continue; } if let Some(p) = o.split("choices=").nth(1) { prefix = p.trim_matches(|c| c == '[' || c == ']').split(',').filter_map(|x| x.trim().parse().ok()).collect(); } }
        loop {
            // initial state, built through the code under test itself (the scheduler is inactive here)
            let mut zs = ZoneStore::new(SignedPacketStore::default(), Arc::new(Metrics::default()));
            zs.dht = sc.dht.map(|seq| Dht { item: Some(MutableItem { k: key.0, seq_: seq as i64 }) });
            if let Some(ts) = sc.stored { let _ = block_on(zs.insert(SignedPacket { key: key.0, ts }, PacketSource::PkarrPublish)); }
            if sc.cached { let _ = block_on(zs.resolve(&key, &name, RecordType::TXT)); }
            let events: Arc<std::sync::Mutex<Vec<Ev>>> = Default::default();
            let mut progs: Vec<Box<dyn FnOnce() + Send>> = vec![];
            for t in &sc.threads {
                let (zs2, ops, ev, name2) = (zs.clone(), t.clone(), events.clone(), name.clone());
                progs.push(Box::new(move || { for op in ops { match op {
                    Op::Resolve => { let r = block_on(zs2.resolve(&key, &name2, RecordType::TXT)); ev.lock().unwrap().push(Ev::Answer { ts: r.ok().flatten().map(|s| s.content_of_packet_ts), what: "DNS answer" }); }
                    Op::Read => { let r = block_on(zs2.get_signed_packet(&key)); ev.lock().unwrap().push(Ev::Answer { ts: r.ok().flatten().map(|p| p.ts), what: "packet read" }); }
                    Op::Publish(ts) => { let r = block_on(zs2.insert(SignedPacket { key: key.0, ts }, PacketSource::PkarrPublish)); ev.lock().unwrap().push(Ev::Ack { ts, updated: matches!(r, Ok(true)) }); }
                } } }));
            }
            let out = sched::run(progs, &prefix);
            let choices: Vec<usize> = out.trace.iter().map(|x| x.1).collect();
            let input = format!("{base} choices={:?}", choices);
            rep.evaluations += 1; if out.order.windows(2).any(|w| w[0] != w[1]) { rep.nontrivial += 1; }
            if rep.evaluations % 211 == 7 { rep.sample(&format!("{input} (tasks ran in the order {:?})", out.order)); }
            if out.deadlock { rep.fail("never-deadlocks", "other", &input, format!("no task can proceed; tasks ran in the order {:?}", out.order)); }
            else if !out.panicked.is_empty() { rep.fail("never-panics", "other", &input, format!("task(s) {:?} panicked", out.panicked)); }
            else {
                // a fresh lookup and a fresh packet read after everything has finished (what the cache / store now hold)
                let mut evs = events.lock().unwrap().clone();
                evs.push(Ev::Answer { ts: block_on(zs.resolve(&key, &name, RecordType::TXT)).ok().flatten().map(|s| s.content_of_packet_ts), what: "DNS answer (fresh lookup afterwards)" });
                evs.push(Ev::Answer { ts: block_on(zs.get_signed_packet(&key)).ok().flatten().map(|p| p.ts), what: "packet read (afterwards)" });
                let mut acked: Option<u64> = None;
                for e in &evs { match e {
                    Ev::Ack { ts, updated } => { if *updated { acked = Some(acked.map_or(*ts, |a| a.max(*ts))); } }
                    Ev::Answer { ts, what } => {
                        if let Some(a) = acked && let Some(t) = ts && *t < a {   // "nothing found" reflects no packet at all (negative answers are not cached)
                            rep.fail("no-older-packet-after-acknowledged-update", if what.starts_with("DNS") { "dns-answer" } else { "packet-read" }, &input,
                                     format!("a publish with timestamp {a} had been acknowledged as an update, then a {what} reflected {:?}; events {:?}; tasks ran in the order {:?}", ts, evs, out.order));
                            break;
                        }
                    }
                } }
            }
            if rep.only.is_some() { break; }
            match sched::next_prefix(out.trace) { Some(p) => prefix = p, None => break }
        }
    }
    rep.finish();
}
