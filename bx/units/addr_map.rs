//@unit addr_map_bx props=C18
// C18 — bounded second line behind the Verus unit `addr_map` and the Kani harnesses (NOT a proof): AddrMap::{default, get, lookup}
// with AddrMapInner, extracted verbatim, (a) on every sequential history of get / lookup calls over three keys with an address
// generator that repeats itself (so "generate until unique" is exercised), compared with a reference bijection; (b) under the
// controlled scheduler: EVERY schedule of two threads (and, with a pre-emption bound, three) that look up the same and different
// keys for the first time — each key gets one address, it never changes, no two keys share one, the reverse map is its inverse.
#![allow(dead_code, unused_imports, unused_variables, unused_macros, unused_mut)]
macro_rules! trace { ($($t:tt)*) => { () }; }
macro_rules! debug { ($($t:tt)*) => { () }; }
//@include shims/sched.rs
// `std::sync::Mutex` written out in the extracted code must be the scheduler-aware shim
mod std { pub use ::std::*; pub mod sync { pub use ::std::sync::*; pub use crate::sched::Mutex2 as Mutex; pub use crate::sched::MutexGuard2 as MutexGuard; pub use crate::sched::RwLock; } }
use ::std::collections::{HashMap, HashSet};
use ::std::hash::Hash;
use ::std::sync::Arc;
use ::std::fmt;
pub type FxHashMap<K, V> = HashMap<K, V>;
// shim: the address kind of the harness; generate() replays a script in which every value comes twice — the second time it is
// already taken, so the uniqueness loop has to go round
pub trait MappedAddr { fn generate() -> Self; }
#[derive(Debug, Clone, Copy, PartialEq, Eq, Hash, PartialOrd, Ord)] pub struct A(pub u32);
pub static GEN: ::std::sync::atomic::AtomicU32 = ::std::sync::atomic::AtomicU32::new(0);
impl MappedAddr for A { fn generate() -> A { let n = GEN.fetch_add(1, ::std::sync::atomic::Ordering::SeqCst); A(100 + n / 2) } }

//@item iroh/src/socket/mapped_addrs.rs struct AddrMap stripattrs derive=Debug,Clone
//@item iroh/src/socket/mapped_addrs.rs struct AddrMapInner stripattrs derive=Debug
impl<K, V> Default for AddrMap<K, V> {
//@fn iroh/src/socket/mapped_addrs.rs Default@AddrMap::default
//@end
}
impl<K, V> Default for AddrMapInner<K, V> {
//@fn iroh/src/socket/mapped_addrs.rs Default@AddrMapInner::default
//@end
}
// @impl-header AddrMap: impl<K, V> AddrMap<K, V> where K: Eq + Hash + Clone + fmt::Debug, V: MappedAddr + Eq + Hash + Copy + fmt::Debug
impl<K, V> AddrMap<K, V> where K: Eq + Hash + Clone + fmt::Debug, V: MappedAddr + Eq + Hash + Copy + fmt::Debug {
//@fn iroh/src/socket/mapped_addrs.rs AddrMap::get
//@end
//@fn iroh/src/socket/mapped_addrs.rs AddrMap::lookup
//@end
}
// @extra-items-here (helpers a change newly calls are spliced in above this line)
//@include shims/harness.rs

#[derive(Debug, Clone, Copy, PartialEq, Eq, Hash)] enum Op { Get(u8), Lookup(u32) }
/// the two tables must be each other's inverse; returns them
fn tables(m: &AddrMap<u8, A>) -> Result<(HashMap<u8, A>, HashMap<A, u8>), String> {
    let g = m.inner.lock().unwrap();
    let (a, l) = (g.addrs.clone(), g.lookup.clone());
    for (k, v) in &a { if l.get(v) != Some(k) { return Err(format!("key {k} maps to {v:?}, which translates back to {:?}", l.get(v))); } }
    for (v, k) in &l { if a.get(k) != Some(v) { return Err(format!("address {v:?} translates to key {k}, whose address is {:?}", a.get(k))); } }
    Ok((a, l))
}

fn main() {
    ::std::panic::set_hook(Box::new(|_| {}));
    let args: Vec<String> = ::std::env::args().collect();
    let max_len: usize = args.get(1).and_then(|s| s.parse().ok()).unwrap_or(5);
    let threads3: bool = args.get(2).map(|s| s == "1").unwrap_or(false);
    let mut rep = Rep::new(args.get(3).cloned());
    // ---- (a) sequential histories
    let alphabet = vec![Op::Get(1), Op::Get(2), Op::Get(3), Op::Lookup(100), Op::Lookup(101), Op::Lookup(102), Op::Lookup(7)];
    let n = alphabet.len();
    let mut idx: Vec<usize> = vec![0];
    loop {
        let seq: Vec<Op> = idx.iter().map(|i| alphabet[*i]).collect();
        let input = format!("history={:?}", seq);
        if !rep.skip(&input) {
            rep.evaluations += 1; if seq.iter().filter(|o| matches!(o, Op::Get(_))).count() >= 3 { rep.nontrivial += 1; }
            if seq.len() == 4 && rep.evaluations % 397 == 0 { rep.sample(&input); }
            let seq2 = seq.clone();
            let out = ::std::panic::catch_unwind(move || {
                GEN.store(0, ::std::sync::atomic::Ordering::SeqCst);
                let m: AddrMap<u8, A> = AddrMap::default();
                let (mut fwd, mut back): (HashMap<u8, A>, HashMap<A, u8>) = Default::default();
                for (k, op) in seq2.iter().enumerate() {
                    match *op {
                        Op::Get(key) => {
                            let a = m.get(&key);
                            match fwd.get(&key) {
                                Some(prev) if *prev != a => return Some(("a-keys-address-never-changes", format!("step {}: get({key}) returned {a:?}, earlier it returned {prev:?}", k + 1))),
                                Some(_) => {}
                                None => { if let Some(other) = back.get(&a) { return Some(("no-two-keys-share-an-address", format!("step {}: get({key}) returned {a:?}, which is key {other}'s address", k + 1))); } fwd.insert(key, a); back.insert(a, key); }
                            }
                        }
                        Op::Lookup(v) => { let r = m.lookup(&A(v)); if r != back.get(&A(v)).copied() { return Some(("translating-back-yields-exactly-the-key", format!("step {}: lookup({v}) returned {r:?}, the key with that address is {:?}", k + 1, back.get(&A(v))))); } }
                    }
                    match tables(&m) { Err(e) => return Some(("the-two-tables-are-inverse", format!("after step {}: {e}", k + 1))), Ok((a, _)) => if a != fwd { return Some(("exactly-one-address-per-key", format!("after step {}: the map holds {:?}, handed out were {:?}", k + 1, a, fwd))); } }
                }
                None
            });
            match out { Err(_) => rep.fail("never-panics", "sequential", &input, "the map panicked".into()), Ok(Some((ob, d))) => rep.fail(ob, "sequential", &input, d), Ok(None) => {} }
        }
        let mut k = idx.len();
        loop { if k == 0 { idx = vec![0; idx.len() + 1]; break; } k -= 1; if idx[k] + 1 < n { idx[k] += 1; for j in k + 1..idx.len() { idx[j] = 0; } break; } }
        if idx.len() > max_len { break; }
    }
    // ---- (b) concurrent first lookups under the controlled scheduler
    let mut scen: Vec<(&str, Vec<Vec<Op>>)> = vec![
        ("same-key", vec![vec![Op::Get(1), Op::Get(1)], vec![Op::Get(1), Op::Lookup(100)]]),
        ("different-keys", vec![vec![Op::Get(1), Op::Get(2)], vec![Op::Get(2), Op::Get(1)]]),
        ("get-against-lookup", vec![vec![Op::Get(1)], vec![Op::Lookup(100), Op::Get(2), Op::Lookup(100)]]),
    ];
    if threads3 { scen.push(("three-threads", vec![vec![Op::Get(1), Op::Get(2)], vec![Op::Get(1)], vec![Op::Get(2), Op::Get(1)]])); }
    for (name, threads) in &scen {
        sched::PREEMPTION_BOUND.store(if threads.len() > 2 { 3 } else { usize::MAX }, ::std::sync::atomic::Ordering::SeqCst);
        let base = format!("scenario={name} threads={:?}", threads);
        let mut prefix: Vec<usize> = vec![];
        if let Some(o) = &rep.only { if !o.starts_with(&format!("{base} ")) { continue; } if let Some(p) = o.split("choices=").nth(1) { prefix = p.trim_matches(|c| c == '[' || c == ']').split(',').filter_map(|x| x.trim().parse().ok()).collect(); } }
        loop {
            GEN.store(0, ::std::sync::atomic::Ordering::SeqCst);
            let m: AddrMap<u8, A> = AddrMap::default();
            let log: Arc<::std::sync::Mutex<Vec<(usize, Op, String)>>> = Default::default();
            let mut progs: Vec<Box<dyn FnOnce() + Send>> = vec![];
            for (t, ops) in threads.iter().cloned().enumerate() {
                let (m2, log2) = (m.clone(), log.clone());
                progs.push(Box::new(move || { for op in ops { let r = match op { Op::Get(k) => format!("{:?}", m2.get(&k)), Op::Lookup(v) => format!("{:?}", m2.lookup(&A(v))) }; log2.lock().unwrap().push((t, op, r)); } }));
            }
            let out = sched::run(progs, &prefix);
            let choices: Vec<usize> = out.trace.iter().map(|x| x.1).collect();
            let input = format!("{base} choices={:?}", choices);
            rep.evaluations += 1; rep.nontrivial += 1;
            if rep.evaluations % 11 == 1 { rep.sample(&input); }
            if out.deadlock { rep.fail("never-deadlocks", "concurrent", &input, "no thread can proceed".into()); }
            else if !out.panicked.is_empty() { rep.fail("never-panics", "concurrent", &input, format!("thread(s) {:?} panicked", out.panicked)); }
            else {
                let calls = log.lock().unwrap().clone();
                let mut per_key: HashMap<u8, HashSet<String>> = HashMap::new();
                for (_, op, r) in &calls { if let Op::Get(k) = op { per_key.entry(*k).or_default().insert(r.clone()); } }
                for (k, rs) in &per_key { if rs.len() > 1 { rep.fail("exactly-one-address-per-key", "concurrent", &input, format!("get({k}) returned {:?} to different callers; calls in completion order: {:?}; threads ran in the order {:?}", rs, calls, out.order)); } }
                let all: Vec<&String> = per_key.values().flat_map(|s| s.iter()).collect();
                if all.iter().collect::<HashSet<_>>().len() != all.len() { rep.fail("no-two-keys-share-an-address", "concurrent", &input, format!("two keys got the same address: {:?}", per_key)); }
                match tables(&m) {
                    Err(e) => rep.fail("the-two-tables-are-inverse", "concurrent", &input, format!("{e}; calls: {:?}", calls)),
                    Ok((a, l)) => {
                        if a.len() != per_key.len() || l.len() != per_key.len() { rep.fail("the-two-tables-are-inverse", "concurrent", &input, format!("{} keys were looked up; the forward table has {} entries, the reverse table {}", per_key.len(), a.len(), l.len())); }
                        for (k, rs) in &per_key { if let Some(v) = a.get(k) && !rs.contains(&format!("{v:?}")) { rep.fail("a-keys-address-never-changes", "concurrent", &input, format!("key {k} is now mapped to {v:?}; callers were given {:?}", rs)); } }
                    }
                }
                // a lookup that returned a key: that key's address is the one asked for
                for (_, op, r) in &calls { if let Op::Lookup(v) = op && r != "None" { let k: u8 = r.trim_start_matches("Some(").trim_end_matches(')').parse().unwrap_or(0); if !per_key.get(&k).is_some_and(|s| s.contains(&format!("{:?}", A(*v)))) { rep.fail("translating-back-yields-exactly-the-key", "concurrent", &input, format!("lookup({v}) returned {r}; that key's address is {:?}", per_key.get(&k))); } } }
            }
            if rep.only.is_some() { break; }
            match sched::next_prefix(out.trace) { Some(p) => prefix = p, None => break }
        }
    }
    rep.finish();
}
