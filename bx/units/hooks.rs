//@unit hooks_bx props=C42
// C42 — bounded second line (NOT a proof) behind the Verus unit `hooks`: EndpointHooksList::{before_connect, after_handshake},
// Endpoint::connect_with_opts and the handshake-completion block of conn_from_noq_conn, extracted verbatim, with scripted hooks
// and recording stand-ins for the endpoint's internals (address resolution, the QUIC connect call, connection close).
#![allow(dead_code, unused_imports, unused_variables, unused_macros, unused_mut)]
macro_rules! trace { ($($t:tt)*) => { () }; }
macro_rules! debug { ($($t:tt)*) => { () }; }
macro_rules! event { ($($t:tt)*) => { () }; }
macro_rules! e { ($($t:tt)*) => { $($t)* }; }
macro_rules! ensure { ($cond:expr, $($err:tt)*) => { if !($cond) { return Err(e!($($err)*).into()); } }; }
use std::future::Future;
use std::pin::Pin;
use std::sync::{Arc, Mutex};
pub type BoxFuture<'a, T> = Pin<Box<dyn Future<Output = T> + Send + 'a>>;
pub mod tracing { pub mod field { pub struct Empty; pub fn display<T>(_t: T) -> () {} } pub struct Level; impl Level { pub const DEBUG: Level = Level; } }
pub struct Span; impl Span { pub fn current() -> Span { Span } pub fn record<T>(&self, _k: &str, _v: T) {} }
#[derive(Debug, Clone, Copy, PartialEq, Eq, Hash)] pub struct EndpointId(pub u8);
impl EndpointId { pub fn fmt_short(&self) -> String { format!("e{}", self.0) } }
#[derive(Debug, Clone, PartialEq, Eq)] pub struct RelayUrl(pub u8);
#[derive(Debug, Clone, PartialEq, Eq)] pub struct EndpointAddr { pub id: EndpointId }
impl EndpointAddr { pub fn relay_urls(&self) -> std::vec::IntoIter<&RelayUrl> { Vec::new().into_iter() } pub fn ip_addrs(&self) -> std::vec::IntoIter<&std::net::SocketAddr> { Vec::new().into_iter() } }
impl From<EndpointId> for EndpointAddr { fn from(id: EndpointId) -> Self { EndpointAddr { id } } }
#[derive(Debug, Clone, Copy, PartialEq, Eq)] pub struct VarInt(pub u32);
// shims: errors (stack_error enums reduced to their variants)
#[derive(Debug, Clone, PartialEq)] pub struct AddressLookupFailed; #[derive(Debug, Clone, PartialEq)] pub struct RemoteStateActorStoppedError; #[derive(Debug, Clone, PartialEq)] pub struct QuicConnectError;
#[derive(Debug, Clone, PartialEq)] pub enum ConnectWithOptsError { SelfConnect, NoAddress, Noq, InternalConsistencyError, LocallyRejected, EndpointClosed, InvalidAlpn }
impl From<AddressLookupFailed> for ConnectWithOptsError { fn from(_: AddressLookupFailed) -> Self { ConnectWithOptsError::NoAddress } }
impl From<RemoteStateActorStoppedError> for ConnectWithOptsError { fn from(_: RemoteStateActorStoppedError) -> Self { ConnectWithOptsError::InternalConsistencyError } }
impl From<QuicConnectError> for ConnectWithOptsError { fn from(_: QuicConnectError) -> Self { ConnectWithOptsError::Noq } }
#[derive(Debug, Clone, PartialEq)] pub enum ConnectingError { ConnectionError, HandshakeFailure, InternalConsistencyError, LocallyRejected }
impl From<RemoteStateActorStoppedError> for ConnectingError { fn from(_: RemoteStateActorStoppedError) -> Self { ConnectingError::InternalConsistencyError } }
// shims: the endpoint's internals — they record what the extracted code asks of them
#[derive(Debug, Default)] pub struct Log { pub resolved: Vec<EndpointId>, pub quic_connects: Vec<(Vec<Vec<u8>>, String)>, pub closed: Vec<(u64, u32, Vec<u8>)>, pub hook_calls: Vec<String> }
#[derive(Debug, Clone)] pub struct TransportArc; #[derive(Debug, Clone, Default)] pub struct QuicTransportConfig; impl QuicTransportConfig { pub fn to_inner_arc(&self) -> TransportArc { TransportArc } }
#[derive(Debug, Clone)] pub struct ClientConfig { pub alpns: Vec<Vec<u8>> }
#[derive(Debug, Default)] pub struct StaticConfig { pub transport_config: QuicTransportConfig }
impl StaticConfig { pub fn create_client_config(&self, alpn_protocols: Vec<Vec<u8>>, _t: TransportArc) -> ClientConfig { ClientConfig { alpns: alpn_protocols } } }
#[derive(Debug, Clone, Copy)] pub struct MappedAddr; impl MappedAddr { pub fn private_socket_addr(&self) -> std::net::SocketAddr { std::net::SocketAddr::from(([127, 0, 0, 1], 1)) } }
pub struct NoqEndpoint { pub log: Arc<Mutex<Log>>, pub connect_fails: bool }
pub struct NoqConnecting;
impl NoqEndpoint { pub fn connect_with(&self, cfg: ClientConfig, _addr: std::net::SocketAddr, name: &str) -> Result<NoqConnecting, QuicConnectError> { self.log.lock().unwrap().quic_connects.push((cfg.alpns, name.to_string())); if self.connect_fails { Err(QuicConnectError) } else { Ok(NoqConnecting) } } }
pub mod tls { pub mod name { pub fn encode(id: crate::EndpointId) -> String { format!("name-of-e{}", id.0) } } }
pub struct EndpointInner { pub hooks: EndpointHooksList, pub static_config: StaticConfig, pub log: Arc<Mutex<Log>>, pub resolve_fails: u8, pub connect_fails: bool }
impl EndpointInner {
    pub async fn resolve_remote(&self, addr: EndpointAddr) -> Result<Result<MappedAddr, AddressLookupFailed>, RemoteStateActorStoppedError> { self.log.lock().unwrap().resolved.push(addr.id); match self.resolve_fails { 0 => Ok(Ok(MappedAddr)), 1 => Ok(Err(AddressLookupFailed)), _ => Err(RemoteStateActorStoppedError) } }
    pub fn noq_endpoint(&self) -> NoqEndpoint { NoqEndpoint { log: self.log.clone(), connect_fails: self.connect_fails } }
}
#[derive(Clone)] pub struct Endpoint { pub inner: Arc<EndpointInner>, pub me: EndpointId, pub closed: bool }
impl Endpoint { pub fn is_closed(&self) -> bool { self.closed } pub fn id(&self) -> EndpointId { self.me } }
pub struct Connecting { pub remote: EndpointId }
impl Connecting { pub fn new(_c: NoqConnecting, _ep: Endpoint, remote: EndpointId) -> Self { Connecting { remote } } }
// a QUIC connection whose handshake has completed
pub mod noq { #[derive(Debug, Clone)] pub struct Connection { pub id: u64, pub log: std::sync::Arc<std::sync::Mutex<crate::Log>> } }
#[derive(Debug, Clone, PartialEq)] pub struct StaticInfo { pub endpoint_id: EndpointId, pub alpn: Vec<u8> }
#[derive(Debug, Clone, PartialEq)] pub struct PathStateReceiver;
#[derive(Debug, Clone)] pub struct HandshakeCompletedData { pub info: StaticInfo, pub paths: PathStateReceiver }
#[derive(Debug, Clone)] pub struct Connection { pub data: HandshakeCompletedData, pub inner: noq::Connection }
impl Connection { pub fn close(&self, error_code: VarInt, reason: &[u8]) { self.inner.log.lock().unwrap().closed.push((self.inner.id, error_code.0, reason.to_vec())); } }
pub type RegisterFut = BoxFuture<'static, Result<PathStateReceiver, RemoteStateActorStoppedError>>;
pub trait DynEndpointHooks: std::fmt::Debug + Send + Sync {
    fn before_connect<'a>(&'a self, remote_addr: &'a EndpointAddr, alpn: &'a [u8]) -> BoxFuture<'a, BeforeConnectOutcome>;
    fn after_handshake<'a>(&'a self, conn: &'a Connection) -> BoxFuture<'a, AfterHandshakeOutcome>;
}

//@item iroh/src/endpoint/hooks.rs enum BeforeConnectOutcome derive=Debug,Clone,Copy,PartialEq,Eq
//@item iroh/src/endpoint/hooks.rs enum AfterHandshakeOutcome derive=Debug,Clone,PartialEq,Eq
//@item iroh/src/endpoint/hooks.rs struct EndpointHooksList derive=Debug,Default
impl EndpointHooksList {
//@fn iroh/src/endpoint/hooks.rs EndpointHooksList::before_connect
//@end
//@fn iroh/src/endpoint/hooks.rs EndpointHooksList::after_handshake
//@end
}
//@item iroh/src/endpoint.rs struct ConnectOptions derive=Debug,Clone,Default
impl Endpoint {
//@fn iroh/src/endpoint.rs Endpoint::connect_with_opts stripattrs
//@end
}
//@arm iroh/src/endpoint/connection.rs conn_from_noq_conn name=conn_block block
//@- Ok(async move
//@| pub async fn conn_block(fut: RegisterFut, info: StaticInfo, conn: noq::Connection, inner: Arc<EndpointInner>) -> Result<Connection, ConnectingError>
//@end
// @extra-items-here (helpers a change newly calls are spliced in above this line)
//@include shims/harness.rs

fn block_on<F: Future>(f: F) -> F::Output { let mut f = std::pin::pin!(f); let mut cx = std::task::Context::from_waker(std::task::Waker::noop()); loop { if let std::task::Poll::Ready(v) = f.as_mut().poll(&mut cx) { return v; } } }
// a hook scripted by two verdicts: before connecting (accept / reject), after the handshake (accept / reject with its own code)
#[derive(Debug)] struct Scripted { id: u8, before_accepts: bool, after_rejects_with: Option<(u32, Vec<u8>)>, log: Arc<Mutex<Log>> }
impl DynEndpointHooks for Scripted {
    fn before_connect<'a>(&'a self, remote_addr: &'a EndpointAddr, alpn: &'a [u8]) -> BoxFuture<'a, BeforeConnectOutcome> { Box::pin(async move { self.log.lock().unwrap().hook_calls.push(format!("before#{}", self.id)); if self.before_accepts { BeforeConnectOutcome::Accept } else { BeforeConnectOutcome::Reject } }) }
    fn after_handshake<'a>(&'a self, conn: &'a Connection) -> BoxFuture<'a, AfterHandshakeOutcome> { Box::pin(async move { self.log.lock().unwrap().hook_calls.push(format!("after#{}", self.id)); match &self.after_rejects_with { None => AfterHandshakeOutcome::Accept, Some((c, r)) => AfterHandshakeOutcome::Reject { error_code: VarInt(*c), reason: r.clone() } } }) }
}

fn main() {
    std::panic::set_hook(Box::new(|_| {}));
    let args: Vec<String> = std::env::args().collect();
    let max_hooks: usize = args.get(1).and_then(|s| s.parse().ok()).unwrap_or(3);
    let mut rep = Rep::new(args.get(3).cloned());
    // every list of at most `max_hooks` hooks, each accepting or rejecting
    let mut lists: Vec<Vec<bool>> = vec![vec![]];
    let mut frontier: Vec<Vec<bool>> = vec![vec![]];
    for _ in 0..max_hooks { let mut next = vec![]; for l in &frontier { for b in [true, false] { let mut m = l.clone(); m.push(b); next.push(m); } } lists.extend(next.iter().cloned()); frontier = next; }
    let alpns: Vec<(&[u8], Vec<Vec<u8>>)> = vec![(b"proto/1", vec![]), (b"", vec![]), (b"", vec![b"proto/2".to_vec()]), (b"proto/1", vec![b"proto/2".to_vec(), b"".to_vec()]), (b"x", vec![b"x".to_vec()])];
    for verdicts in &lists { for (alpn, additional) in &alpns { for remote in [EndpointId(2), EndpointId(1)] { for closed in [false, true] { for resolve_fails in [0u8, 1, 2] { for connect_fails in [false, true] {
        // ---- outgoing: connect_with_opts
        let input = format!("connect hooks(before)={:?} alpn={:?} additional={:?} remote={} self=e1 closed={closed} resolve_fails={resolve_fails} quic_connect_fails={connect_fails}", verdicts, String::from_utf8_lossy(alpn), additional.iter().map(|a| String::from_utf8_lossy(a).to_string()).collect::<Vec<_>>(), remote.fmt_short());
        if rep.skip(&input) { continue; }
        rep.evaluations += 1; if verdicts.len() >= 2 { rep.nontrivial += 1; }
        if verdicts.len() == 2 && rep.evaluations % 211 == 3 { rep.sample(&input); }
        let log: Arc<Mutex<Log>> = Default::default();
        let mut hooks = EndpointHooksList::default();
        for (i, v) in verdicts.iter().enumerate() { hooks.inner.push(Box::new(Scripted { id: i as u8, before_accepts: *v, after_rejects_with: None, log: log.clone() })); }
        let ep = Endpoint { inner: Arc::new(EndpointInner { hooks, static_config: StaticConfig::default(), log: log.clone(), resolve_fails, connect_fails }), me: EndpointId(1), closed };
        let opts = ConnectOptions { transport_config: None, additional_alpns: additional.clone() };
        let r = std::panic::catch_unwind(std::panic::AssertUnwindSafe(|| block_on(ep.connect_with_opts(remote, alpn, opts)).map(|c| c.remote)));
        let l = log.lock().unwrap();
        match r {
            Err(_) => rep.fail("never-panics", "connect", &input, "connect_with_opts panicked".into()),
            Ok(res) => {
                let all_accept = verdicts.iter().all(|v| *v);
                let started = !l.quic_connects.is_empty();     // the QUIC handshake was started
                if started && !all_accept { rep.fail("a-rejecting-hook-stops-the-attempt-before-the-handshake", "connect", &input, format!("a hook rejects, yet the QUIC connect was started (offering {:?}); result {:?}", l.quic_connects, res)); }
                if res.is_ok() && !all_accept { rep.fail("established-only-if-every-hook-accepts", "connect", &input, "a hook rejects, yet connect_with_opts returned Ok".into()); }
                if (started || res.is_ok()) && remote == EndpointId(1) { rep.fail("connecting-to-ones-own-id-always-fails", "connect", &input, format!("remote is the endpoint's own id, yet the attempt went ahead (QUIC connect started: {started}, result {:?})", res)); }
                if (started || res.is_ok()) && alpn.is_empty() { rep.fail("an-empty-protocol-name-always-fails", "connect", &input, format!("the protocol name is empty, yet the attempt went ahead (QUIC connect offering {:?}, result {:?})", l.quic_connects, res)); }
                if (started || res.is_ok()) && closed { rep.fail("a-closed-endpoint-does-not-connect", "connect", &input, "the endpoint is closed, yet the attempt went ahead".into()); }
                // with every precondition met and nothing failing underneath, the connection attempt is made for exactly this protocol list
                if all_accept && !closed && remote != EndpointId(1) && !alpn.is_empty() && resolve_fails == 0 {
                    // (which further protocol names are offered next to the requested one is not part of the property)
                    if l.quic_connects.len() != 1 || !l.quic_connects[0].0.contains(&alpn.to_vec()) || l.quic_connects[0].1 != "name-of-e2" { rep.fail("an-accepted-attempt-is-made", "connect", &input, format!("QUIC connects made: {:?}, expected one offering {:?} to name-of-e2", l.quic_connects, String::from_utf8_lossy(alpn))); }
                    if res.is_ok() == connect_fails { rep.fail("an-accepted-attempt-is-made", "connect", &input, format!("result {:?} with quic_connect_fails={connect_fails}", res)); }
                }
            }
        }
    } } } } } }
    // ---- after the handshake: every list of hooks, each accepting or rejecting with its own code
    for verdicts in &lists { for register_fails in [false, true] {
        let input = format!("handshake-completed hooks(after)={:?} register_fails={register_fails}", verdicts);
        if rep.skip(&input) { continue; }
        rep.evaluations += 1; if verdicts.len() >= 2 { rep.nontrivial += 1; }
        let log: Arc<Mutex<Log>> = Default::default();
        let mut hooks = EndpointHooksList::default();
        for (i, v) in verdicts.iter().enumerate() { hooks.inner.push(Box::new(Scripted { id: i as u8, before_accepts: true, after_rejects_with: if *v { None } else { Some((100 + i as u32, vec![b'r', i as u8])) }, log: log.clone() })); }
        let inner = Arc::new(EndpointInner { hooks, static_config: StaticConfig::default(), log: log.clone(), resolve_fails: 0, connect_fails: false });
        let conn = noq::Connection { id: 77, log: log.clone() };
        let fut: RegisterFut = Box::pin(async move { if register_fails { Err(RemoteStateActorStoppedError) } else { Ok(PathStateReceiver) } });
        let info = StaticInfo { endpoint_id: EndpointId(2), alpn: b"proto/1".to_vec() };
        let r = std::panic::catch_unwind(std::panic::AssertUnwindSafe(|| block_on(conn_block(fut, info.clone(), conn, inner)).map(|c| (c.inner.id, c.data.info))));
        let l = log.lock().unwrap();
        match r {
            Err(_) => rep.fail("never-panics", "handshake", &input, "the handshake-completion block panicked".into()),
            Ok(res) => {
                let first_reject = verdicts.iter().position(|v| !*v);
                match (&res, first_reject) {
                    (Ok(_), Some(i)) => rep.fail("established-only-if-every-hook-accepts", "handshake", &input, format!("hook {i} rejects, yet the connection was handed out")),
                    (Ok((id, inf)), None) => { if *id != 77 || *inf != info { rep.fail("established-only-if-every-hook-accepts", "handshake", &input, "another connection than the one checked was handed out".into()); } if !l.closed.is_empty() { rep.fail("closed-only-on-rejection", "handshake", &input, format!("every hook accepts, yet the connection was closed: {:?}", l.closed)); } }
                    (Err(_), Some(i)) if !register_fails => { let want = (77u64, 100 + i as u32, vec![b'r', i as u8]); if l.closed != vec![want.clone()] { rep.fail("a-rejected-connection-is-closed-with-the-hooks-code", "handshake", &input, format!("closes: {:?}, expected exactly {:?} (the first rejecting hook's code and reason)", l.closed, want)); } }
                    (Err(_), None) if !register_fails => rep.fail("established-only-if-every-hook-accepts", "handshake", &input, format!("every hook accepts and registration succeeded, yet the result is {:?}", res)),
                    _ => {}
                }
            }
        }
    } }
    rep.finish();
}
