//@unit captive_portal_bx props=C13
// C13 — bounded second line (NOT a proof) behind the Verus unit `captive_portal` and the Kani harness: serve_no_content_handler and
// is_challenge_char, extracted verbatim, against executable stand-ins of http's HeaderValue / HeaderMap / response builder (faithful
// about what matters here: to_str() rejects bytes outside visible ASCII + tab, a header value may hold any byte >= 32 except 127, or a
// tab), on every challenge of at most 2 bytes over ALL byte values, every length 0..=70 of allowed characters, and every single-byte
// substitution (all 256 values) at the first, a middle and the last position of challenges of length 1, 2, 32, 62, 63, 64.
#![allow(dead_code, unused_imports, unused_variables, unused_macros, unused_mut)]
macro_rules! trace { ($($t:tt)*) => { () }; }
macro_rules! debug { ($($t:tt)*) => { () }; }
#[derive(Debug)] pub struct ToStrError; impl std::fmt::Display for ToStrError { fn fmt(&self, f: &mut std::fmt::Formatter<'_>) -> std::fmt::Result { write!(f, "not visible ASCII") } } impl std::error::Error for ToStrError {}
#[derive(Debug)] pub struct InvalidHeaderValue; impl std::fmt::Display for InvalidHeaderValue { fn fmt(&self, f: &mut std::fmt::Formatter<'_>) -> std::fmt::Result { write!(f, "invalid header value") } } impl std::error::Error for InvalidHeaderValue {}
#[derive(Debug, Clone, PartialEq, Eq)] pub struct HeaderValue(pub Vec<u8>);
fn value_byte_ok(b: u8) -> bool { b == b'\t' || (b >= 32 && b != 127) }
impl HeaderValue {
    pub fn from_bytes(b: &[u8]) -> Result<HeaderValue, InvalidHeaderValue> { if b.iter().all(|x| value_byte_ok(*x)) { Ok(HeaderValue(b.to_vec())) } else { Err(InvalidHeaderValue) } }
    pub fn from_str(s: &str) -> Result<HeaderValue, InvalidHeaderValue> { Self::from_bytes(s.as_bytes()) }
    pub fn from_static(s: &'static str) -> HeaderValue { HeaderValue(s.as_bytes().to_vec()) }
    pub fn as_bytes(&self) -> &[u8] { &self.0 }
    pub fn len(&self) -> usize { self.0.len() }
    pub fn is_empty(&self) -> bool { self.0.is_empty() }
    pub fn to_str(&self) -> Result<&str, ToStrError> { if self.0.iter().all(|b| *b == b'\t' || (*b >= 32 && *b < 127)) { Ok(std::str::from_utf8(&self.0).unwrap()) } else { Err(ToStrError) } }
}
pub trait IntoValue { fn into_value(self) -> Result<HeaderValue, InvalidHeaderValue>; }
impl IntoValue for String { fn into_value(self) -> Result<HeaderValue, InvalidHeaderValue> { HeaderValue::from_bytes(self.as_bytes()) } }
impl IntoValue for &str { fn into_value(self) -> Result<HeaderValue, InvalidHeaderValue> { HeaderValue::from_bytes(self.as_bytes()) } }
impl IntoValue for HeaderValue { fn into_value(self) -> Result<HeaderValue, InvalidHeaderValue> { Ok(self) } }
impl IntoValue for &HeaderValue { fn into_value(self) -> Result<HeaderValue, InvalidHeaderValue> { Ok(self.clone()) } }
impl IntoValue for Vec<u8> { fn into_value(self) -> Result<HeaderValue, InvalidHeaderValue> { HeaderValue::from_bytes(&self) } }
impl IntoValue for &[u8] { fn into_value(self) -> Result<HeaderValue, InvalidHeaderValue> { HeaderValue::from_bytes(self) } }
#[derive(Debug, Default)] pub struct HeaderMap(pub Vec<(String, HeaderValue)>);
impl HeaderMap { pub fn get(&self, name: &str) -> Option<&HeaderValue> { self.0.iter().find(|(n, _)| n.eq_ignore_ascii_case(name)).map(|(_, v)| v) } }
pub mod hyper { pub mod body { pub trait Body {} impl Body for () {} } }
pub mod http { pub use super::{HeaderMap, HeaderValue}; pub mod header { pub use super::super::{HeaderMap, HeaderValue}; } }
pub struct Request<B> { pub headers: HeaderMap, pub body: B }
impl<B> Request<B> { pub fn headers(&self) -> &HeaderMap { &self.headers } }
#[derive(Debug, Clone, Copy, PartialEq, Eq)] pub struct StatusCode(pub u16);
impl StatusCode { pub const NO_CONTENT: StatusCode = StatusCode(204); pub const OK: StatusCode = StatusCode(200); pub const BAD_REQUEST: StatusCode = StatusCode(400); }
#[derive(Debug)] pub struct BytesBody;
pub fn body_empty() -> BytesBody { BytesBody }
pub type HyperError = Box<dyn std::error::Error + Send + Sync>;
pub type HyperResult<T> = std::result::Result<T, HyperError>;
#[derive(Debug)] pub struct Response<B> { pub status: StatusCode, pub headers: Vec<(String, HeaderValue)>, pub body: B }
#[derive(Debug, Default)] pub struct ResponseBuilder { pub headers: Vec<(String, HeaderValue)>, pub status: Option<StatusCode>, pub err: bool }
impl ResponseBuilder {
    pub fn header<V: IntoValue>(mut self, name: &str, v: V) -> Self { match v.into_value() { Ok(v) => self.headers.push((name.to_string(), v)), Err(_) => self.err = true } self }
    pub fn status(mut self, s: StatusCode) -> Self { self.status = Some(s); self }
    pub fn body<B>(self, b: B) -> Result<Response<B>, InvalidHeaderValue> { if self.err { Err(InvalidHeaderValue) } else { Ok(Response { status: self.status.unwrap_or(StatusCode::OK), headers: self.headers, body: b }) } }
}
//@item iroh-relay/src/server.rs const NO_CONTENT_CHALLENGE_HEADER
//@item iroh-relay/src/server.rs const NO_CONTENT_RESPONSE_HEADER
//@fn iroh-relay/src/server.rs is_challenge_char
//@end
//@fn iroh-relay/src/server.rs serve_no_content_handler
//@end
// @extra-items-here (helpers a change newly calls are spliced in above this line)
//@include shims/harness.rs

fn allowed(b: u8) -> bool { b.is_ascii_alphanumeric() || b == b'.' || b == b'-' || b == b'_' }
fn main() {
    std::panic::set_hook(Box::new(|_| {}));
    let args: Vec<String> = std::env::args().collect();
    let max_all: usize = args.get(1).and_then(|s| s.parse().ok()).unwrap_or(2);
    let mut rep = Rep::new(args.get(3).cloned());
    let mut family: Vec<Option<Vec<u8>>> = vec![None, Some(vec![])];
    // every header value of at most `max_all` bytes a header can hold
    let ok_bytes: Vec<u8> = (0u16..256).map(|b| b as u8).filter(|b| value_byte_ok(*b)).collect();
    let mut frontier: Vec<Vec<u8>> = vec![vec![]];
    for _ in 0..max_all { let mut next = vec![]; for p in &frontier { for b in &ok_bytes { let mut q = p.clone(); q.push(*b); next.push(q); } } family.extend(next.iter().cloned().map(Some)); frontier = next; }
    let pattern = b"aZ09._-";
    for len in 0..=70usize { family.push(Some((0..len).map(|i| pattern[i % pattern.len()]).collect())); }
    for len in [1usize, 2, 32, 62, 63, 64] { let base: Vec<u8> = (0..len).map(|i| pattern[i % pattern.len()]).collect(); for pos in [0, len / 2, len - 1] { for b in &ok_bytes { let mut m = base.clone(); m[pos] = *b; family.push(Some(m)); } } }
    for ch in family {
        let input = match &ch { None => "no challenge header".to_string(), Some(c) => format!("challenge={:?}", c.iter().map(|b| if b.is_ascii_graphic() { (*b as char).to_string() } else { format!("\\x{b:02x}") }).collect::<String>()) };
        if rep.skip(&input) { continue; }
        rep.evaluations += 1; if ch.as_ref().is_some_and(|c| c.len() >= 2) { rep.nontrivial += 1; }
        if ch.as_ref().is_some_and(|c| c.len() == 63) && rep.samples.len() < 2 { rep.sample(&input); }
        let ch2 = ch.clone();
        let out = std::panic::catch_unwind(move || {
            let mut headers = HeaderMap::default();
            headers.0.push(("Host".into(), HeaderValue::from_static("relay.example")));
            if let Some(c) = &ch2 { headers.0.push(("X-Iroh-Challenge".into(), HeaderValue(c.clone()))); }
            serve_no_content_handler(Request { headers, body: () }, ResponseBuilder::default()).map(|r| (r.status, r.headers)).map_err(|e| e.to_string())
        });
        let well_formed = ch.as_ref().is_some_and(|c| (1..=63).contains(&c.len()) && c.iter().all(|b| allowed(*b)));
        match out {
            Err(_) => rep.fail("never-panics", "other", &input, "the handler panicked".into()),
            Ok(Err(e)) => if well_formed { rep.fail("well-formed-challenge-is-echoed-with-204", "other", &input, format!("the handler failed: {e}")); },
            Ok(Ok((status, hs))) => {
                let echo: Vec<&HeaderValue> = hs.iter().filter(|(n, _)| n.eq_ignore_ascii_case("X-Iroh-Response")).map(|(_, v)| v).collect();
                if well_formed {
                    let mut want = b"response ".to_vec(); want.extend_from_slice(ch.as_ref().unwrap());
                    if status != StatusCode::NO_CONTENT || echo.len() != 1 || echo[0].0 != want { rep.fail("well-formed-challenge-is-echoed-with-204", "other", &input, format!("status {}, response header(s) {:?}", status.0, echo.iter().map(|v| String::from_utf8_lossy(&v.0).to_string()).collect::<Vec<_>>())); }
                } else {
                    if !echo.is_empty() { rep.fail("any-other-challenge-produces-no-response-header", "other", &input, format!("response header {:?} was sent", String::from_utf8_lossy(&echo[0].0))); }
                    if status != StatusCode::NO_CONTENT { rep.fail("answers-204", "other", &input, format!("status {}", status.0)); }
                }
            }
        }
    }
    rep.finish();
}
