//@unit relay_registry_bx props=C06
// C06 — bounded stand-in (NOT a proof): the relay's connection registry — Clients::{register, unregister, disconnect,
// send_packet} with ClientState, and Client::{connection_id, start_shutdown, try_send_packet, try_send_peer_gone,
// try_send_health} — extracted verbatim.  (a) every sequential history of connects, closes, sends and disconnect requests up to
// the bound is compared step by step with a reference registry that restates the property; (b) two-thread scenarios run under
// the controlled scheduler (every schedule) and must be linearizable with respect to that reference.  (c) [property C08, run as
// group relay_disconnect_bx] a disconnect request for a connection that has been admitted, in every interleaving with the
// connection's registration.  (d) [property C05, run as group relay_forward_bx] send-heavy histories: a frame that cannot be forwarded
// never costs the RECEIVER its connection.  (e) [property C04, run as group relay_delivery_bx] histories and two-thread schedules with
// distinguishable packets: what shows up in a connection's queue is what was sent to its endpoint while it was the active connection,
// with the true sender, once, in order.
#![allow(dead_code, unused_imports, unused_variables, unused_macros, unused_mut)]
macro_rules! trace { ($($t:tt)*) => { () }; }
macro_rules! debug { ($($t:tt)*) => { () }; }
macro_rules! info { ($($t:tt)*) => { () }; }
macro_rules! warn { ($($t:tt)*) => { () }; }
// `std::sync::Mutex` / `std::sync::RwLock` that a change writes into the extracted code must be the scheduler-aware shims (a thread
// blocked inside a real lock would stall the controlled scheduler): this local `std` forwards everything else to the real one
mod std { pub use ::std::*; pub mod sync { pub use ::std::sync::*; pub use crate::sched::Mutex2 as Mutex; pub use crate::sched::RwLock; } }
use ::std::collections::{HashMap, HashSet, VecDeque};
use ::std::sync::Arc;
use ::std::time::Duration;
//@include shims/sched.rs
// shims: identifiers
#[derive(Debug, Clone, Copy, PartialEq, Eq, Hash, PartialOrd, Ord)] pub struct EndpointId(pub u8);
impl EndpointId { pub fn fmt_short(&self) -> String { format!("e{}", self.0) } }
#[derive(Debug, Clone, Copy, PartialEq, Eq, Hash, PartialOrd, Ord)] pub struct ConnectionId(pub u64);
impl std::fmt::Display for ConnectionId { fn fmt(&self, f: &mut std::fmt::Formatter<'_>) -> std::fmt::Result { write!(f, "{}", self.0) } }
#[derive(Debug)] pub struct OnDisconnectGuard { pub endpoint_id: EndpointId, pub connection_id: ConnectionId }
// shims: wire types the registry hands to a connection's queues (not under test here: property C10)
#[derive(Debug, Clone, PartialEq, Eq)] pub struct Datagrams(pub u8);
#[derive(Debug, Clone, Copy, PartialEq, Eq)] pub enum Status { Healthy, SameEndpointIdConnected, RateLimited }
impl std::fmt::Display for Status { fn fmt(&self, f: &mut std::fmt::Formatter<'_>) -> std::fmt::Result { write!(f, "{self:?}") } }
#[derive(Debug, Clone, PartialEq, Eq)] pub enum RelayToClientMsg { EndpointGone(EndpointId), Status(Status), Health { problem: String } }
#[derive(Debug, Clone, Copy, PartialEq, Eq)] pub enum ProtocolVersion { V1, V2 }
#[derive(Debug, Default)] pub struct Counter; impl Counter { pub fn inc(&self) -> u64 { 0 } }
#[derive(Debug, Default)] pub struct Metrics { pub clients_inactive_added: Counter, pub clients_inactive_removed: Counter, pub send_packets_dropped: Counter }
#[derive(Debug, Clone, Copy, PartialEq, Eq)] pub enum SendError { Full, Closed }
#[derive(Debug, PartialEq, Eq)] pub struct ForwardPacketError { pub reason: SendError }
impl ForwardPacketError { pub fn new(reason: SendError) -> Self { ForwardPacketError { reason } } }
pub trait BytesStreamSink {}
pub struct RelayedStream<S>(pub S);
impl BytesStreamSink for () {}
// shim: tokio mpsc, bounded, try_send only (the connection actor that drains the queues is not part of the registry)
pub mod mpsc {
    use std::sync::{Arc, Mutex};
    #[derive(Debug)] pub struct Chan<T> { pub q: std::collections::VecDeque<T>, pub cap: usize, pub closed: bool }
    #[derive(Debug)] pub struct Sender<T> { pub c: Arc<Mutex<Chan<T>>> }
    #[derive(Debug)] pub struct Receiver<T> { pub c: Arc<Mutex<Chan<T>>> }
    pub fn channel<T>(cap: usize) -> (Sender<T>, Receiver<T>) { let c = Arc::new(Mutex::new(Chan { q: Default::default(), cap, closed: false })); (Sender { c: c.clone() }, Receiver { c }) }
    impl<T> Sender<T> { pub fn try_send(&self, v: T) -> Result<(), super::TrySendError<T>> { let mut c = self.c.lock().unwrap(); if c.closed { Err(super::TrySendError::Closed(v)) } else if c.q.len() >= c.cap { Err(super::TrySendError::Full(v)) } else { c.q.push_back(v); Ok(()) } } }
    impl<T> Receiver<T> { pub fn drain(&self) -> Vec<T> { self.c.lock().unwrap().q.drain(..).collect() } pub fn close(&self) { self.c.lock().unwrap().closed = true; } }
}
#[derive(Debug)] pub enum TrySendError<T> { Full(T), Closed(T) }
#[derive(Debug, Clone, Default)] pub struct CancellationToken(Arc<std::sync::atomic::AtomicBool>);
impl CancellationToken { pub fn new() -> Self { Self::default() } pub fn cancel(&self) { self.0.store(true, std::sync::atomic::Ordering::SeqCst); } pub fn is_cancelled(&self) -> bool { self.0.load(std::sync::atomic::Ordering::SeqCst) } }
#[derive(Debug)] pub struct AbortOnDropHandle<T>(std::marker::PhantomData<T>);
// shim: dashmap::DashMap — one shard guarded by a scheduler-aware RwLock (every key contends with every other key: a superset
// of the blocking the real, sharded map shows); entry()/remove_if_mut hold the write lock, get() returns a guard holding the read lock
pub mod dashmap {
    use std::collections::HashMap;
    use std::hash::Hash;
    #[derive(Debug)] pub struct DashMap<K, V> { pub m: crate::sched::RwLock<HashMap<K, V>> }
    impl<K, V> Default for DashMap<K, V> { fn default() -> Self { DashMap { m: crate::sched::RwLock::new(HashMap::new()) } } }
    pub struct Ref<'a, K, V> { g: crate::sched::ReadGuard<'a, HashMap<K, V>>, k: K }
    impl<'a, K: Eq + Hash, V> std::ops::Deref for Ref<'a, K, V> { type Target = V; fn deref(&self) -> &V { self.g.get(&self.k).unwrap() } }
    pub enum Entry<'a, K, V> { Occupied(OccupiedEntry<'a, K, V>), Vacant(VacantEntry<'a, K, V>) }
    pub struct OccupiedEntry<'a, K, V> { g: crate::sched::WriteGuard<'a, HashMap<K, V>>, k: K }
    pub struct VacantEntry<'a, K, V> { g: crate::sched::WriteGuard<'a, HashMap<K, V>>, k: K }
    pub struct RefMut<'a, K, V> { g: crate::sched::WriteGuard<'a, HashMap<K, V>>, k: K }
    impl<'a, K: Eq + Hash, V> std::ops::Deref for RefMut<'a, K, V> { type Target = V; fn deref(&self) -> &V { self.g.get(&self.k).unwrap() } }
    impl<'a, K: Eq + Hash, V> std::ops::DerefMut for RefMut<'a, K, V> { fn deref_mut(&mut self) -> &mut V { self.g.get_mut(&self.k).unwrap() } }
    impl<'a, K: Eq + Hash + Clone, V> OccupiedEntry<'a, K, V> { pub fn get_mut(&mut self) -> &mut V { self.g.get_mut(&self.k).unwrap() } pub fn get(&self) -> &V { self.g.get(&self.k).unwrap() } }
    impl<'a, K: Eq + Hash + Clone, V> VacantEntry<'a, K, V> { pub fn insert(mut self, v: V) -> RefMut<'a, K, V> { self.g.insert(self.k.clone(), v); RefMut { g: self.g, k: self.k } } }
    impl<'a, K: Eq + Hash + Clone, V: Default> Entry<'a, K, V> {
        pub fn or_default(self) -> RefMut<'a, K, V> { match self { Entry::Occupied(o) => RefMut { g: o.g, k: o.k }, Entry::Vacant(v) => v.insert(V::default()) } }
    }
    impl<K: Eq + Hash + Clone, V> DashMap<K, V> {
        pub fn entry(&self, k: K) -> Entry<'_, K, V> { let g = self.m.write().unwrap(); if g.contains_key(&k) { Entry::Occupied(OccupiedEntry { g, k }) } else { Entry::Vacant(VacantEntry { g, k }) } }
        pub fn get(&self, k: &K) -> Option<Ref<'_, K, V>> { let g = self.m.read().unwrap(); if g.contains_key(k) { Some(Ref { g, k: k.clone() }) } else { None } }
        pub fn remove(&self, k: &K) -> Option<(K, V)> { self.m.write().unwrap().remove_entry(k) }
        pub fn remove_if_mut(&self, k: &K, f: impl FnOnce(&K, &mut V) -> bool) -> Option<(K, V)> { let mut g = self.m.write().unwrap(); let hit = match g.get_mut(k) { Some(v) => f(k, v), None => false }; if hit { g.remove_entry(k) } else { None } }
        pub fn contains_key(&self, k: &K) -> bool { self.m.read().unwrap().contains_key(k) }
    }
}
use dashmap::DashMap;

//@item iroh-relay/src/server/client.rs struct Packet derive=Debug,Clone
//@item iroh-relay/src/server/client.rs struct Config stripattrs derive=
//@item iroh-relay/src/server/client.rs struct Client derive=Debug
//@item iroh-relay/src/server/clients.rs struct Clients derive=Debug,Clone,Default
//@item iroh-relay/src/server/clients.rs struct Inner derive=Debug,Default
//@item iroh-relay/src/server/clients.rs struct ClientState derive=Debug
// the receiving ends of every connection's queues and its disconnect guard (held by the connection actor in the real server)
pub struct ConnEnd { pub packets: mpsc::Receiver<Packet>, pub messages: mpsc::Receiver<RelayToClientMsg>, pub guard: Option<OnDisconnectGuard>, pub done: CancellationToken }
pub static ENDS: ::std::sync::Mutex<Vec<(ConnectionId, ConnEnd)>> = ::std::sync::Mutex::new(Vec::new());
pub mod watch { #[derive(Debug)] pub struct Receiver<T>(pub T); }
impl Client {
    // shim: Client::new without the connection actor — it creates the two queues with the configured capacity exactly like the
    // real constructor and parks their receiving ends (and the guard the actor would own) with the harness
    pub fn new<S>(config: Config<S>, clients: &Clients, metrics: Arc<Metrics>) -> Client {
        let Config { guard, stream, write_timeout, channel_capacity, protocol_version, rate_limited } = config;
        let (endpoint_id, connection_id) = (guard.endpoint_id, guard.connection_id);
        let (packet_queue, pr) = mpsc::channel(channel_capacity);
        let (message_queue, mr) = mpsc::channel(channel_capacity);
        let done = CancellationToken::new();
        ENDS.lock().unwrap().push((connection_id, ConnEnd { packets: pr, messages: mr, guard: Some(guard), done: done.clone() }));
        Client { endpoint_id, connection_id, done, handle: AbortOnDropHandle(std::marker::PhantomData), packet_queue, message_queue, protocol_version }
    }
//@fn iroh-relay/src/server/client.rs Client::connection_id
//@end
//@fn iroh-relay/src/server/client.rs Client::start_shutdown
//@end
//@fn iroh-relay/src/server/client.rs Client::try_send_packet
//@end
//@fn iroh-relay/src/server/client.rs Client::try_send_peer_gone
//@end
//@fn iroh-relay/src/server/client.rs Client::try_send_health
//@end
}
impl Clients {
//@fn iroh-relay/src/server/clients.rs Clients::register
//@end
//@fn iroh-relay/src/server/clients.rs Clients::unregister
//@end
//@fn iroh-relay/src/server/clients.rs Clients::disconnect
//@end
//@fn iroh-relay/src/server/clients.rs Clients::send_packet
//@end
}
// @extra-items-here (helpers a change newly calls are spliced in above this line)
//@include shims/harness.rs

static CAP_V: std::sync::atomic::AtomicUsize = std::sync::atomic::AtomicUsize::new(2);
#[allow(non_snake_case)] fn CAP() -> usize { CAP_V.load(std::sync::atomic::Ordering::SeqCst) }
#[derive(Debug, Clone, Copy, PartialEq, Eq, Hash)]
enum Op { Connect(u8, u64), Close(u64), Send(u8, u8), SendN(u8, u8, u8), Drain(u64), DisconnectConn(u8, u64), DisconnectAll(u8),
          // the two halves of Close: the connection's actor ends (its queues close), then it unregisters
          EndActor(u64), Unregister(u64) }
// ---- the reference registry: what the property says, per endpoint id the open connections in the order they connected
#[derive(Debug, Clone, Default, PartialEq)]
struct Model {
    open: HashMap<u8, Vec<u64>>,                 // endpoint -> open connections, oldest first; the active one is the last that connected
    active: HashMap<u8, u64>,
    sent_to: HashMap<u8, HashSet<u8>>,
    packets: HashMap<u64, Vec<(u8, u8)>>,        // connection -> queued packets (src, payload)
    messages: HashMap<u64, Vec<String>>,         // connection -> queued control messages
    shutdown_requested: HashSet<u64>,
    owner: HashMap<u64, u8>,
    ended: HashSet<u64>,                         // connections whose actor has ended but which have not unregistered yet
}
impl Model {
    fn room(&self, c: u64) -> bool { self.packets.get(&c).map_or(0, |v| v.len()) < CAP() }
    fn mroom(&self, c: u64) -> bool { self.messages.get(&c).map_or(0, |v| v.len()) < CAP() }
    fn msg(&mut self, c: u64, m: &str) { if !self.ended.contains(&c) && self.mroom(c) { self.messages.entry(c).or_default().push(m.to_string()); } }
    /// returns what the operation returns to its caller, where it returns something
    fn apply(&mut self, op: Op) -> Option<String> {
        match op {
            Op::Connect(e, c) => {
                self.owner.insert(c, e);
                if let Some(old) = self.active.insert(e, c) { self.msg(old, "Status(SameEndpointIdConnected)"); }   // a displaced connection is told another took over
                self.open.entry(e).or_default().push(c);
                None
            }
            Op::Close(c) => { self.apply(Op::EndActor(c)); self.apply(Op::Unregister(c)) }
            Op::EndActor(c) => { if self.owner.contains_key(&c) { self.ended.insert(c); self.packets.remove(&c); self.messages.remove(&c); } None }
            Op::Unregister(c) => {
                self.ended.remove(&c);
                let Some(&e) = self.owner.get(&c) else { return None };
                let Some(list) = self.open.get_mut(&e) else { return None };
                if !list.contains(&c) { return None; }       // a stale unregister changes nothing
                list.retain(|x| *x != c);
                if self.active.get(&e) == Some(&c) {
                    match list.last().copied() {
                        Some(next) => { self.active.insert(e, next); self.msg(next, "Status(Healthy)"); }    // the most recent remaining one resumes and is told it is healthy
                        None => {
                            // the endpoint's last connection is gone: only now peers it had sent to are told (when their queue has room)
                            self.active.remove(&e); self.open.remove(&e);
                            if let Some(peers) = self.sent_to.remove(&e) { let mut ps: Vec<u8> = peers.into_iter().collect(); ps.sort(); for p in ps { if let Some(&a) = self.active.get(&p) { self.msg(a, &format!("EndpointGone(e{e})")); } } }
                        }
                    }
                }
                None
            }
            Op::Send(src, dst) => self.apply(Op::SendN(src, dst, 7)),
            Op::SendN(src, dst, payload) => {
                match self.active.get(&dst).copied() {
                    None => Some("Ok".into()),
                    // a connection whose actor has ended cannot be written to any more: the sender learns it, the connection is asked to shut down
                    Some(a) if self.ended.contains(&a) => { self.shutdown_requested.insert(a); Some("Err(Closed)".into()) }
                    Some(a) => if self.room(a) { self.packets.entry(a).or_default().push((src, payload)); self.sent_to.entry(src).or_default().insert(dst); Some("Ok".into()) } else { Some("Err(Full)".into()) },
                }
            }
            Op::Drain(c) => { self.packets.remove(&c); self.messages.remove(&c); None }
            Op::DisconnectConn(e, c) => { let hit = self.open.get(&e).is_some_and(|l| l.contains(&c)); if hit { self.shutdown_requested.insert(c); } Some(hit.to_string()) }
            Op::DisconnectAll(e) => { let l = self.open.get(&e).cloned().unwrap_or_default(); for c in &l { self.shutdown_requested.insert(*c); } Some((!l.is_empty()).to_string()) }
        }
    }
}
struct Sys { clients: Clients, metrics: Arc<Metrics> }
impl Sys {
    fn new() -> Sys { ENDS.lock().unwrap().clear(); Sys { clients: Clients::default(), metrics: Arc::new(Metrics::default()) } }
    fn apply(&self, op: Op) -> Option<String> {
        match op {
            Op::Connect(e, c) => {
                let cfg = Config { guard: OnDisconnectGuard { endpoint_id: EndpointId(e), connection_id: ConnectionId(c) }, stream: RelayedStream(()), write_timeout: Duration::from_secs(1), channel_capacity: CAP(), protocol_version: ProtocolVersion::V2, rate_limited: None };
                self.clients.register(cfg, self.metrics.clone()); None
            }
            Op::Close(c) => { self.apply(Op::EndActor(c)); self.apply(Op::Unregister(c)) }
            // the connection's actor ends: its queues close (and whatever was queued is gone) ...
            Op::EndActor(c) => { let ends = ENDS.lock().unwrap(); if let Some((_, e)) = ends.iter().find(|(id, _)| id.0 == c) { e.packets.close(); e.messages.close(); e.packets.drain(); e.messages.drain(); } None }
            // ... and it hands its guard to unregister (once)
            Op::Unregister(c) => {
                let g = { let mut ends = ENDS.lock().unwrap(); ends.iter_mut().find(|(id, _)| id.0 == c).and_then(|(_, e)| e.guard.take()) };
                if let Some(g) = g { self.clients.unregister(g, &self.metrics); }
                None
            }
            Op::Send(src, dst) => self.apply(Op::SendN(src, dst, 7)),
            Op::SendN(src, dst, payload) => Some(match self.clients.send_packet(EndpointId(dst), Datagrams(payload), EndpointId(src), &self.metrics) { Ok(()) => "Ok".into(), Err(e) => format!("Err({:?})", e.reason) }),
            Op::Drain(c) => { let ends = ENDS.lock().unwrap(); if let Some((_, e)) = ends.iter().find(|(id, _)| id.0 == c) { e.packets.drain(); e.messages.drain(); } None }
            Op::DisconnectConn(e, c) => Some(self.clients.disconnect(EndpointId(e), Some(ConnectionId(c))).to_string()),
            Op::DisconnectAll(e) => Some(self.clients.disconnect(EndpointId(e), None).to_string()),
        }
    }
    /// everything observable: registry structure, queue contents, shutdown requests
    fn observe(&self) -> Model {
        let mut m = Model::default();
        let ends = ENDS.lock().unwrap();
        for (id, e) in ends.iter() {
            let (p, q) = (e.packets.c.lock().unwrap(), e.messages.c.lock().unwrap());
            if !p.q.is_empty() { m.packets.insert(id.0, p.q.iter().map(|x| (x.src.0, x.data.0)).collect()); }
            if !q.q.is_empty() { m.messages.insert(id.0, q.q.iter().map(|x| match x { RelayToClientMsg::EndpointGone(e) => format!("EndpointGone(e{})", e.0), RelayToClientMsg::Status(s) => format!("Status({s:?})"), RelayToClientMsg::Health { problem } => format!("Health({problem})") }).collect()); }
            if e.done.is_cancelled() { m.shutdown_requested.insert(id.0); }
        }
        let g = self.clients.0.clients.m.read().unwrap();
        for (k, st) in g.iter() {
            m.active.insert(k.0, st.active.connection_id().0);
            let mut l: Vec<u64> = st.inactive.iter().map(|c| c.connection_id().0).collect(); l.push(st.active.connection_id().0);
            m.open.insert(k.0, l);
        }
        drop(g);
        for (k, v) in self.clients.0.sent_to.m.read().unwrap().iter() { m.sent_to.insert(k.0, v.iter().map(|x| x.0).collect()); }
        m
    }
}
fn strip(mut m: Model) -> Model { m.owner.clear(); m.ended.clear(); m.sent_to.retain(|_, v| !v.is_empty()); m }
fn diff(want: &Model, got: &Model) -> Option<(&'static str, String)> {
    if want.active != got.active { return Some(("traffic-goes-to-the-most-recent-open-connection", format!("active connection per endpoint is {:?}, the most recently connected open ones are {:?}", got.active, want.active))); }
    if want.open != got.open { return Some(("entry-holds-exactly-the-open-connections", format!("registry holds {:?} (oldest first, active last), the open connections are {:?}", got.open, want.open))); }
    if want.messages != got.messages { return Some(("connections-are-told-what-happened", format!("queued control messages per connection are {:?}, expected {:?}", got.messages, want.messages))); }
    if want.packets != got.packets { return Some(("traffic-goes-to-the-most-recent-open-connection", format!("queued packets per connection are {:?}, expected {:?}", got.packets, want.packets))); }
    if want.shutdown_requested != got.shutdown_requested { return Some(("disconnect-reaches-the-named-connections", format!("connections asked to shut down: {:?}, expected {:?}", got.shutdown_requested, want.shutdown_requested))); }
    if want.sent_to != got.sent_to { return Some(("sent-to-recorded-on-successful-enqueue", format!("sent_to is {:?}, expected {:?}", got.sent_to, want.sent_to))); }
    None
}

fn main() {
    std::panic::set_hook(Box::new(|_| {}));
    let args: Vec<String> = std::env::args().collect();
    let max_len: usize = args.get(1).and_then(|s| s.parse().ok()).unwrap_or(4);
    let conc: usize = args.get(2).and_then(|s| s.parse().ok()).unwrap_or(1);
    let mut rep = Rep::new(args.get(3).cloned());
    // ---- (a) sequential histories: endpoint 1 with up to three connections (1, 2, 3), peers 8 and 9 with one connection each
    let alphabet: Vec<Op> = vec![Op::Connect(1, 1), Op::Connect(1, 2), Op::Connect(1, 3), Op::Close(1), Op::Close(2), Op::Close(3), Op::Connect(8, 80), Op::Close(80), Op::Connect(9, 90),
                                 Op::Send(1, 8), Op::Send(1, 9), Op::Send(8, 1), Op::Drain(80), Op::DisconnectConn(1, 1), Op::DisconnectConn(1, 3), Op::DisconnectAll(1)];
    // focused passes, two steps deeper: four connections of ONE endpoint connecting and closing in every order; and one sender
    // (two successive connections) against a registered peer — packets, closes, reconnects, draining the peer's queue
    let focused: Vec<Op> = vec![Op::Connect(1, 1), Op::Connect(1, 2), Op::Connect(1, 3), Op::Connect(1, 4), Op::Close(1), Op::Close(2), Op::Close(3), Op::Close(4)];
    let sender: Vec<Op> = vec![Op::Connect(1, 1), Op::Connect(1, 2), Op::Close(1), Op::Close(2), Op::Send(1, 8), Op::Drain(80)];
    let seq_len = if conc >= 2 { 0 } else { max_len };   // phases (c) and (d) are run on their own
    let deeper = if seq_len == 0 { 0 } else { seq_len + 2 };
    for (setup, alphabet, depth) in [(vec![], alphabet, seq_len), (vec![], focused, deeper), (vec![Op::Connect(8, 80)], sender, deeper)] {
    let max_len = depth;
    let n = alphabet.len();
    let mut idx: Vec<usize> = vec![0];
    loop {
        if max_len == 0 { break; }
        let seq: Vec<Op> = idx.iter().map(|i| alphabet[*i]).collect();
        // a connection id connects at most once (ids are unique per process)
        let mut seen: HashSet<u64> = setup.iter().filter_map(|o| match o { Op::Connect(_, c) => Some(*c), _ => None }).collect();
        let valid = seq.iter().all(|o| match o { Op::Connect(_, c) => seen.insert(*c), _ => true });
        let input = if setup.is_empty() { format!("history={:?}", seq) } else { format!("after={:?} history={:?}", setup, seq) };
        if valid && !rep.skip(&input) {
            rep.evaluations += 1; if seq.iter().filter(|o| matches!(o, Op::Connect(1, _))).count() >= 2 { rep.nontrivial += 1; }
            if seq.len() == 4 && idx[0] == 0 && idx[1] == 1 && idx[2] == 3 { rep.sample(&input); }
            let (seq2, setup2) = (seq.clone(), setup.clone());
            let out = std::panic::catch_unwind(move || {
                let (sys, mut model) = (Sys::new(), Model::default());
                for op in &setup2 { sys.apply(*op); model.apply(*op); }
                for (k, op) in seq2.iter().enumerate() {
                    let (r, w) = (sys.apply(*op), model.apply(*op));
                    if r != w { return Some(("operations-return-what-the-registry-state-implies", format!("step {} {:?} returned {:?}, expected {:?}", k + 1, op, r, w))); }
                    if let Some((ob, d)) = diff(&strip(model.clone()), &strip(sys.observe())) { return Some((ob, format!("after step {} {:?}: {}", k + 1, op, d))); }
                }
                None
            });
            match out { Err(_) => rep.fail("never-panics", "sequential", &input, "the registry panicked".into()), Ok(Some((ob, d))) => rep.fail(ob, "sequential", &input, d), Ok(None) => {} }
        }
        let mut k = idx.len();
        loop {
            if k == 0 { idx = vec![0; idx.len() + 1]; break; }
            k -= 1;
            if idx[k] + 1 < n { idx[k] += 1; for j in k + 1..idx.len() { idx[j] = 0; } break; }
        }
        if idx.len() > max_len { break; }
    }
    }
    // ---- (b) two threads under the controlled scheduler: every schedule must end in a state some sequential order of the
    //      operations (respecting each thread's own order) leads to, with the same return values
    if conc == 1 {
        let setups: Vec<Vec<Op>> = vec![vec![Op::Connect(1, 1), Op::Connect(8, 80)], vec![Op::Connect(1, 1), Op::Connect(1, 2), Op::Connect(8, 80), Op::Send(1, 8)]];
        let pairs: Vec<(Vec<Op>, Vec<Op>)> = vec![
            (vec![Op::Connect(1, 3)], vec![Op::Close(1)]), (vec![Op::Connect(1, 3)], vec![Op::Send(8, 1)]), (vec![Op::Close(1)], vec![Op::Send(8, 1)]),
            (vec![Op::Close(1)], vec![Op::Send(1, 8)]), (vec![Op::Close(1)], vec![Op::DisconnectAll(1)]), (vec![Op::Connect(1, 3), Op::Close(3)], vec![Op::Close(1)]),
            (vec![Op::Close(1)], vec![Op::Close(80)]), (vec![Op::Connect(1, 3)], vec![Op::DisconnectConn(1, 3)]),
        ];
        let halves = |v: &Vec<Op>| -> Vec<Op> { v.iter().flat_map(|o| match o { Op::Close(c) => vec![Op::EndActor(*c), Op::Unregister(*c)], o => vec![*o] }).collect() };
        for setup in &setups { for (a0, b0) in &pairs {
            let (a, b) = (&halves(a0), &halves(b0));
            let base = format!("setup={:?} threads=[{:?}, {:?}]", setup, a0, b0);
            let mut prefix: Vec<usize> = vec![];
            if let Some(o) = &rep.only { if !o.starts_with(&format!("{base} ")) { continue; } if let Some(p) = o.split("choices=").nth(1) { prefix = p.trim_matches(|c| c == '[' || c == ']').split(',').filter_map(|x| x.trim().parse().ok()).collect(); } }
            // the sequential outcomes (all interleavings at operation granularity)
            let mut outcomes: Vec<(Model, Vec<Option<String>>, Vec<Option<String>>)> = vec![];
            let total = a.len() + b.len();
            for mask in 0u32..(1 << total) {
                if mask.count_ones() as usize != a.len() { continue; }
                let mut m = Model::default(); for op in setup { m.apply(*op); }
                let (mut ia, mut ib, mut ra, mut rb) = (0, 0, vec![], vec![]);
                for k in 0..total { if mask & (1 << k) != 0 { ra.push(m.apply(a[ia])); ia += 1; } else { rb.push(m.apply(b[ib])); ib += 1; } }
                outcomes.push((strip(m), ra, rb));
            }
            loop {
                let sys = Arc::new(Sys::new());
                for op in setup { sys.apply(*op); }
                let rets: Arc<::std::sync::Mutex<(Vec<Option<String>>, Vec<Option<String>>)>> = Default::default();
                let mut progs: Vec<Box<dyn FnOnce() + Send>> = vec![];
                for (t, ops) in [a.clone(), b.clone()].into_iter().enumerate() {
                    let (sys2, rets2) = (sys.clone(), rets.clone());
                    progs.push(Box::new(move || { for op in ops { let r = sys2.apply(op); let mut g = rets2.lock().unwrap(); if t == 0 { g.0.push(r) } else { g.1.push(r) } } }));
                }
                let out = sched::run(progs, &prefix);
                let choices: Vec<usize> = out.trace.iter().map(|x| x.1).collect();
                let input = format!("{base} choices={:?}", choices);
                rep.evaluations += 1; rep.nontrivial += 1;
                if out.deadlock { rep.fail("never-deadlocks", "concurrent", &input, format!("no thread can proceed; threads ran in the order {:?}", out.order)); }
                else if !out.panicked.is_empty() { rep.fail("never-panics", "concurrent", &input, format!("thread(s) {:?} panicked", out.panicked)); }
                else {
                    let got = strip(sys.observe());
                    let (ra, rb) = rets.lock().unwrap().clone();
                    if !outcomes.iter().any(|(m, xa, xb)| *m == got && *xa == ra && *xb == rb) {
                        let nearest = outcomes.iter().map(|(m, _, _)| diff(m, &got)).find(|d| d.is_some()).flatten();
                        rep.fail("concurrent-operations-are-linearizable", "concurrent", &input, format!("the final state {:?} with return values {:?} / {:?} is not what any sequential order of the operations gives (e.g. {:?}); threads ran in the order {:?}", got, ra, rb, nearest, out.order));
                    }
                }
                if rep.only.is_some() { break; }
                match sched::next_prefix(out.trace) { Some(p) => prefix = p, None => break }
            }
        } }
    }
    // ---- (c0) C08, registered connections: connections 5, 6, 7 of endpoint 1 registered in every order (connection ids are handed
    //      out at admission, registration order may differ), then one disconnect request by connection id or for the endpoint
    if conc == 2 {
        let ids = [5u64, 6, 7];
        let mut orders: Vec<Vec<u64>> = vec![];
        for a in ids { orders.push(vec![a]); for b in ids { if b != a { orders.push(vec![a, b]); for c in ids { if c != a && c != b { orders.push(vec![a, b, c]); } } } } }
        for order in &orders { for target in [Some(5u64), Some(6), Some(7), None] {
            let input = format!("registered-in-order={:?} request={}", order, target.map_or("whole endpoint".to_string(), |t| format!("connection {t}")));
            if rep.skip(&input) { continue; }
            rep.evaluations += 1; if order.len() >= 2 { rep.nontrivial += 1; }
            let (order2, target2) = (order.clone(), target);
            let out = std::panic::catch_unwind(move || {
                let sys = Sys::new();
                sys.apply(Op::Connect(8, 80));
                for c in &order2 { sys.apply(Op::Connect(1, *c)); }
                let r = sys.apply(match target2 { Some(t) => Op::DisconnectConn(1, t), None => Op::DisconnectAll(1) });
                (r, sys.observe().shutdown_requested)
            });
            match out {
                Err(_) => rep.fail("never-panics", "sequential", &input, "disconnect panicked".into()),
                Ok((r, asked)) => {
                    let want: HashSet<u64> = match target { Some(t) => if order.contains(&t) { [t].into_iter().collect() } else { HashSet::new() }, None => order.iter().copied().collect() };
                    if asked != want { rep.fail("disconnect-of-an-admitted-connection-takes-effect", "registered", &input, format!("connections asked to shut down: {:?}, the request names {:?} (disconnect returned {:?})", asked, want, r)); }
                    if r != Some((!want.is_empty()).to_string()) { rep.fail("disconnect-reports-whether-it-found-the-connection", "registered", &input, format!("disconnect returned {:?} although it names {} registered connection(s)", r, want.len())); }
                    if asked.contains(&80) { rep.fail("other-connections-unaffected", "other-endpoint", &input, "the peer's connection was asked to shut down".into()); }
                }
            }
        } }
    }
    // ---- (c) C08: the embedder asks to disconnect a connection it admitted, while the connection is still on its way from
    //      admission (access control said Allow, the disconnect guard exists) to registration
    if conc == 2 {
        #[derive(Debug, Clone, Copy, PartialEq)] enum Req { Conn, Endpoint }
        for with_older in [false, true] { for req in [Req::Conn, Req::Endpoint] {
            let base = format!("older-connection-registered={with_older} request={req:?}");
            let mut prefix: Vec<usize> = vec![];
            if let Some(o) = &rep.only { if !o.starts_with(&format!("{base} ")) { continue; } if let Some(p) = o.split("choices=").nth(1) { prefix = p.trim_matches(|c| c == '[' || c == ']').split(',').filter_map(|x| x.trim().parse().ok()).collect(); } }
            loop {
                let sys = Arc::new(Sys::new());
                sys.apply(Op::Connect(8, 80));
                if with_older { sys.apply(Op::Connect(1, 1)); }
                let admitted = Arc::new(std::sync::atomic::AtomicBool::new(false));
                let requested_after_admission: Arc<::std::sync::Mutex<Option<(bool, Option<String>)>>> = Default::default();
                let (sys1, adm1) = (sys.clone(), admitted.clone());
                let (sys2, adm2, rq2) = (sys.clone(), admitted.clone(), requested_after_admission.clone());
                let progs: Vec<Box<dyn FnOnce() + Send>> = vec![
                    // the accept task: admission (the access policy allowed connection 5 of endpoint 1 and was told its id), the rest of the setup, registration
                    Box::new(move || { sched::yield_point(false); adm1.store(true, std::sync::atomic::Ordering::SeqCst); sched::yield_point(false); sys1.apply(Op::Connect(1, 5)); }),
                    // the embedder: asks to disconnect what it admitted
                    Box::new(move || { sched::yield_point(false); let was = adm2.load(std::sync::atomic::Ordering::SeqCst);
                                       let r = sys2.apply(match req { Req::Conn => Op::DisconnectConn(1, 5), Req::Endpoint => Op::DisconnectAll(1) }); *rq2.lock().unwrap() = Some((was, r)); }),
                ];
                let out = sched::run(progs, &prefix);
                let choices: Vec<usize> = out.trace.iter().map(|x| x.1).collect();
                let input = format!("{base} choices={:?}", choices);
                rep.evaluations += 1; rep.nontrivial += 1;
                if rep.evaluations % 5 == 1 { rep.sample(&input); }
                if out.deadlock { rep.fail("never-deadlocks", "concurrent", &input, "no thread can proceed".into()); }
                else if !out.panicked.is_empty() { rep.fail("never-panics", "concurrent", &input, format!("thread(s) {:?} panicked", out.panicked)); }
                else {
                    let got = sys.observe();
                    let (was_admitted, ret) = requested_after_admission.lock().unwrap().clone().unwrap();
                    let served = got.open.get(&1).is_some_and(|l| l.contains(&5)) && !got.shutdown_requested.contains(&5);
                    if was_admitted && served {
                        rep.fail("disconnect-of-an-admitted-connection-takes-effect", match req { Req::Conn => "by-connection-id", Req::Endpoint => "by-endpoint-id" }, &input,
                                 format!("connection 5 of endpoint 1 had been admitted when the embedder asked to disconnect it (the request returned {:?}); it was registered afterwards and is being served: registry {:?}, shutdown requested for {:?}; threads ran in the order {:?}", ret, got.open, got.shutdown_requested, out.order));
                    }
                    // other endpoints are unaffected; with a request by connection id also the endpoint's other connection
                    if got.shutdown_requested.contains(&80) || !got.open.get(&8).is_some_and(|l| l == &vec![80]) { rep.fail("other-connections-unaffected", "other-endpoint", &input, format!("the peer's connection was touched: registry {:?}, shutdown requested for {:?}", got.open, got.shutdown_requested)); }
                    if with_older && req == Req::Conn && got.shutdown_requested.contains(&1) { rep.fail("other-connections-unaffected", "same-endpoint", &input, "the endpoint's older connection was asked to shut down although only connection 5 was named".into()); }
                }
                if rep.only.is_some() { break; }
                match sched::next_prefix(out.trace) { Some(p) => prefix = p, None => break }
            }
        } }
    }
    // ---- (d) C05: whatever a client sends (to a full queue, to a connection whose actor has ended, to nobody), the relay never asks a
    //      DIFFERENT client's live connection to shut down and never drops it from the registry; what was queued for it stays queued
    if conc == 3 {
        let alphabet: Vec<Op> = vec![Op::Connect(1, 1), Op::Connect(8, 80), Op::Connect(9, 90), Op::Send(1, 8), Op::Send(9, 8), Op::Send(8, 1), Op::Send(1, 7), Op::Drain(80), Op::EndActor(80), Op::Unregister(80)];
        let n = alphabet.len();
        let depth = max_len.max(1) + 2;
        let mut idx: Vec<usize> = vec![0];
        loop {
            let seq: Vec<Op> = idx.iter().map(|i| alphabet[*i]).collect();
            let mut seen = HashSet::new();
            let valid = seq.iter().all(|o| match o { Op::Connect(_, c) => seen.insert(*c), _ => true });
            let input = format!("history={:?}", seq);
            if valid && !rep.skip(&input) {
                rep.evaluations += 1; if seq.iter().filter(|o| matches!(o, Op::Send(..))).count() >= 3 { rep.nontrivial += 1; }
                if seq.len() == 5 && rep.evaluations % 5003 == 1 { rep.sample(&input); }
                let seq2 = seq.clone();
                let out = std::panic::catch_unwind(move || {
                    let (sys, mut model) = (Sys::new(), Model::default());
                    for (k, op) in seq2.iter().enumerate() {
                        let before = sys.observe();
                        let (r, w) = (sys.apply(*op), model.apply(*op));
                        let after = sys.observe();
                        if let Op::Send(src, dst) = op {
                            // connections of endpoints other than the sender that were alive (actor running) before the send
                            for (e, conns) in before.open.iter() { if e == src { continue; } for c in conns {
                                let alive = !model.ended.contains(c);
                                if alive && after.shutdown_requested.contains(c) && !before.shutdown_requested.contains(c) { return Some(("a-failed-forward-never-ends-the-receivers-connection", format!("step {} {:?} (returned {:?}): connection {c} of endpoint {e}, whose actor is running, was asked to shut down", k + 1, op, r))); }
                                if alive && !after.open.get(e).is_some_and(|l| l.contains(c)) { return Some(("a-failed-forward-never-ends-the-receivers-connection", format!("step {} {:?}: connection {c} of endpoint {e} left the registry", k + 1, op))); }
                                let (qb, qa) = (before.packets.get(c).cloned().unwrap_or_default(), after.packets.get(c).cloned().unwrap_or_default());
                                if alive && !qa.starts_with(&qb) { return Some(("queued-packets-stay-queued", format!("step {} {:?}: the queue of connection {c} went from {:?} to {:?}", k + 1, op, qb, qa))); }
                            } }
                            // the outcome is one of: forwarded, dropped because nobody is there, refused because the queue is full / closed
                            if r != w { return Some(("frames-that-cannot-be-forwarded-are-dropped", format!("step {} {:?} returned {:?}, expected {:?}", k + 1, op, r, w))); }
                        }
                    }
                    None
                });
                match out { Err(_) => rep.fail("never-panics", "sequential", &input, "forwarding panicked".into()), Ok(Some((ob, d))) => rep.fail(ob, "sequential", &input, d), Ok(None) => {} }
            }
            let mut k = idx.len();
            loop { if k == 0 { idx = vec![0; idx.len() + 1]; break; } k -= 1; if idx[k] + 1 < n { idx[k] += 1; for j in k + 1..idx.len() { idx[j] = 0; } break; } }
            if idx.len() > depth { break; }
        }
    }
    // ---- (e) C04: every packet that shows up in a connection's queue was sent to that connection's endpoint while it was the endpoint's
    //      active connection, carries its sender's id and its contents, shows up once, and behind what was queued before
    if conc == 4 {
        let base_ops: Vec<Op> = vec![Op::Connect(1, 1), Op::Connect(1, 2), Op::Close(2), Op::Connect(8, 80), Op::Connect(9, 90), Op::Drain(1), Op::Drain(2), Op::EndActor(1)];
        let sends: Vec<(u8, u8)> = vec![(8, 1), (9, 1), (1, 8), (8, 9)];
        let n = base_ops.len() + sends.len();
        let depth = max_len.max(1);
        CAP_V.store(3, std::sync::atomic::Ordering::SeqCst);
        let mut idx: Vec<usize> = vec![0];
        loop {
            // the k-th step's packet carries payload k+1: every packet of a history is distinguishable
            let seq: Vec<Op> = idx.iter().enumerate().map(|(k, i)| if *i < base_ops.len() { base_ops[*i] } else { let (s, d) = sends[*i - base_ops.len()]; Op::SendN(s, d, k as u8 + 1) }).collect();
            let mut seen = HashSet::new();
            let valid = seq.iter().all(|o| match o { Op::Connect(_, c) => seen.insert(*c), _ => true });
            let input = format!("history={:?}", seq);
            if valid && !rep.skip(&input) {
                rep.evaluations += 1; if seq.iter().filter(|o| matches!(o, Op::SendN(..))).count() >= 2 { rep.nontrivial += 1; }
                if seq.len() == 4 && rep.evaluations % 2003 == 1 { rep.sample(&input); }
                let seq2 = seq.clone();
                let out = std::panic::catch_unwind(move || {
                    let (sys, mut model) = (Sys::new(), Model::default());
                    for (k, op) in seq2.iter().enumerate() {
                        let before = sys.observe();
                        // the destination's active connection when the relay accepts the packet: the most recently connected open one
                        let target = if let Op::SendN(_, d, _) = op { model.active.get(d).copied().filter(|a| !model.ended.contains(a)) } else { None };
                        let r = sys.apply(*op); model.apply(*op);
                        let after = sys.observe();
                        let mut conns: Vec<u64> = before.packets.keys().chain(after.packets.keys()).copied().collect(); conns.sort(); conns.dedup();
                        for c in conns {
                            if matches!(op, Op::Drain(x) | Op::EndActor(x) | Op::Close(x) if *x == c) { continue; }
                            let (qb, qa) = (before.packets.get(&c).cloned().unwrap_or_default(), after.packets.get(&c).cloned().unwrap_or_default());
                            if !qa.starts_with(&qb) { return Some(("queued-packets-keep-their-order", format!("step {} {:?}: the queue of connection {c} went from {:?} to {:?} (src, payload)", k + 1, op, qb, qa))); }
                            let extra = &qa[qb.len()..];
                            if extra.is_empty() { continue; }
                            match op {
                                Op::SendN(s, d, p) => {
                                    if Some(c) != target { return Some(("delivered-only-on-the-addressed-endpoints-active-connection", format!("step {} {:?} (returned {:?}): packet(s) {:?} appeared on connection {c}; the active connection of endpoint {d} is {:?}", k + 1, op, r, extra, target))); }
                                    if extra.len() > 1 { return Some(("delivered-at-most-once", format!("step {} {:?}: {} packets {:?} appeared on connection {c}", k + 1, op, extra.len(), extra))); }
                                    if extra[0] != (*s, *p) { return Some(("delivered-with-the-true-sender-and-unchanged-contents", format!("step {} {:?}: connection {c} received (src, payload) = {:?}, sent was {:?}", k + 1, op, extra[0], (s, p)))); }
                                }
                                _ => return Some(("delivered-only-what-was-sent", format!("step {} {:?}: packet(s) {:?} appeared on connection {c} although nothing was sent", k + 1, op, extra))),
                            }
                        }
                    }
                    None
                });
                match out { Err(_) => rep.fail("never-panics", "sequential", &input, "forwarding panicked".into()), Ok(Some((ob, d))) => rep.fail(ob, "sequential", &input, d), Ok(None) => {} }
            }
            let mut k = idx.len();
            loop { if k == 0 { idx = vec![0; idx.len() + 1]; break; } k -= 1; if idx[k] + 1 < n { idx[k] += 1; for j in k + 1..idx.len() { idx[j] = 0; } break; } }
            if idx.len() > depth { break; }
        }
        // two threads under the controlled scheduler: sender 8 sends packets 1, 2 to endpoint 1 while (i) sender 9 sends 3, 4 to it, (ii) a second
        // connection of endpoint 1 takes over, (iii) the active connection of endpoint 1 closes and an older one resumes
        CAP_V.store(4, std::sync::atomic::Ordering::SeqCst);
        let scen: Vec<(&str, Vec<Op>, Vec<Op>)> = vec![
            ("two-senders", vec![Op::Connect(1, 1), Op::Connect(8, 80), Op::Connect(9, 90)], vec![Op::SendN(9, 1, 3), Op::SendN(9, 1, 4)]),
            ("duplicate-takes-over", vec![Op::Connect(1, 1), Op::Connect(8, 80)], vec![Op::Connect(1, 2)]),
            ("active-closes", vec![Op::Connect(1, 1), Op::Connect(1, 2), Op::Connect(8, 80)], vec![Op::EndActor(2), Op::Unregister(2)]),
        ];
        for (name, setup, other) in &scen {
            let base = format!("scenario={name} setup={:?} threads=[[SendN(8, 1, 1), SendN(8, 1, 2)], {:?}]", setup, other);
            let mut prefix: Vec<usize> = vec![];
            if let Some(o) = &rep.only { if !o.starts_with(&format!("{base} ")) { continue; } if let Some(p) = o.split("choices=").nth(1) { prefix = p.trim_matches(|c| c == '[' || c == ']').split(',').filter_map(|x| x.trim().parse().ok()).collect(); } }
            loop {
                let sys = Arc::new(Sys::new());
                for op in setup { sys.apply(*op); }
                let rets: Arc<::std::sync::Mutex<Vec<(Op, Option<String>)>>> = Default::default();
                let mut progs: Vec<Box<dyn FnOnce() + Send>> = vec![];
                for ops in [vec![Op::SendN(8, 1, 1), Op::SendN(8, 1, 2)], other.clone()] {
                    let (sys2, rets2) = (sys.clone(), rets.clone());
                    progs.push(Box::new(move || { for op in ops { let r = sys2.apply(op); rets2.lock().unwrap().push((op, r)); } }));
                }
                let out = sched::run(progs, &prefix);
                let choices: Vec<usize> = out.trace.iter().map(|x| x.1).collect();
                let input = format!("{base} choices={:?}", choices);
                rep.evaluations += 1; rep.nontrivial += 1;
                if rep.evaluations % 7 == 1 { rep.sample(&input); }
                if out.deadlock { rep.fail("never-deadlocks", "concurrent", &input, "no thread can proceed".into()); }
                else if !out.panicked.is_empty() { rep.fail("never-panics", "concurrent", &input, format!("thread(s) {:?} panicked", out.panicked)); }
                else {
                    let got = sys.observe();
                    let sent: HashMap<u8, u8> = [(1u8, 8u8), (2, 8), (3, 9), (4, 9)].into_iter().filter(|(p, _)| *p <= 2 || *name == "two-senders").collect();
                    let mut seen_p: HashMap<u8, u64> = HashMap::new();
                    for (c, q) in got.packets.iter() {
                        let owner = got.open.iter().find(|(_, l)| l.contains(c)).map(|(e, _)| *e);
                        for (src, p) in q {
                            if owner != Some(1) && !(*name == "active-closes" && *c == 2) { rep.fail("delivered-only-on-the-addressed-endpoints-active-connection", "concurrent", &input, format!("packet (src {src}, payload {p}) addressed to endpoint 1 is queued on connection {c} of endpoint {:?}; threads ran in the order {:?}", owner, out.order)); }
                            match sent.get(p) { Some(s) if s == src => {}, other => rep.fail("delivered-with-the-true-sender-and-unchanged-contents", "concurrent", &input, format!("connection {c} holds (src {src}, payload {p}); that payload was sent by {:?}", other)) }
                            if let Some(first) = seen_p.insert(*p, *c) { rep.fail("delivered-at-most-once", "concurrent", &input, format!("payload {p} is queued on connection {first} and again on connection {c}")); }
                        }
                        for s in [8u8, 9] { let mine: Vec<u8> = q.iter().filter(|(x, _)| *x == s).map(|(_, p)| *p).collect(); if mine.windows(2).any(|w| w[0] >= w[1]) { rep.fail("queued-packets-keep-their-order", "concurrent", &input, format!("connection {c} holds the packets of sender {s} in the order {:?}; they were sent in ascending order; threads ran in the order {:?}", mine, out.order)); } }
                    }
                    // the second packet was accepted by a connection that became active no earlier than the one that took the first
                    if *name == "duplicate-takes-over" && let (Some(c1), Some(c2)) = (seen_p.get(&1), seen_p.get(&2)) && c1 > c2 { rep.fail("delivered-only-on-the-addressed-endpoints-active-connection", "concurrent", &input, format!("packet 1 went to the newer connection {c1}, the later packet 2 to the displaced connection {c2}")); }
                }
                if rep.only.is_some() { break; }
                match sched::next_prefix(out.trace) { Some(p) => prefix = p, None => break }
            }
        }
    }
    rep.finish();
}
