//@unit datagrams_split_bx props=C16
// C16 — bounded second line behind the Verus unit `datagrams_split` (NOT a proof): supplies concrete failing inputs and
// still decides when a change puts the function out of Verus' reach.
#![allow(dead_code, unused_imports, unused_variables, unused_macros)]
// tracing macros (shim: logging has no bearing on the property)
macro_rules! trace { ($($t:tt)*) => { () }; }
macro_rules! debug { ($($t:tt)*) => { () }; }
macro_rules! info { ($($t:tt)*) => { () }; }
macro_rules! warn { ($($t:tt)*) => { () }; }
macro_rules! error { ($($t:tt)*) => { () }; }
use std::num::NonZeroU16;
// shim: bytes::Bytes (the operations take_segments uses; split_to panics beyond the length like the real one)
#[derive(Debug, Clone, PartialEq, Eq, Default)]
pub struct Bytes(Vec<u8>);
impl Bytes {
    pub fn len(&self) -> usize { self.0.len() }
    pub fn is_empty(&self) -> bool { self.0.is_empty() }
    pub fn split_to(&mut self, at: usize) -> Bytes { assert!(at <= self.0.len(), "split_to out of bounds"); let rest = self.0.split_off(at); Bytes(std::mem::replace(&mut self.0, rest)) }
    pub fn split_off(&mut self, at: usize) -> Bytes { assert!(at <= self.0.len(), "split_off out of bounds"); Bytes(self.0.split_off(at)) }
    pub fn slice(&self, r: std::ops::Range<usize>) -> Bytes { Bytes(self.0[r].to_vec()) }
    pub fn truncate(&mut self, n: usize) { self.0.truncate(n) }
    pub fn clear(&mut self) { self.0.clear() }
    pub fn new() -> Bytes { Bytes(Vec::new()) }
}
impl AsRef<[u8]> for Bytes { fn as_ref(&self) -> &[u8] { &self.0 } }
impl std::ops::Deref for Bytes { type Target = [u8]; fn deref(&self) -> &[u8] { &self.0 } }
pub mod noq_proto { #[derive(Debug, Clone, Copy, PartialEq, Eq)] pub enum EcnCodepoint { Ect0 = 0b10, Ect1 = 0b01, Ce = 0b11 } }

//@item iroh-relay/src/protos/relay.rs struct Datagrams derive=Debug,Clone,PartialEq,Eq
impl Datagrams {
//@fn iroh-relay/src/protos/relay.rs Datagrams::take_segments
//@end
}
// @extra-items-here (helpers a change newly calls are spliced in above this line)

fn main() {
    let args: Vec<String> = std::env::args().collect();
    let max_len: usize = args.get(1).and_then(|s| s.parse().ok()).unwrap_or(24);
    let only: Option<String> = args.get(3).cloned();
    let mut evaluations = 0u64; let mut nontrivial = 0u64;
    let mut fc: std::collections::BTreeMap<&'static str, u64> = Default::default();
    let mut fails: Vec<(&'static str, String, String)> = Vec::new(); let mut samples: Vec<String> = Vec::new();
    let ns: Vec<usize> = vec![1, 2, 3, 5, usize::MAX];
    for len in 0..=max_len { for ss in [0usize, 1, 2, 3, 4, 7, 10] { for ecn in [None, Some(noq_proto::EcnCodepoint::Ce)] { for &n in &ns {
        // a well-formed batch: a segment size only when it holds more than one datagram
        if ss != 0 && len <= ss { continue; }
        let input = format!("len={len} segment_size={ss} ecn={:?} n={n}", ecn);
        if only.as_ref().map(|o| *o != input).unwrap_or(false) { continue; }
        evaluations += 1; if ss != 0 { nontrivial += 1; }
        if samples.len() < 4 && ss == 3 && len == 10 { samples.push(input.clone()); }
        let orig: Vec<u8> = (0..len).map(|i| i as u8).collect();
        let mut d = Datagrams { ecn, segment_size: NonZeroU16::new(ss as u16), contents: Bytes(orig.clone()) };
        let mut fail = |ob: &'static str, detail: String| { *fc.entry(ob).or_insert(0) += 1; if fails.iter().filter(|f| f.0 == ob).count() < 3 { fails.push((ob, input.clone(), detail)); } };
        let mut out: Vec<u8> = Vec::new(); let mut rounds = 0; let mut broke = false;
        loop {
            rounds += 1;
            if rounds > len + 2 { fail("terminates", format!("still {} bytes left after {} rounds", d.contents.len(), rounds)); break; }
            let before = d.contents.len();
            let seg = d.segment_size.map(|s| s.get() as usize);
            let t = d.take_segments(n);
            if t.ecn != ecn || d.ecn != ecn { fail("keeps-ecn", format!("round {rounds}: ecn {:?}/{:?}", t.ecn, d.ecn)); }
            let tl = t.contents.len();
            // at most n segments
            if let Some(s) = seg { if tl > n.saturating_mul(s) { fail("at-most-n-segments", format!("round {rounds}: took {tl} bytes with segment size {s}, n = {n}")); } }
            // a segment size exactly when more than one datagram
            match (t.segment_size, seg) {
                (Some(ts), Some(s)) => { if ts.get() as usize != s || tl <= s { fail("segment-size-iff-batch", format!("round {rounds}: taken batch of {tl} bytes carries segment size {}", ts.get())); } }
                (Some(ts), None) => fail("segment-size-iff-batch", format!("round {rounds}: segment size {} appeared from nowhere", ts.get())),
                (None, Some(s)) => { if tl > s { fail("segment-size-iff-batch", format!("round {rounds}: taken batch of {tl} bytes (> {s}) carries no segment size")); } }
                (None, None) => {}
            }
            if let Some(rs) = d.segment_size { if d.contents.len() <= rs.get() as usize { fail("segment-size-iff-batch", format!("round {rounds}: remainder of {} bytes keeps segment size {}", d.contents.len(), rs.get())); } }
            out.extend_from_slice(t.contents.as_ref());
            if tl + d.contents.len() != before { fail("nothing-lost-or-duplicated", format!("round {rounds}: {before} bytes became {tl} + {}", d.contents.len())); broke = true; break; }
            if before > 0 && tl == 0 { fail("terminates", format!("round {rounds}: nothing taken from {before} bytes")); break; }
            if d.contents.is_empty() { break; }
        }
        if out != orig && !broke { fail("nothing-lost-or-duplicated", format!("reassembled {:?}", out)); }
    } } } }
    let esc = |s: &str| s.replace('\\', "\\\\").replace('"', "\\\"");
    let mut o = format!("{{\"evaluations\": {evaluations}, \"nontrivial\": {nontrivial}, \"samples\": [{}], ", samples.iter().map(|s| format!("\"{}\"", esc(s))).collect::<Vec<_>>().join(", "));
    o += &format!("\"fail_counts\": [{}], ", fc.iter().map(|(k, n)| format!("{{\"obligation\": \"{k}\", \"class\": \"other\", \"count\": {n}}}")).collect::<Vec<_>>().join(", "));
    o += &format!("\"failures\": [{}]}}", fails.iter().map(|(k, i, d)| format!("{{\"obligation\": \"{k}\", \"class\": \"other\", \"input\": \"{}\", \"detail\": \"{}\"}}", esc(i), esc(d))).collect::<Vec<_>>().join(", "));
    println!("{o}");
}
