//@unit dns_jitter_bx props=C34
// C34 — bounded second line behind the Verus unit `dns_jitter` (NOT a proof): add_jitter on every delay of the bound with
// the random source driven through its extreme and middle values.
#![allow(dead_code, unused_imports, unused_variables, unused_macros)]
macro_rules! trace { ($($t:tt)*) => { () }; }
macro_rules! debug { ($($t:tt)*) => { () }; }
use std::cell::Cell;
use std::time::Duration;
thread_local! { static RND: Cell<u64> = Cell::new(0); }
// shim: rand::random::<u64>() returns the value the harness chose
pub mod rand { pub fn random<T: From<u64>>() -> T { T::from(super::RND.with(|r| r.get())) } }

//@item iroh-dns/src/dns.rs const MAX_JITTER_PERCENT
//@fn iroh-dns/src/dns.rs add_jitter
//@end
// @extra-items-here (helpers a change newly calls are spliced in above this line)

fn main() {
    let args: Vec<String> = std::env::args().collect();
    let max_delay: u64 = args.get(1).and_then(|s| s.parse().ok()).unwrap_or(3000);
    let only: Option<String> = args.get(3).cloned();
    let mut evaluations = 0u64; let mut nontrivial = 0u64;
    let mut fc: std::collections::BTreeMap<&'static str, u64> = Default::default();
    let mut fails: Vec<(&'static str, String, String)> = Vec::new(); let mut samples: Vec<String> = Vec::new();
    let mut delays: Vec<u64> = (0..=max_delay).collect();
    delays.extend([u64::MAX, u64::MAX - 1, u64::MAX / 2, u64::MAX / 40, u64::MAX / 40 + 1, 1 << 40]);
    for d in delays {
        for r in [0u64, 1, 2, 7, u64::MAX / 2, u64::MAX - 1, u64::MAX] {
            let input = format!("delay={d} random={r}");
            if only.as_ref().map(|o| *o != input).unwrap_or(false) { continue; }
            evaluations += 1; if d >= 3 { nontrivial += 1; }
            if samples.len() < 3 && d == 200 { samples.push(input.clone()); }
            RND.with(|x| x.set(r));
            let res = std::panic::catch_unwind(|| add_jitter(&d));
            let mut fail = |ob: &'static str, detail: String| { *fc.entry(ob).or_insert(0) += 1; if fails.iter().filter(|f| f.0 == ob).count() < 3 { fails.push((ob, input.clone(), detail)); } };
            match res {
                Err(_) => fail("never-panics", "add_jitter panicked".to_string()),
                Ok(j) => {
                    let ms = j.as_millis();
                    // within +-20% of the delay (integer rounding of the 40% window allowed: one unit each side)
                    let lo = (d as u128) * 80 / 100; let hi = ((d as u128) * 120).div_ceil(100).min(u64::MAX as u128);
                    if ms + 1 < lo || ms > hi + 1 { fail("within-20-percent", format!("jittered to {ms} ms, allowed [{lo}, {hi}]")); }
                    if d == 0 && ms != 0 { fail("within-20-percent", format!("zero delay jittered to {ms} ms")); }
                }
            }
        }
    }
    let esc = |s: &str| s.replace('\\', "\\\\").replace('"', "\\\"");
    let mut o = format!("{{\"evaluations\": {evaluations}, \"nontrivial\": {nontrivial}, \"samples\": [{}], ", samples.iter().map(|s| format!("\"{}\"", esc(s))).collect::<Vec<_>>().join(", "));
    o += &format!("\"fail_counts\": [{}], ", fc.iter().map(|(k, n)| format!("{{\"obligation\": \"{k}\", \"class\": \"other\", \"count\": {n}}}")).collect::<Vec<_>>().join(", "));
    o += &format!("\"failures\": [{}]}}", fails.iter().map(|(k, i, d)| format!("{{\"obligation\": \"{k}\", \"class\": \"other\", \"input\": \"{}\", \"detail\": \"{}\"}}", esc(i), esc(d))).collect::<Vec<_>>().join(", "));
    println!("{o}");
}
