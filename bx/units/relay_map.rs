//@unit relay_map_bx props=C43
// C43 — bounded stand-in (NOT a proof): RelayMap's methods are extracted verbatim and run, with std's own RwLock/Arc/BTreeMap,
// on every operation sequence up to the bound over two handles that may or may not share one map; each operation runs on a
// watchdog thread so that "blocks forever" is observed as a failure instead of hanging the check.
#![allow(dead_code, unused_imports, unused_variables, unused_macros)]
// tracing macros (shim: logging has no bearing on the property)
macro_rules! trace { ($($t:tt)*) => { () }; }
macro_rules! debug { ($($t:tt)*) => { () }; }
macro_rules! info { ($($t:tt)*) => { () }; }
macro_rules! warn { ($($t:tt)*) => { () }; }
macro_rules! error { ($($t:tt)*) => { () }; }
use std::{collections::BTreeMap, fmt, sync::{Arc, RwLock, mpsc}, time::Duration};
// shim: iroh_base::RelayUrl — an ordered, cloneable identifier
#[derive(Debug, Clone, PartialEq, Eq, PartialOrd, Ord, Hash)]
pub struct RelayUrl(pub u8);
pub struct RelayUrlParseError;
pub const DEFAULT_RELAY_QUIC_PORT: u16 = 7842;

//@item iroh-relay/src/relay_map.rs struct RelayMap derive=Debug,Clone
//@item iroh-relay/src/relay_map.rs struct RelayConfig derive=Debug,Clone,PartialEq,Eq,PartialOrd,Ord
//@item iroh-relay/src/relay_map.rs struct RelayQuicConfig derive=Debug,Clone,PartialEq,Eq,PartialOrd,Ord
impl RelayMap {
//@fn iroh-relay/src/relay_map.rs PartialEq@RelayMap::eq
//@end
//@fn iroh-relay/src/relay_map.rs RelayMap::empty
//@end
//@fn iroh-relay/src/relay_map.rs RelayMap::contains
//@end
//@fn iroh-relay/src/relay_map.rs RelayMap::get
//@end
//@fn iroh-relay/src/relay_map.rs RelayMap::len
//@end
//@fn iroh-relay/src/relay_map.rs RelayMap::is_empty
//@end
//@fn iroh-relay/src/relay_map.rs RelayMap::insert
//@end
//@fn iroh-relay/src/relay_map.rs RelayMap::remove
//@end
//@fn iroh-relay/src/relay_map.rs RelayMap::extend
//@end
//@fn iroh-relay/src/relay_map.rs RelayMap::with_auth_token
//@end
}
impl RelayConfig {
//@fn iroh-relay/src/relay_map.rs RelayConfig::new
//@end
//@fn iroh-relay/src/relay_map.rs RelayConfig::with_auth_token
//@end
}
// @extra-items-here (helpers a change newly calls are spliced in above this line)

#[derive(Clone, Copy, Debug, PartialEq, Eq)]
enum Op { Insert(usize, u8, u16), InsertAlias(usize, u8), Remove(usize, u8), Extend(usize, usize), Token(usize, u8), Eq(usize, usize) }
type Model = BTreeMap<u8, (u8, u16, Option<u8>)>;   // url -> (the url inside the configuration, quic port, token id)

fn cfg(u: u8, port: u16) -> Arc<RelayConfig> { Arc::new(RelayConfig::new(RelayUrl(u), Some(RelayQuicConfig { port }))) }
fn snapshot(m: &RelayMap) -> Option<Model> {
    // read the real map through its public accessors only
    let mut out = Model::new();
    for u in 0u8..4 {
        if m.contains(&RelayUrl(u)) {
            let c = m.get(&RelayUrl(u))?;
            out.insert(u, (c.url.0, c.quic.as_ref().map(|q| q.port).unwrap_or(0), c.auth_token.as_ref().map(|t| t.as_bytes()[0])));
        } else if m.get(&RelayUrl(u)).is_some() { return None; }
    }
    if m.len() != out.len() || m.is_empty() != out.is_empty() { return None; }
    Some(out)
}
// runs a whole operation sequence on ONE watchdog thread; `progress` tells the caller which operation was running when
// the time ran out.  Returns the failures found, as (obligation, class, detail).
fn run_seq(seq: Vec<Op>, shared: bool, progress: Arc<std::sync::atomic::AtomicUsize>) -> Vec<(&'static str, &'static str, String)> {
    use std::sync::atomic::Ordering;
    let mut out = Vec::new();
    // two handles; when `shared` the second is a clone of the first (clones share the map)
    let h0 = RelayMap::empty();
    let h1 = if shared { h0.clone() } else { RelayMap::empty() };
    let hs = vec![h0, h1];
    let mut models: Vec<Model> = vec![Model::new(), Model::new()];
    let st = |h: usize| if shared { 0 } else { h };
    for (k, op) in seq.iter().enumerate() {
        progress.store(k, Ordering::SeqCst);
        let r = match *op {
            Op::Insert(h, u, p) => { hs[h].insert(RelayUrl(u), cfg(u, p)); None }
            // the key is what the caller says; the configuration may name another URL (insert takes both)
            Op::InsertAlias(h, u) => { hs[h].insert(RelayUrl(u), cfg(u ^ 1, 3)); None }
            Op::Remove(h, u) => { hs[h].remove(&RelayUrl(u)); None }
            Op::Extend(a, b) => { hs[a].extend(&hs[b]); None }
            Op::Token(h, t) => { let _ = hs[h].clone().with_auth_token((t as char).to_string()); None }
            Op::Eq(a, b) => Some(hs[a].eq(&hs[b])),
        };
        // the model: plain maps
        match *op {
            Op::Insert(h, u, p) => { models[st(h)].insert(u, (u, p, None)); }
            Op::InsertAlias(h, u) => { models[st(h)].insert(u, (u ^ 1, 3, None)); }
            Op::Remove(h, u) => { models[st(h)].remove(&u); }
            Op::Extend(a, b) => { let src = models[st(b)].clone(); models[st(a)].extend(src); }
            Op::Token(h, t) => { for v in models[st(h)].values_mut() { v.2 = Some(t); } }
            Op::Eq(a, b) => { if r != Some(models[st(a)] == models[st(b)]) { out.push(("behaves-as-map", "other", format!("op #{k} {:?} returned {:?}", op, r))); } }
        }
        for h in 0..2 {
            let got = snapshot(&hs[h]);
            if got.as_ref() != Some(&models[st(h)]) {
                out.push(("behaves-as-map", "other", format!("after op #{k} {:?} handle {h} holds {:?}, a map would hold {:?}", op, got, models[st(h)])));
                return out;
            }
        }
    }
    out
}

fn main() {
    use std::sync::atomic::{AtomicUsize, Ordering};
    std::panic::set_hook(Box::new(|_| {}));
    let args: Vec<String> = std::env::args().collect();
    let max_ops: usize = args.get(1).and_then(|s| s.parse().ok()).unwrap_or(3);
    let only: Option<String> = args.get(3).cloned();
    let mut ops = Vec::new();
    for h in 0..2 { for u in 0..2u8 { for p in [1u16, 2] { ops.push(Op::Insert(h, u, p)); } ops.push(Op::InsertAlias(h, u)); ops.push(Op::Remove(h, u)); } ops.push(Op::Token(h, b'x' + h as u8)); }
    for a in 0..2 { for b in 0..2 { ops.push(Op::Extend(a, b)); ops.push(Op::Eq(a, b)); } }
    let mut evaluations = 0u64; let mut nontrivial = 0u64;
    let mut fail_counts: BTreeMap<(&'static str, &'static str), u64> = BTreeMap::new();
    let mut fails: Vec<(&'static str, &'static str, String, String)> = Vec::new();
    let mut samples: Vec<String> = Vec::new();
    let mut blocked_seen: u64 = 0;
    for shared in [false, true] {
        let mut idx: Vec<usize> = vec![0];
        loop {
            let seq: Vec<Op> = idx.iter().map(|i| ops[*i]).collect();
            let input = format!("handles_share_one_map={shared} ops={:?}", seq);
            let skip = only.as_ref().map(|o| *o != input).unwrap_or(false);
            if !skip {
                evaluations += 1;
                if seq.len() >= 2 { nontrivial += 1; }
                if samples.len() < 4 && seq.len() == max_ops && evaluations % 1499 == 0 { samples.push(input.clone()); }
                let mut fail = |ob: &'static str, class: &'static str, detail: String| {
                    *fail_counts.entry((ob, class)).or_insert(0) += 1;
                    if fails.iter().filter(|f| f.0 == ob && f.1 == class).count() < 3 { fails.push((ob, class, input.clone(), detail)); }
                };
                let self_extend = seq.iter().position(|op| matches!(op, Op::Extend(a, b) if shared || a == b));
                if self_extend.is_some() && blocked_seen >= 3 && only.is_none() {
                    // the known self-deadlock has been observed: do not pay the timeout for every further sequence containing it
                    fail("never-blocks", "extend-on-shared-map", format!("op #{} {:?}: not executed again (extend takes the write lock, then the read lock of the same RwLock)", self_extend.unwrap(), seq[self_extend.unwrap()]));
                } else {
                    let progress = Arc::new(AtomicUsize::new(0));
                    let (tx, rx) = mpsc::channel();
                    let (s2, p2) = (seq.clone(), progress.clone());
                    std::thread::spawn(move || { let r = std::panic::catch_unwind(std::panic::AssertUnwindSafe(|| run_seq(s2, shared, p2))); let _ = tx.send(r); });
                    match rx.recv_timeout(Duration::from_millis(1500)) {
                        Err(_) => {
                            let k = progress.load(Ordering::SeqCst);
                            let class = if matches!(seq[k], Op::Extend(a, b) if shared || a == b) { blocked_seen += 1; "extend-on-shared-map" } else { "other" };
                            fail("never-blocks", class, format!("op #{k} {:?} did not return within 1.5 s", seq[k]));
                        }
                        Ok(Err(_)) => { let k = progress.load(Ordering::SeqCst); fail("never-panics", "other", format!("op #{k} {:?} panicked", seq[k])); }
                        Ok(Ok(list)) => { for (o, c, d) in list { fail(o, c, d); } }
                    }
                }
            }
            // next sequence (lexicographic, lengths 1..=max_ops)
            let mut k = idx.len();
            loop {
                if k == 0 { idx = vec![0; idx.len() + 1]; break; }
                k -= 1;
                if idx[k] + 1 < ops.len() { idx[k] += 1; for j in k + 1..idx.len() { idx[j] = 0; } break; }
            }
            if idx.len() > max_ops { break; }
        }
    }
    let esc = |s: &str| s.replace('\\', "\\\\").replace('"', "\\\"");
    let mut out = format!("{{\"evaluations\": {evaluations}, \"nontrivial\": {nontrivial}, \"samples\": [{}], ", samples.iter().map(|s| format!("\"{}\"", esc(s))).collect::<Vec<_>>().join(", "));
    out += &format!("\"fail_counts\": [{}], ", fail_counts.iter().map(|((o, c), n)| format!("{{\"obligation\": \"{o}\", \"class\": \"{c}\", \"count\": {n}}}")).collect::<Vec<_>>().join(", "));
    out += &format!("\"failures\": [{}]}}", fails.iter().map(|(o, c, i, d)| format!("{{\"obligation\": \"{o}\", \"class\": \"{c}\", \"input\": \"{}\", \"detail\": \"{}\"}}", esc(i), esc(d))).collect::<Vec<_>>().join(", "));
    println!("{out}");
    std::process::exit(0);   // blocked watchdog threads are abandoned
}
