//@unit path_selector_bx props=C24
// C24 — bounded second line behind the Verus unit `path_selector` (NOT a proof): BiasedRttPathSelector::select with its
// helpers, extracted verbatim, on every candidate list up to the bound against an independent statement of the property.
#![allow(dead_code, unused_imports, unused_variables, unused_macros, unused_mut)]
macro_rules! trace { ($($t:tt)*) => { () }; }
macro_rules! debug { ($($t:tt)*) => { () }; }
macro_rules! warn { ($($t:tt)*) => { () }; }
pub mod tracing { macro_rules! warn_ { ($($t:tt)*) => { () }; } pub(crate) use warn_ as warn; macro_rules! trace_ { ($($t:tt)*) => { () }; } pub(crate) use trace_ as trace; }
use std::net::{IpAddr, Ipv4Addr, Ipv6Addr, SocketAddr, SocketAddrV4, SocketAddrV6};
use std::sync::Arc;
use std::time::Duration;
// shims: identifiers of the address kinds (ordered, cloneable, hashable), the bias table, noq's path statistics
#[derive(Debug, Clone, PartialEq, Eq, Hash)] pub struct RelayUrl(pub u8);
#[derive(Debug, Clone, Copy, PartialEq, Eq, Hash)] pub struct EndpointId(pub u8);
#[derive(Debug, Clone, PartialEq, Eq, Hash)] pub struct CustomAddr { pub id: u64, pub data: u8 }
impl CustomAddr { pub fn id(&self) -> u64 { self.id } }
pub type FxHashMap<K, V> = std::collections::HashMap<K, V>;
#[derive(Debug, Clone, Copy, Default)] pub struct PathStats { pub rtt: Duration }
// where a candidate's statistics come from: in the harness, what the harness scripted (None = unreadable, e.g. path closed)
#[derive(Debug, Clone)] pub struct StatsSource(pub Option<PathStats>);

//@item iroh/src/socket/transports.rs enum AddrKind stripattrs derive=Debug,Clone,PartialEq,Eq,Hash
//@item iroh/src/socket/transports.rs enum FourTuple stripattrs derive=Debug,Clone,PartialEq,Eq,Hash
pub mod transports { pub use super::FourTuple; }
//@item iroh/src/socket/biased_rtt_path_selector.rs const IPV6_RTT_ADVANTAGE
//@item iroh/src/socket/biased_rtt_path_selector.rs const RTT_SWITCHING_MIN
//@item iroh/src/socket/biased_rtt_path_selector.rs enum TransportType derive=Debug,Clone,Copy,PartialEq,Eq,PartialOrd,Ord
//@item iroh/src/socket/biased_rtt_path_selector.rs struct TransportBias derive=Debug,Clone,Copy,PartialEq,Eq,PartialOrd,Ord
//@item iroh/src/socket/biased_rtt_path_selector.rs struct BiasedRttPathSelector derive=Debug,Clone
//@item iroh/src/socket/remote_map/remote_state.rs struct PathSelectionData stripattrs derive=Debug,Clone
//@item iroh/src/socket/remote_map/remote_state.rs struct PathSelection stripattrs derive=Debug,Clone
// shim: the context is the harness's list of candidates (the live variant walks the connection table)
pub struct PathSelectionContext<'a> { pub current: Option<&'a FourTuple>, pub list: Vec<PathSelectionData<'a>> }
impl<'a> PathSelectionContext<'a> {
//@fn iroh/src/socket/remote_map/remote_state.rs PathSelectionContext::current stripattrs
//@end
    pub fn paths(&self) -> Box<dyn Iterator<Item = PathSelectionData<'a>> + '_> { Box::new(self.list.iter().cloned()) }
}
impl<'a> PathSelectionData<'a> {
//@fn iroh/src/socket/remote_map/remote_state.rs PathSelectionData::network_path stripattrs
//@end
    pub fn stats(&self) -> Option<PathStats> { self.source.0 }
}
impl PathSelection {
//@fn iroh/src/socket/remote_map/remote_state.rs PathSelection::none stripattrs
//@end
//@fn iroh/src/socket/remote_map/remote_state.rs PathSelection::set stripattrs
//@end
//@fn iroh/src/socket/remote_map/remote_state.rs PathSelection::selected stripattrs
//@end
}
impl FourTuple {
//@fn iroh/src/socket/transports.rs FourTuple::addr_kind stripattrs
//@end
}
impl TransportBias {
//@fn iroh/src/socket/biased_rtt_path_selector.rs TransportBias::primary
//@end
//@fn iroh/src/socket/biased_rtt_path_selector.rs TransportBias::backup
//@end
//@fn iroh/src/socket/biased_rtt_path_selector.rs TransportBias::with_rtt_advantage
//@end
}
impl Default for BiasedRttPathSelector {
//@fn iroh/src/socket/biased_rtt_path_selector.rs Default@BiasedRttPathSelector::default
//@end
}
impl BiasedRttPathSelector {
//@fn iroh/src/socket/biased_rtt_path_selector.rs BiasedRttPathSelector::bias_for
//@end
//@fn iroh/src/socket/biased_rtt_path_selector.rs BiasedRttPathSelector::sort_key
//@end
}
pub trait PathSelector { fn select(&self, ctx: &PathSelectionContext<'_>) -> PathSelection; }
impl PathSelector for BiasedRttPathSelector {
//@fn iroh/src/socket/biased_rtt_path_selector.rs PathSelector@BiasedRttPathSelector::select
//@end
}
// @extra-items-here (helpers a change newly calls are spliced in above this line)
//@include shims/harness.rs

fn universe() -> Vec<FourTuple> {
    vec![
        FourTuple::Ip { remote: SocketAddr::V4(SocketAddrV4::new(Ipv4Addr::new(192, 0, 2, 1), 1)), local: None },
        FourTuple::Ip { remote: SocketAddr::V4(SocketAddrV4::new(Ipv4Addr::new(192, 0, 2, 2), 1)), local: Some(IpAddr::V4(Ipv4Addr::new(10, 0, 0, 1))) },
        FourTuple::Ip { remote: SocketAddr::V6(SocketAddrV6::new(Ipv6Addr::new(0x2001, 0xdb8, 0, 0, 0, 0, 0, 1), 1, 0, 0)), local: None },
        FourTuple::Relay { url: RelayUrl(1), endpoint_id: EndpointId(9) },
        FourTuple::Relay { url: RelayUrl(2), endpoint_id: EndpointId(9) },
        FourTuple::Custom { remote: CustomAddr { id: 7, data: 1 }, local: None },
    ]
}
fn name(i: usize) -> &'static str { ["v4a", "v4b", "v6", "relay1", "relay2", "custom"][i] }
fn is_relay(i: usize) -> bool { i == 3 || i == 4 }
fn biased_us(i: usize, rtt_us: i128) -> i128 { if i == 2 { rtt_us - 3000 } else { rtt_us } }

fn main() {
    let args: Vec<String> = std::env::args().collect();
    let max_paths: usize = args.get(1).and_then(|s| s.parse().ok()).unwrap_or(3);
    let mut rep = Rep::new(args.get(3).cloned());
    let uni = universe();
    // round-trip times in microseconds: millisecond steps around the 5 ms / 3 ms thresholds, sub-millisecond neighbours, extremes
    let rtts: Vec<Option<u64>> = vec![None, Some(0), Some(1000), Some(2000), Some(3000), Some(4000), Some(5000), Some(6000), Some(7000), Some(8000), Some(9000), Some(10_000),
                                      Some(4999), Some(5001), Some(12_999), Some(13_000), Some(20_000), Some(3_600_000_000)];
    let mut rtts = rtts;
    if args.get(2).map(|s| s == "1").unwrap_or(false) { rtts.extend([1u64, 999, 2999, 3001, 7999, 8001, 11_000, 12_000, 14_000, 15_000, 50_000, u64::MAX / 2000].map(Some)); }
    let mut cands: Vec<(usize, Option<u64>)> = vec![];
    for a in 0..uni.len() { for r in &rtts { cands.push((a, *r)); } }
    let n = cands.len();
    let sel = BiasedRttPathSelector::default();
    let mut idx: Vec<usize> = vec![];
    loop {
        let list: Vec<(usize, Option<u64>)> = idx.iter().map(|i| cands[*i]).collect();
        for cur in 0..=uni.len() {
            let current = if cur == uni.len() { None } else { Some(cur) };
            let input = format!("current={} paths=[{}]", current.map(name).unwrap_or("none"), list.iter().map(|(a, r)| format!("{}:{}", name(*a), r.map(|x| format!("{x}us")).unwrap_or("unreadable".into()))).collect::<Vec<_>>().join(", "));
            if rep.skip(&input) { continue; }
            rep.evaluations += 1; if list.len() >= 2 { rep.nontrivial += 1; }
            if list.len() == 2 && cur == 0 && idx[0] == 5 && idx[1] == 40 { rep.sample(&input); }
            let out = std::panic::catch_unwind(|| {
                let psds: Vec<PathSelectionData<'_>> = list.iter().map(|(a, r)| PathSelectionData { network_path: &uni[*a], source: StatsSource(r.map(|us| PathStats { rtt: Duration::from_micros(us) })) }).collect();
                let ctx = PathSelectionContext { current: current.map(|c| &uni[c]), list: psds };
                sel.select(&ctx).selected().cloned()
            });
            let picked = match out { Err(_) => { rep.fail("never-panics", "other", &input, "select panicked".into()); continue; } Ok(p) => p };
            let picked_i = picked.as_ref().map(|p| uni.iter().position(|u| u == p));
            // independent statement of the property
            let live: Vec<(usize, i128)> = list.iter().filter_map(|(a, r)| r.map(|us| (*a, biased_us(*a, us as i128)))).collect();
            let best_of = |a: usize| live.iter().filter(|(x, _)| *x == a).map(|(_, b)| *b).min();
            match picked_i {
                None => {}
                Some(None) => rep.fail("picks-only-live-paths", "other", &input, format!("picked {:?}, which is not one of the remote's paths", picked)),
                Some(Some(p)) => {
                    if best_of(p).is_none() { rep.fail("picks-only-live-paths", "other", &input, format!("picked {}, which has no readable statistics", name(p))); }
                    else {
                        if is_relay(p) && live.iter().any(|(a, _)| !is_relay(*a)) { rep.fail("direct-preferred-over-relay", "other", &input, format!("picked relay path {} although a direct path with readable statistics exists", name(p))); }
                        if let Some(c) = current && let Some(cb) = best_of(c) && p != c && is_relay(p) == is_relay(c) {
                            let pb = best_of(p).unwrap();
                            if pb + 5000 > cb { rep.fail("moves-only-when-5ms-better", "other", &input, format!("moved from {} (biased {} us) to {} (biased {} us): not 5 ms better", name(c), cb, name(p), pb)); }
                        }
                    }
                }
            }
            if live.is_empty() && picked.is_some() { rep.fail("changes-nothing-without-live-paths", "other", &input, format!("picked {:?} although no path has readable statistics", picked)); }
            // a usable direct path exists but the current path is a relay (or unusable): the selection must land on a direct path
            if live.iter().any(|(a, _)| !is_relay(*a)) && current.map(|c| is_relay(c) || best_of(c).is_none()).unwrap_or(true) {
                if !matches!(picked_i, Some(Some(p)) if !is_relay(p)) { rep.fail("direct-preferred-over-relay", "must-switch", &input, format!("a direct path with readable statistics exists and the current path is {}, but the selection was {:?}", current.map(name).unwrap_or("none"), picked_i.flatten().map(name))); }
            }
        }
        let mut k = idx.len();
        loop {
            if k == 0 { idx = vec![0; idx.len() + 1]; break; }
            k -= 1;
            if idx[k] + 1 < n { idx[k] += 1; for j in k + 1..idx.len() { idx[j] = 0; } break; }
        }
        if idx.len() > max_paths { break; }
    }
    rep.finish();
}
