//@unit router_bx props=C40
// C40 — bounded second line (NOT a proof) behind the Verus unit `router`: the accept arm of RouterBuilder::spawn's loop (sliced
// out as a function, its `break`/`continue` returned as a loop-control value), handle_connection and ProtocolMap::get, extracted
// verbatim, with scripted incoming connections (validated or not, retry possible or not, handshake outcomes, negotiated
// protocol) and recording protocol handlers.
#![allow(dead_code, unused_imports, unused_variables, unused_macros, unused_mut)]
macro_rules! trace { ($($t:tt)*) => { () }; }
macro_rules! debug { ($($t:tt)*) => { () }; }
macro_rules! warn { ($($t:tt)*) => { () }; }
macro_rules! error { ($($t:tt)*) => { () }; }
macro_rules! info_span { ($($t:tt)*) => { crate::tracing::Span }; }
use std::collections::BTreeMap;
use std::future::Future;
use std::pin::Pin;
use std::sync::{Arc, Mutex};
pub mod tracing { #[derive(Clone, Copy)] pub struct Span; impl Span { pub fn current() -> Span { Span } pub fn record<T>(&self, _k: &str, _v: T) {} } pub mod field { pub fn display<T>(_t: T) {} pub struct Empty; } }
use tracing::field::Empty;
pub trait Instrument: Sized { fn instrument(self, _s: tracing::Span) -> Self { self } }
impl<F: Future> Instrument for F {}
#[derive(Debug, Default)] pub struct Log { pub refused: Vec<u8>, pub ignored: Vec<u8>, pub retried: Vec<u8>, pub accepted_by: Vec<(String, u8)>, pub on_accepting_by: Vec<(String, u8)>, pub spawned: Vec<u8> }
pub static LOG: Mutex<Log> = Mutex::new(Log { refused: vec![], ignored: vec![], retried: vec![], accepted_by: vec![], on_accepting_by: vec![], spawned: vec![] });
#[derive(Debug, Clone, Copy, PartialEq, Eq)] pub struct EndpointId(pub u8); impl EndpointId { pub fn fmt_short(&self) -> String { format!("e{}", self.0) } }
#[derive(Debug, Clone)] pub struct Endpoint; impl Endpoint { pub fn id(&self) -> EndpointId { EndpointId(1) } }
#[derive(Debug, Clone, PartialEq)] pub struct AcceptError;
// an incoming connection as the harness scripts it
#[derive(Debug, Clone)] pub struct Incoming { pub id: u8, pub validated: bool, pub accept_fails: bool, pub alpn: Option<Vec<u8>>, pub handshake_fails: bool }
#[derive(Debug)] pub struct RetryError(pub Incoming);
impl RetryError { pub fn into_incoming(self) -> Incoming { self.0 } }
impl Incoming {
    pub fn remote_addr_validated(&self) -> bool { self.validated }
    /// a RETRY can be sent only while the remote address is not validated yet (noq's rule)
    pub fn retry(self) -> Result<(), RetryError> { if self.validated { Err(RetryError(self)) } else { LOG.lock().unwrap().retried.push(self.id); Ok(()) } }
    pub fn refuse(self) { LOG.lock().unwrap().refused.push(self.id); }
    pub fn ignore(self) { LOG.lock().unwrap().ignored.push(self.id); }
    pub fn accept(self) -> Result<Accepting, AcceptError> { if self.accept_fails { Err(AcceptError) } else { Ok(Accepting { inc: self }) } }
}
pub mod endpoint { pub use super::Incoming; }
#[derive(Debug)] pub struct Accepting { pub inc: Incoming }
impl Accepting { pub async fn alpn(&mut self) -> Result<Vec<u8>, AcceptError> { self.inc.alpn.clone().ok_or(AcceptError) } }
#[derive(Debug, Clone)] pub struct Connection { pub id: u8 }
impl Connection { pub fn remote_id(&self) -> EndpointId { EndpointId(2) } }
pub trait DynProtocolHandler: Send + Sync + std::fmt::Debug + 'static {
    fn on_accepting(&self, accepting: Accepting) -> Pin<Box<dyn Future<Output = Result<Connection, AcceptError>> + Send + '_>>;
    fn accept(&self, connection: Connection) -> Pin<Box<dyn Future<Output = Result<(), AcceptError>> + Send + '_>>;
}
#[derive(Debug)] pub struct Recording(pub String);
impl DynProtocolHandler for Recording {
    fn on_accepting(&self, accepting: Accepting) -> Pin<Box<dyn Future<Output = Result<Connection, AcceptError>> + Send + '_>> { Box::pin(async move { LOG.lock().unwrap().on_accepting_by.push((self.0.clone(), accepting.inc.id)); if accepting.inc.handshake_fails { Err(AcceptError) } else { Ok(Connection { id: accepting.inc.id }) } }) }
    fn accept(&self, connection: Connection) -> Pin<Box<dyn Future<Output = Result<(), AcceptError>> + Send + '_>> { Box::pin(async move { LOG.lock().unwrap().accepted_by.push((self.0.clone(), connection.id)); Ok(()) }) }
}
#[derive(Debug, Clone, Default)] pub struct CancellationToken;
impl CancellationToken { pub fn child_token(&self) -> CancellationToken { CancellationToken } pub async fn run_until_cancelled<F: Future>(&self, f: F) -> Option<F::Output> { Some(f.await) } }
fn block_on<F: Future>(f: F) -> F::Output { let mut f = std::pin::pin!(f); let mut cx = std::task::Context::from_waker(std::task::Waker::noop()); loop { if let std::task::Poll::Ready(v) = f.as_mut().poll(&mut cx) { return v; } } }
// the task set: a spawned connection task runs to completion at once (scheduling of handler tasks is not part of the property)
#[derive(Default)] pub struct JoinSet;
impl JoinSet { pub fn spawn<F: Future + Send + 'static>(&mut self, f: F) { block_on(f); } }
#[derive(Debug, Clone, Copy, PartialEq, Eq)] pub enum LoopCtl { Next, Break, Continue }

//@item iroh/src/protocol.rs enum IncomingFilterOutcome derive=Debug,Clone,Copy,PartialEq,Eq
//@item iroh/src/protocol.rs type IncomingFilter
//@item iroh/src/protocol.rs struct ProtocolMap derive=Debug,Default
impl ProtocolMap {
//@fn iroh/src/protocol.rs ProtocolMap::get
//@end
//@fn iroh/src/protocol.rs ProtocolMap::insert
//@end
}
//@arm iroh/src/protocol.rs RouterBuilder::spawn name=accept_arm loopctl
//@- incoming = endpoint.accept() =>
//@| pub fn accept_arm(incoming: Option<Incoming>, incoming_filter: Option<IncomingFilter>, protocols: &Arc<ProtocolMap>, handler_cancel_token: &CancellationToken, join_set: &mut JoinSet, endpoint: &Endpoint) -> LoopCtl
//@tail LoopCtl::Next
//@end
//@fn iroh/src/protocol.rs handle_connection
//@end
// @extra-items-here (helpers a change newly calls are spliced in above this line)
//@include shims/harness.rs

fn main() {
    std::panic::set_hook(Box::new(|_| {}));
    let args: Vec<String> = std::env::args().collect();
    let mut rep = Rep::new(args.get(3).cloned());
    let mut protocols = ProtocolMap::default();
    protocols.insert(b"alpha".to_vec(), Box::new(Recording("alpha".into())));
    protocols.insert(b"beta".to_vec(), Box::new(Recording("beta".into())));
    let protocols = Arc::new(protocols);
    let verdicts: [Option<IncomingFilterOutcome>; 5] = [None, Some(IncomingFilterOutcome::Accept), Some(IncomingFilterOutcome::Retry), Some(IncomingFilterOutcome::Reject), Some(IncomingFilterOutcome::Ignore)];
    let alpns: [Option<&[u8]>; 5] = [Some(b"alpha"), Some(b"beta"), Some(b"gamma"), Some(b""), None];
    for verdict in verdicts { for validated in [false, true] { for accept_fails in [false, true] { for alpn in alpns { for handshake_fails in [false, true] {
        let input = format!("filter={:?} address-validated={validated} accept-fails={accept_fails} negotiated={:?} handshake-fails={handshake_fails}", verdict, alpn.map(|a| String::from_utf8_lossy(a).to_string()));
        if rep.skip(&input) { continue; }
        rep.evaluations += 1; if verdict.is_some() { rep.nontrivial += 1; }
        if verdict == Some(IncomingFilterOutcome::Retry) && validated && alpn == Some(b"alpha") && !accept_fails && !handshake_fails { rep.sample(&input); }
        *LOG.lock().unwrap() = Log::default();
        let inc = Incoming { id: 7, validated, accept_fails, alpn: alpn.map(|a| a.to_vec()), handshake_fails };
        let filter: Option<IncomingFilter> = verdict.map(|v| { let f: IncomingFilter = Arc::new(move |_i: &Incoming| v); f });
        let p2 = protocols.clone();
        let r = std::panic::catch_unwind(std::panic::AssertUnwindSafe(|| { let mut js = JoinSet; accept_arm(Some(inc), filter, &p2, &CancellationToken, &mut js, &Endpoint) }));
        let l = LOG.lock().unwrap();
        match r {
            Err(_) => rep.fail("never-panics", "other", &input, "the accept arm panicked".into()),
            Ok(ctl) => {
                if ctl == LoopCtl::Break { rep.fail("the-loop-ends-only-when-the-endpoint-is-closed", "other", &input, "the accept loop ended although a connection came in".into()); }
                let reached: Vec<&(String, u8)> = l.on_accepting_by.iter().chain(l.accepted_by.iter()).collect();
                let admitted = verdict.is_none() || verdict == Some(IncomingFilterOutcome::Accept);
                // refused / ignored / asked to retry: no handler; a retry that cannot be sent (address already validated) must not turn into an acceptance
                if !admitted && !reached.is_empty() { rep.fail("no-handler-unless-the-filter-accepts", match verdict { Some(IncomingFilterOutcome::Retry) => "retry", Some(IncomingFilterOutcome::Reject) => "reject", _ => "ignore" }, &input, format!("the filter said {:?}, yet the connection reached {:?}", verdict.unwrap(), reached)); }
                if verdict == Some(IncomingFilterOutcome::Reject) && l.refused != vec![7] { rep.fail("a-rejected-connection-is-refused", "other", &input, format!("refused: {:?}", l.refused)); }
                if verdict == Some(IncomingFilterOutcome::Ignore) && (!l.refused.is_empty() || !l.retried.is_empty()) { rep.fail("an-ignored-connection-gets-no-answer", "other", &input, format!("refused {:?} retried {:?}", l.refused, l.retried)); }
                // exactly the handler registered for the negotiated protocol, and none if none is registered
                if admitted {
                    let want: Option<&str> = if accept_fails { None } else { match alpn { Some(b"alpha") => Some("alpha"), Some(b"beta") => Some("beta"), _ => None } };
                    let got_on: Vec<&str> = l.on_accepting_by.iter().map(|x| x.0.as_str()).collect();
                    let got_acc: Vec<&str> = l.accepted_by.iter().map(|x| x.0.as_str()).collect();
                    let want_on: Vec<&str> = want.into_iter().collect();
                    let want_acc: Vec<&str> = if handshake_fails { vec![] } else { want_on.clone() };
                    if got_on != want_on || got_acc != want_acc { rep.fail("reaches-exactly-the-handler-of-the-negotiated-protocol", "other", &input, format!("on_accepting called on {:?}, accept on {:?}; expected {:?} / {:?}", got_on, got_acc, want_on, want_acc)); }
                }
            }
        }
    } } } } }
    // endpoint closed: the loop ends
    rep.evaluations += 1;
    let mut js = JoinSet;
    if accept_arm(None, None, &protocols, &CancellationToken, &mut js, &Endpoint) != LoopCtl::Break { rep.fail("the-loop-ends-only-when-the-endpoint-is-closed", "other", "incoming=None", "the endpoint is closed but the loop goes on".into()); }
    rep.finish();
}
