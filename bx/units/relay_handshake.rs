//@unit relay_handshake_bx props=C03
// C03 — bounded second line (NOT a proof) behind the Verus unit `relay_handshake`: handshake::serverside with ClientAuth /
// KeyMaterialClientAuth::{new, verify}, ServerChallenge::message_to_sign, read_frame, deserialize_frame and
// SuccessfulAuthentication::{authorize_if, accept, deny}, extracted verbatim.  Signatures, hashing, the TLS exporter, the frame
// serialisation and the websocket are executable stand-ins; the "client" is an adversary that holds the secret keys of a stated
// set S and sends every combination of header and challenge answer it can build from them.
#![allow(dead_code, unused_imports, unused_variables, unused_macros, unused_mut)]
macro_rules! trace { ($($t:tt)*) => { () }; }
macro_rules! e {
    ($($p:ident)::+, $src:expr) => { $($p)::+ { source: $src } };
    ($($t:tt)*) => { $($t)* };
}
macro_rules! ensure { ($cond:expr, $($err:tt)*) => { if !($cond) { return Err(e!($($err)*).into()); } }; }
macro_rules! anyerr { ($e:expr) => { AnyError(format!("{:?}", $e)) }; }
use std::collections::VecDeque;
// shims: keys and signatures — sign(k, m) can only be produced with secret k; verify checks exactly that
#[derive(Debug, Clone, Copy, PartialEq, Eq, Hash)] pub struct PublicKey(pub u8);
static KEY_BYTES: [[u8; 32]; 256] = { let mut t = [[0u8; 32]; 256]; let mut i = 0; while i < 256 { t[i] = [i as u8; 32]; i += 1; } t };
impl PublicKey { pub fn as_bytes(&self) -> &[u8; 32] { &KEY_BYTES[self.0 as usize] }
    pub fn verify(&self, message: &[u8], sig: &Signature) -> Result<(), SignatureError> { if sig.0 == mac(self.0, message) { Ok(()) } else { Err(SignatureError) } } }
#[derive(Debug, Clone)] pub struct SecretKey(pub u8);
impl SecretKey { pub fn public(&self) -> PublicKey { PublicKey(self.0) } pub fn sign(&self, message: &[u8]) -> Signature { Signature(mac(self.0, message)) } }
#[derive(Debug, Clone, PartialEq)] pub struct SignatureError;
#[derive(Debug, Clone, Copy, PartialEq, Eq)] pub struct Signature(pub [u8; 64]);
impl Signature { pub fn from_bytes(b: &[u8; 64]) -> Self { Signature(*b) } pub fn to_bytes(&self) -> [u8; 64] { self.0 } }
fn mac(key: u8, message: &[u8]) -> [u8; 64] { let mut out = [0u8; 64]; let mut h: u64 = 0xcbf29ce484222325 ^ ((key as u64) << 32 | 0x9e37); for b in message { h = (h ^ *b as u64).wrapping_mul(0x100000001b3); } for (i, o) in out.iter_mut().enumerate() { h = (h ^ (i as u64 + key as u64)).wrapping_mul(0x100000001b3); *o = (h >> 24) as u8; } out[0] = key; out }
pub mod blake3 { pub fn derive_key(context: &str, material: &[u8]) -> [u8; 32] { let mut h: u64 = 0x1234_5678_9abc_def1; for b in context.bytes().chain(material.iter().copied()) { h = (h ^ b as u64).wrapping_mul(0x100000001b3).rotate_left(5); } let mut out = [0u8; 32]; for (i, o) in out.iter_mut().enumerate() { h = (h ^ i as u64).wrapping_mul(0x100000001b3); *o = (h >> 16) as u8; } out } }
pub mod rand { pub trait CryptoRng { fn fill_bytes(&mut self, b: &mut [u8]); } pub struct Rng; impl CryptoRng for Rng { fn fill_bytes(&mut self, b: &mut [u8]) { let n = super::NONCE.with(|n| { n.set(n.get() + 1); n.get() }); for (i, x) in b.iter_mut().enumerate() { *x = n.wrapping_mul(31).wrapping_add(i as u8); } } } pub fn rng() -> Rng { Rng } }
use rand::CryptoRng;
thread_local! { static NONCE: std::cell::Cell<u8> = std::cell::Cell::new(0); }
#[derive(Debug, Clone, PartialEq)] pub struct AnyError(pub String);
#[derive(Debug, Clone, PartialEq)] pub struct HeaderValue(pub Vec<u8>);
impl AsRef<[u8]> for HeaderValue { fn as_ref(&self) -> &[u8] { &self.0 } }
// shims: frame types, the frame (de)serialisation (postcard) and the header encoding (base64url) — a fixed-layout encoding
#[derive(Debug, Clone, Copy, PartialEq, Eq)] pub enum FrameType { ServerChallenge = 0, ClientAuth = 1, ServerConfirmsAuth = 2, ServerDeniesAuth = 3, Ping = 9 }
#[derive(Debug, Clone, PartialEq)] pub struct FrameTypeError;
#[derive(Debug, Clone, PartialEq, Default)] pub struct Bytes(pub Vec<u8>);
impl std::ops::Deref for Bytes { type Target = [u8]; fn deref(&self) -> &[u8] { &self.0 } }
impl FrameType { pub fn from_bytes(b: &mut Bytes) -> Result<FrameType, FrameTypeError> { if b.0.is_empty() { return Err(FrameTypeError); } let t = b.0.remove(0); match t { 0 => Ok(FrameType::ServerChallenge), 1 => Ok(FrameType::ClientAuth), 2 => Ok(FrameType::ServerConfirmsAuth), 3 => Ok(FrameType::ServerDeniesAuth), 9 => Ok(FrameType::Ping), _ => Err(FrameTypeError) } } }
pub trait Wire: Sized { fn enc(&self) -> Vec<u8>; fn dec(b: &[u8]) -> Option<Self>; }
impl Wire for ServerChallenge { fn enc(&self) -> Vec<u8> { self.challenge.to_vec() } fn dec(b: &[u8]) -> Option<Self> { Some(ServerChallenge { challenge: b.try_into().ok()? }) } }
impl Wire for ClientAuth { fn enc(&self) -> Vec<u8> { let mut v = vec![self.public_key.0]; v.extend_from_slice(&self.signature); v } fn dec(b: &[u8]) -> Option<Self> { if b.len() != 65 { return None; } Some(ClientAuth { public_key: PublicKey(b[0]), signature: b[1..].try_into().ok()? }) } }
impl Wire for KeyMaterialClientAuth { fn enc(&self) -> Vec<u8> { let mut v = vec![self.public_key.0]; v.extend_from_slice(&self.signature); v.extend_from_slice(&self.key_material_suffix); v } fn dec(b: &[u8]) -> Option<Self> { if b.len() != 81 { return None; } Some(KeyMaterialClientAuth { public_key: PublicKey(b[0]), signature: b[1..65].try_into().ok()?, key_material_suffix: b[65..].try_into().ok()? }) } }
impl Wire for ServerConfirmsAuth { fn enc(&self) -> Vec<u8> { vec![] } fn dec(b: &[u8]) -> Option<Self> { if b.is_empty() { Some(ServerConfirmsAuth) } else { None } } }
impl Wire for ServerDeniesAuth { fn enc(&self) -> Vec<u8> { self.reason.as_bytes().to_vec() } fn dec(b: &[u8]) -> Option<Self> { Some(ServerDeniesAuth { reason: String::from_utf8(b.to_vec()).ok()? }) } }
impl<T: Wire> Wire for &T { fn enc(&self) -> Vec<u8> { (**self).enc() } fn dec(_b: &[u8]) -> Option<Self> { None } }
pub mod postcard { pub fn from_bytes<T: super::Wire>(b: &[u8]) -> Result<T, ()> { T::dec(b).ok_or(()) } pub fn to_allocvec<T: super::Wire>(t: &T) -> Result<Vec<u8>, ()> { Ok(t.enc()) } }
pub mod data_encoding { pub struct B64; pub const BASE64URL_NOPAD: B64 = B64; impl B64 { pub fn decode(&self, b: &[u8]) -> Result<Vec<u8>, ()> { if b.first() == Some(&b'!') { Err(()) } else { Ok(b.to_vec()) } } pub fn encode(&self, b: &[u8]) -> String { String::from_utf8_lossy(b).to_string() } } }
// shim: the websocket (frames in, frames out) with the TLS exporter of the session it runs over
pub trait ExportKeyingMaterial { fn export_keying_material<T: AsMut<[u8]>>(&self, output: T, label: &[u8], context: Option<&[u8]>) -> Option<T>; }
pub trait BytesStreamSink { fn push_sent(&mut self, b: Bytes); fn try_next(&mut self) -> std::future::Ready<Result<Option<Bytes>, AnyError>>; }
pub struct Io { pub incoming: VecDeque<Bytes>, pub sent: Vec<Bytes>, pub session: Option<u8> }
impl BytesStreamSink for Io { fn push_sent(&mut self, b: Bytes) { self.sent.push(b); } fn try_next(&mut self) -> std::future::Ready<Result<Option<Bytes>, AnyError>> { std::future::ready(Ok(self.incoming.pop_front())) } }
impl ExportKeyingMaterial for Io {
    fn export_keying_material<T: AsMut<[u8]>>(&self, mut output: T, label: &[u8], context: Option<&[u8]>) -> Option<T> {
        let s = self.session?; let mut h: u64 = 0x51ed_27 ^ s as u64; for b in label.iter().chain(context.unwrap_or(&[]).iter()) { h = (h ^ *b as u64).wrapping_mul(0x100000001b3); }
        for (i, o) in output.as_mut().iter_mut().enumerate() { h = (h ^ i as u64).wrapping_mul(0x100000001b3); *o = (h >> 20) as u8; } Some(output)
    }
}
// stand-ins for the two I/O helpers' websocket calls (write_frame prefixes the frame type and sends; the stream yields whole frames)
async fn write_frame<F: Wire + Frame>(io: &mut impl BytesStreamSink, frame: F) -> Result<(), Error> { let mut b = vec![F::TAG as u8]; b.extend(frame.enc()); io.push_sent(Bytes(b)); Ok(()) }
#[derive(Debug, Clone, PartialEq)]
pub enum Error { Websocket { source: AnyError }, UnexpectedEnd, FrameTypeError { source: FrameTypeError }, ServerDeniedAuth { reason: String }, UnexpectedFrameType { frame_type: FrameType, expected_types: Vec<FrameType> }, DeserializationError { frame_type: FrameType, source: AnyError }, ClientAuthHeaderInvalid { value: HeaderValue } }
impl From<FrameTypeError> for Error { fn from(source: FrameTypeError) -> Self { Error::FrameTypeError { source } } }
#[derive(Debug, Clone, PartialEq)]
pub enum VerificationError { NoKeyingMaterial, MismatchedSuffix { expected: [u8; 16], actual: [u8; 16] }, SignatureInvalid { source: SignatureError, message: Vec<u8>, signature: [u8; 64], public_key: PublicKey } }
#[derive(Debug, Clone, PartialEq)] pub enum Access { Allow, Deny { reason: Option<String> } }
trait Frame { const TAG: FrameType; }
impl<T: Frame> Frame for &T { const TAG: FrameType = T::TAG; }
impl Frame for ServerChallenge { const TAG: FrameType = FrameType::ServerChallenge; }
impl Frame for ClientAuth { const TAG: FrameType = FrameType::ClientAuth; }
impl Frame for ServerConfirmsAuth { const TAG: FrameType = FrameType::ServerConfirmsAuth; }
impl Frame for ServerDeniesAuth { const TAG: FrameType = FrameType::ServerDeniesAuth; }

//@item iroh-relay/src/protos/handshake.rs const DOMAIN_SEP_CHALLENGE
//@item iroh-relay/src/protos/handshake.rs const DOMAIN_SEP_TLS_EXPORT_LABEL
//@item iroh-relay/src/protos/handshake.rs struct KeyMaterialClientAuth derive=Debug,Clone
//@item iroh-relay/src/protos/handshake.rs struct ServerChallenge derive=Debug,Clone
//@item iroh-relay/src/protos/handshake.rs struct ClientAuth derive=Debug,Clone
//@item iroh-relay/src/protos/handshake.rs struct ServerConfirmsAuth derive=Debug,Clone
//@item iroh-relay/src/protos/handshake.rs struct ServerDeniesAuth derive=Debug,Clone
//@item iroh-relay/src/protos/handshake.rs struct SuccessfulAuthentication derive=Debug
//@item iroh-relay/src/protos/handshake.rs enum Mechanism derive=Debug,Clone,Copy,PartialEq,Eq
impl ServerChallenge {
//@fn iroh-relay/src/protos/handshake.rs ServerChallenge::new stripattrs
//@end
//@fn iroh-relay/src/protos/handshake.rs ServerChallenge::message_to_sign
//@end
}
impl ClientAuth {
//@fn iroh-relay/src/protos/handshake.rs ClientAuth::new
//@end
//@fn iroh-relay/src/protos/handshake.rs ClientAuth::verify stripattrs
//@end
}
impl KeyMaterialClientAuth {
//@fn iroh-relay/src/protos/handshake.rs KeyMaterialClientAuth::new
//@end
//@fn iroh-relay/src/protos/handshake.rs KeyMaterialClientAuth::verify stripattrs
//@end
}
//@fn iroh-relay/src/protos/handshake.rs serverside stripattrs
//@end
impl SuccessfulAuthentication {
//@fn iroh-relay/src/protos/handshake.rs SuccessfulAuthentication::authorize_if
//@end
//@fn iroh-relay/src/protos/handshake.rs SuccessfulAuthentication::accept
//@end
//@fn iroh-relay/src/protos/handshake.rs SuccessfulAuthentication::deny
//@end
}
//@fn iroh-relay/src/protos/handshake.rs read_frame
//@end
//@fn iroh-relay/src/protos/handshake.rs deserialize_frame
//@rw BX-SERDE *
//@- F: Frame + serde::de::DeserializeOwned
//@+ F: Frame + Wire
//@end
// @extra-items-here (helpers a change newly calls are spliced in above this line)
//@include shims/harness.rs

fn block_on<F: std::future::Future>(f: F) -> F::Output { let mut f = std::pin::pin!(f); let mut cx = std::task::Context::from_waker(std::task::Waker::noop()); loop { if let std::task::Poll::Ready(v) = f.as_mut().poll(&mut cx) { return v; } } }
fn frame<F: Wire + Frame>(f: F) -> Bytes { let mut b = vec![F::TAG as u8]; b.extend(f.enc()); Bytes(b) }

fn main() {
    std::panic::set_hook(Box::new(|_| {}));
    let args: Vec<String> = std::env::args().collect();
    let mut rep = Rep::new(args.get(3).cloned());
    // the client holds the secret keys of S = {A} (or {A, B}); K is somebody else's id
    let (a, b, k) = (SecretKey(10), SecretKey(11), PublicKey(99));
    for holds_b in [false, true] { for session in [Some(1u8), None] { for header in 0..8u8 { for answer in 0..9u8 { for access in [None, Some(Access::Allow), Some(Access::Deny { reason: None })] {
        let input = format!("client-holds={} tls-exporter={:?} header-variant={header} challenge-answer-variant={answer} access={:?}", if holds_b { "A,B" } else { "A" }, session, access);
        if rep.skip(&input) { continue; }
        rep.evaluations += 1; if header > 0 && answer > 0 { rep.nontrivial += 1; }
        if header == 3 && answer == 1 && access.is_none() { rep.sample(&input); }
        NONCE.with(|n| n.set(0));
        let server_io = Io { incoming: VecDeque::new(), sent: vec![], session };
        // what the client can put into the header: material exported from ITS view of the session (the same, or another one behind a proxy)
        let client_view = |sess: Option<u8>| Io { incoming: VecDeque::new(), sent: vec![], session: sess };
        let km = |sk: &SecretKey, sess: Option<u8>| KeyMaterialClientAuth::new(sk, &client_view(sess));
        let hdr: Option<HeaderValue> = match header {
            0 => None,
            1 => km(&a, session).map(|h| HeaderValue(h.enc())),                                           // honest
            2 => km(&a, Some(7)).map(|h| HeaderValue(h.enc())),                                            // another session's material (TLS proxy)
            3 => km(&a, session).map(|mut h| { h.public_key = k; HeaderValue(h.enc()) }),                  // names K, signed by A
            4 => km(&a, session).map(|mut h| { h.signature[5] ^= 1; HeaderValue(h.enc()) }),               // broken signature
            5 => Some(HeaderValue(b"!not-base64".to_vec())),
            6 => Some(HeaderValue(vec![1, 2, 3])),                                                         // decodes, does not deserialize
            _ => km(&b, session).map(|h| HeaderValue(h.enc())).filter(|_| holds_b),                        // the client's second key
        };
        let mut io = server_io;
        // the challenge the server will send is deterministic here (NONCE), so the client's answer can be prepared up front
        let challenge = { NONCE.with(|n| n.set(0)); let c = ServerChallenge::new(&mut rand::rng()); NONCE.with(|n| n.set(0)); c };
        let other = ServerChallenge { challenge: [7; 16] };
        let ans: Option<Bytes> = match answer {
            0 => None,                                                                                     // the client goes away
            1 => Some(frame(ClientAuth::new(&a, &challenge))),                                             // honest
            2 => Some(frame({ let mut c = ClientAuth::new(&a, &challenge); c.public_key = k; c })),        // names K, signed by A
            3 => Some(frame(ClientAuth::new(&a, &other))),                                                 // a signature over another challenge
            4 => Some(frame({ let mut c = ClientAuth::new(&a, &challenge); c.signature[9] ^= 4; c })),
            5 => Some(frame(ServerConfirmsAuth)),                                                          // a frame of the wrong type
            6 => Some(Bytes(vec![1, 0, 0])),                                                               // a ClientAuth frame that does not deserialize
            7 => Some(Bytes(vec![])),
            _ => if holds_b { Some(frame(ClientAuth::new(&b, &challenge))) } else { None },
        };
        if let Some(x) = ans.clone() { io.incoming.push_back(x); }
        let r = std::panic::catch_unwind(std::panic::AssertUnwindSafe(|| {
            let auth = block_on(serverside(&mut io, hdr.clone()));
            let auth = match auth { Err(e) => return (Err(e), io.sent.clone()), Ok(s) => s };
            let (key, mech) = (auth.client_key, auth.mechanism);
            let fin = match &access { None => Ok(key), Some(acc) => block_on(auth.authorize_if(acc.clone(), &mut io)) };
            (fin.map(|kk| (kk, key, mech)), io.sent.clone())
        }));
        let holds = |p: PublicKey| p == a.public() || (holds_b && p == b.public());
        match r {
            Err(_) => rep.fail("never-panics", "other", &input, "the server side of the handshake panicked".into()),
            Ok((res, sent)) => {
                let denied_frames = sent.iter().filter(|f| f.0.first() == Some(&(FrameType::ServerDeniesAuth as u8))).count();
                let confirm_frames = sent.iter().filter(|f| f.0.first() == Some(&(FrameType::ServerConfirmsAuth as u8))).count();
                match &res {
                    Ok((admitted, authenticated, mech)) => {
                        // identity K is reported only to a client that proved possession of K's secret key
                        if !holds(*authenticated) || !holds(*admitted) { rep.fail("identity-only-with-proof-of-possession", "other", &input, format!("authenticated as {:?} / admitted as {:?} ({:?}), but the client only holds {}", authenticated, admitted, mech, if holds_b { "A=10, B=11" } else { "A=10" })); }
                        if admitted != authenticated { rep.fail("identity-only-with-proof-of-possession", "other", &input, format!("authenticated {:?} but admitted {:?}", authenticated, admitted)); }
                        if matches!(access, Some(Access::Deny { .. })) { rep.fail("deny-means-never-admitted", "other", &input, "the access policy denied, yet the client was admitted".into()); }
                        if access == Some(Access::Allow) && (confirm_frames != 1 || denied_frames != 0) { rep.fail("admission-is-confirmed", "other", &input, format!("frames sent: {:?}", sent)); }
                    }
                    Err(e) => {
                        if matches!(access, Some(Access::Deny { .. })) && matches!(e, Error::ServerDeniedAuth { .. }) && (denied_frames != 1 || confirm_frames != 0) { rep.fail("denial-is-written", "other", &input, format!("frames sent: {:?}", sent)); }
                        if confirm_frames != 0 { rep.fail("deny-means-never-admitted", "other", &input, format!("the handshake failed with {:?}, yet a confirmation frame was sent", e)); }
                    }
                }
                // an honest client is authenticated as itself: with a working exporter through its header, otherwise through the challenge
                if header == 1 && session.is_some() && !matches!(&res, Ok((p, _, Mechanism::SignedKeyMaterial)) if *p == a.public()) && !matches!(access, Some(Access::Deny { .. })) { rep.fail("an-honest-client-is-authenticated", "key-material", &input, format!("result {:?}", res)); }
                if header == 0 && answer == 1 && !matches!(&res, Ok((p, _, Mechanism::SignedChallenge)) if *p == a.public()) && !matches!(access, Some(Access::Deny { .. })) { rep.fail("an-honest-client-is-authenticated", "challenge", &input, format!("result {:?}", res)); }
            }
        }
    } } } } }
    rep.finish();
}
