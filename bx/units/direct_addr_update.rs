//@unit direct_addr_update_bx props=C25
// C25 — bounded stand-in (NOT a proof): DirectAddrUpdateState::{new, schedule_run, try_run, run} (including the spawned run task)
// and the actor's reaction to the done signal (the `direct_addr_done_rx.recv()` arm of Actor::run), extracted verbatim, run
// under the controlled scheduler: every interleaving of the finishing run task (report stored, done signal, lock release)
// with the actor (update requests, reaction to the done signal).
#![allow(dead_code, unused_imports, unused_variables, unused_macros, unused_mut)]
macro_rules! trace { ($($t:tt)*) => { () }; }
macro_rules! debug { ($($t:tt)*) => { () }; }
macro_rules! info { ($($t:tt)*) => { () }; }
macro_rules! warn { ($($t:tt)*) => { () }; }
use std::sync::atomic::{AtomicBool, AtomicUsize, Ordering};
use std::sync::Arc;
use std::time::Duration;
//@include shims/sched.rs
// ---- harness instrumentation: the event log of report runs
pub static ACTIVE_RUNS: AtomicUsize = AtomicUsize::new(0);
pub static MAX_ACTIVE: AtomicUsize = AtomicUsize::new(0);
pub static EVENTS: std::sync::Mutex<Vec<String>> = std::sync::Mutex::new(Vec::new());
fn ev(s: String) { EVENTS.lock().unwrap().push(s); }
// shim: tokio::sync::Mutex (only try_lock_owned is used: nobody ever waits for this lock)
pub struct AsyncMutex<T> { locked: AtomicBool, v: std::cell::UnsafeCell<T> }
unsafe impl<T: Send> Sync for AsyncMutex<T> {}
unsafe impl<T: Send> Send for AsyncMutex<T> {}
impl<T> std::fmt::Debug for AsyncMutex<T> { fn fmt(&self, f: &mut std::fmt::Formatter<'_>) -> std::fmt::Result { f.write_str("AsyncMutex") } }
#[derive(Debug)] pub struct TryLockError;
impl<T> AsyncMutex<T> {
    pub fn new(v: T) -> Self { AsyncMutex { locked: AtomicBool::new(false), v: std::cell::UnsafeCell::new(v) } }
    pub fn try_lock_owned(self: Arc<Self>) -> Result<tokio::sync::OwnedMutexGuard<T>, TryLockError> {
        if self.locked.compare_exchange(false, true, Ordering::SeqCst, Ordering::SeqCst).is_ok() { Ok(tokio::sync::OwnedMutexGuard { m: self }) } else { Err(TryLockError) }
    }
}
pub mod tokio { pub mod sync {
    pub struct OwnedMutexGuard<T> { pub m: std::sync::Arc<super::super::AsyncMutex<T>> }
    impl<T> std::ops::Deref for OwnedMutexGuard<T> { type Target = T; fn deref(&self) -> &T { unsafe { &*self.m.v.get() } } }
    impl<T> std::ops::DerefMut for OwnedMutexGuard<T> { fn deref_mut(&mut self) -> &mut T { unsafe { &mut *self.m.v.get() } } }
    impl<T> Drop for OwnedMutexGuard<T> { fn drop(&mut self) { self.m.locked.store(false, std::sync::atomic::Ordering::SeqCst); super::super::ev("lock released".into()); } }
    unsafe impl<T: Send> Send for OwnedMutexGuard<T> {}
} }
// shim: tokio mpsc (capacity is never reached in the scenarios); after a message has become visible the sender can be
// pre-empted — that is the scheduling point
pub mod mpsc {
    use std::sync::{Arc, Mutex};
    #[derive(Debug)] pub struct Sender<T> { pub q: Arc<Mutex<std::collections::VecDeque<T>>> }
    impl<T> Clone for Sender<T> { fn clone(&self) -> Self { Sender { q: self.q.clone() } } }
    #[derive(Debug)] pub struct Receiver<T> { pub q: Arc<Mutex<std::collections::VecDeque<T>>> }
    #[derive(Debug)] pub struct SendError;
    pub fn channel<T>(_cap: usize) -> (Sender<T>, Receiver<T>) { let q = Arc::new(Mutex::new(std::collections::VecDeque::new())); (Sender { q: q.clone() }, Receiver { q }) }
    impl<T> Sender<T> { pub async fn send(&self, v: T) -> Result<(), SendError> { self.q.lock().unwrap().push_back(v); super::ev("done signal sent".into()); super::sched::unblock_all(); super::sched::yield_point(false); Ok(()) } }
    impl<T> Receiver<T> { pub fn try_recv(&mut self) -> Option<T> { self.q.lock().unwrap().pop_front() } }
}
// shim: tokio_util CancellationToken (shutdown is not part of the scenarios: never cancelled)
#[derive(Debug, Clone, Default)] pub struct CancellationToken;
impl CancellationToken {
    pub fn is_cancelled(&self) -> bool { false }
    pub fn child_token(&self) -> CancellationToken { CancellationToken }
    pub async fn run_until_cancelled<F: std::future::Future>(&self, f: F) -> Option<F::Output> { Some(f.await) }
}
pub mod time { #[derive(Debug)] pub struct Elapsed {} pub async fn timeout<F: std::future::Future>(_d: std::time::Duration, f: F) -> Result<F::Output, Elapsed> { Ok(f.await) } }
pub mod tracing { pub struct Span; impl Span { pub fn current() -> Span { Span } } }
pub trait Instrument: Sized { fn instrument(self, _s: tracing::Span) -> Self { self } }
impl<F: std::future::Future> Instrument for F {}
fn block_on<F: std::future::Future>(f: F) -> F::Output {
    let mut f = std::pin::pin!(f);
    let mut cx = std::task::Context::from_waker(std::task::Waker::noop());
    loop { if let std::task::Poll::Ready(v) = f.as_mut().poll(&mut cx) { return v; } std::thread::yield_now(); }
}
// shim: n0_future::task::spawn — the task becomes one more thread of the controlled scheduler
pub mod task { pub fn spawn<F: std::future::Future + Send + 'static>(f: F) { super::sched::spawn(Box::new(move || { super::block_on(f); })); } }
// shims: the socket's report watchable and metrics, the port mapper, the relay map, the interface state, the net reporter
#[derive(Debug, Default)] pub struct Watchable<T> { v: std::sync::Mutex<Option<T>> }
impl<T: std::fmt::Debug> Watchable<T> { pub fn set(&self, v: T) -> Result<(), ()> { ev(format!("report stored {v:?}")); *self.v.lock().unwrap() = Some(v); Ok(()) } }
#[derive(Debug, Default)] pub struct Counter; impl Counter { pub fn inc(&self) -> u64 { 0 } }
#[derive(Debug, Default)] pub struct NetReportMetrics { pub portmap_attempts: Counter }
#[derive(Debug, Default)] pub struct SocketMetrics { pub net_report: NetReportMetrics }
#[derive(Debug, Default)] pub struct Socket { pub net_report: Watchable<(Option<net_report::Report>, UpdateReason)>, pub metrics: SocketMetrics }
pub mod portmapper { #[derive(Debug, Default)] pub struct Client; impl Client { pub fn deactivate(&self) {} pub fn procure_mapping(&self) {} } }
#[derive(Debug, Default)] pub struct RelayMap; impl RelayMap { pub fn is_empty(&self) -> bool { false } }
#[derive(Debug, Clone, Default)] pub struct IfStateDetails;
#[derive(Debug, Clone, Default)] pub struct IfState; impl From<IfState> for IfStateDetails { fn from(_: IfState) -> Self { IfStateDetails } }
#[derive(Debug, Default)] pub struct IfWatcher; impl IfWatcher { pub fn get(&self) -> IfState { IfState } }
pub mod net_report {
    use std::sync::atomic::Ordering;
    #[derive(Debug)] pub struct Report;
    #[derive(Debug, Default)] pub struct Client { pub runs: usize }
    impl Client {
        /// one report run: started, (pre-emptible), finished
        pub async fn get_report(&mut self, _if_state: super::IfStateDetails, _is_major: bool, _t: super::CancellationToken) -> Report {
            let n = super::ACTIVE_RUNS.fetch_add(1, Ordering::SeqCst) + 1; super::MAX_ACTIVE.fetch_max(n, Ordering::SeqCst);
            self.runs += 1; super::ev(format!("report run {} started", self.runs));
            super::sched::yield_point(false);
            super::ACTIVE_RUNS.fetch_sub(1, Ordering::SeqCst); super::ev(format!("report run {} finished", self.runs));
            Report
        }
    }
}

//@item iroh/src/defaults.rs const NET_REPORT_TIMEOUT
//@item iroh/src/socket.rs enum UpdateReason derive=Debug,PartialEq,Eq,Clone,Copy
impl Default for UpdateReason { fn default() -> Self { UpdateReason::None } }   // the extractor drops the #[default] variant attribute
impl UpdateReason {
//@fn iroh/src/socket.rs UpdateReason::is_major
//@end
}
//@item iroh/src/socket.rs struct DirectAddrUpdateState derive=Debug
impl DirectAddrUpdateState {
//@fn iroh/src/socket.rs DirectAddrUpdateState::new
//@end
//@fn iroh/src/socket.rs DirectAddrUpdateState::schedule_run
//@end
//@fn iroh/src/socket.rs DirectAddrUpdateState::try_run
//@end
//@fn iroh/src/socket.rs DirectAddrUpdateState::run
//@end
}
// the actor, reduced to the fields its reaction to the done signal uses
pub struct Actor { pub local_interfaces_watcher: IfWatcher, pub direct_addr_update_state: DirectAddrUpdateState }
impl Actor {
//@arm iroh/src/socket.rs Actor::run name=done_arm
//@- reason = self.direct_addr_done_rx.recv() =>
//@| pub fn done_arm(&mut self, reason: Option<()>)
//@end
}
// @extra-items-here (helpers a change newly calls are spliced in above this line)
//@include shims/harness.rs

#[derive(Debug, Clone, Copy, PartialEq)] enum Op { Schedule(UpdateReason), React, Drain }

fn main() {
    std::panic::set_hook(Box::new(|_| {}));
    let args: Vec<String> = std::env::args().collect();
    let max_ops: usize = args.get(1).and_then(|s| s.parse().ok()).unwrap_or(3);
    let bound: usize = args.get(2).and_then(|s| s.parse().ok()).filter(|b| *b > 0).unwrap_or(usize::MAX);   // 0 = every schedule
    let mut rep = Rep::new(args.get(3).cloned());
    // actor scripts: update requests, single reactions to a done signal (if one is queued), and finally draining: reacting
    // to done signals until no run task is alive and the channel is empty
    let a = UpdateReason::Periodic; let b = UpdateReason::LinkChangeMajor; let c = UpdateReason::PortmapUpdated; let d = UpdateReason::RelayMapChange;
    let mut scripts: Vec<Vec<Op>> = vec![vec![Op::Schedule(a)], vec![Op::Schedule(a), Op::Schedule(b)], vec![Op::Schedule(a), Op::React, Op::Schedule(b)]];
    if max_ops >= 3 { scripts.push(vec![Op::Schedule(a), Op::Schedule(b), Op::Schedule(c)]); scripts.push(vec![Op::Schedule(a), Op::Schedule(b), Op::React, Op::Schedule(c)]); scripts.push(vec![Op::Schedule(a), Op::React, Op::Schedule(b), Op::React, Op::Schedule(c)]); }
    if max_ops >= 4 { scripts.push(vec![Op::Schedule(a), Op::Schedule(b), Op::React, Op::React, Op::Schedule(c), Op::Schedule(d)]); scripts.push(vec![Op::Schedule(a), Op::React, Op::Schedule(b), Op::Schedule(c), Op::React, Op::Schedule(d), Op::React]); }
    for sc in &scripts {
        // scripts with at most two requests: every schedule; longer ones: at most `bound` pre-emptive context switches
        sched::PREEMPTION_BOUND.store(if sc.iter().filter(|o| matches!(o, Op::Schedule(_))).count() >= 3 { bound } else { usize::MAX }, Ordering::Relaxed);
        let mut prefix: Vec<usize> = vec![];
        let base = format!("actor={:?}", sc);
        if let Some(o) = &rep.only { if !o.starts_with(&format!("{base} ")) { continue; } if let Some(p) = o.split("choices=").nth(1) { prefix = p.trim_matches(|c| c == '[' || c == ']').split(',').filter_map(|x| x.trim().parse().ok()).collect(); } }
        loop {
            ACTIVE_RUNS.store(0, Ordering::SeqCst); MAX_ACTIVE.store(0, Ordering::SeqCst); EVENTS.lock().unwrap().clear();
            let (tx, mut rx) = mpsc::channel::<()>(8);
            let state = DirectAddrUpdateState::new(Arc::new(Socket::default()), portmapper::Client, Arc::new(AsyncMutex::new(net_report::Client::default())), RelayMap, tx, CancellationToken);
            let pending: Arc<std::sync::Mutex<Option<Option<UpdateReason>>>> = Default::default();
            let (pending2, ops) = (pending.clone(), sc.clone());
            let actor_prog: Box<dyn FnOnce() + Send> = Box::new(move || {
                let mut actor = Actor { local_interfaces_watcher: IfWatcher, direct_addr_update_state: state };
                for op in ops.into_iter().chain([Op::Drain]) {
                    sched::yield_point(false);
                    match op {
                        Op::Schedule(why) => { ev(format!("update requested ({why:?})")); actor.direct_addr_update_state.schedule_run(why, IfStateDetails); }
                        Op::React => { if let Some(()) = rx.try_recv() { ev("actor reacts to done signal".into()); actor.done_arm(Some(())); } }
                        Op::Drain => loop {
                            if let Some(()) = rx.try_recv() { ev("actor reacts to done signal".into()); actor.done_arm(Some(())); sched::yield_point(false); continue; }
                            if sched::others_alive() == 0 { break; }
                            sched::yield_point(true);   // wait for a done signal (or for the last run task to end)
                        },
                    }
                }
                *pending2.lock().unwrap() = Some(actor.direct_addr_update_state.want_update);
            });
            let out = sched::run(vec![actor_prog], &prefix);
            let choices: Vec<usize> = out.trace.iter().map(|x| x.1).collect();
            let input = format!("{base} choices={:?}", choices);
            rep.evaluations += 1; if out.order.windows(2).any(|w| w[0] != w[1]) { rep.nontrivial += 1; }
            if rep.evaluations % 13 == 3 { rep.sample(&format!("{input} events={:?}", EVENTS.lock().unwrap())); }
            let events = EVENTS.lock().unwrap().clone();
            if out.deadlock { rep.fail("never-deadlocks", "other", &input, format!("no task can proceed; events {:?}", events)); }
            else if !out.panicked.is_empty() { rep.fail("never-panics", "other", &input, format!("task(s) {:?} panicked; events {:?}", out.panicked, events)); }
            else {
                if MAX_ACTIVE.load(Ordering::SeqCst) > 1 { rep.fail("at-most-one-report-runs", "other", &input, format!("{} report runs were active at the same time; events {:?}", MAX_ACTIVE.load(Ordering::SeqCst), events)); }
                // every run has finished and every done signal has been reacted to: an update that was requested while a run
                // was in progress must have been started by now
                if let Some(Some(why)) = *pending.lock().unwrap() {
                    rep.fail("requested-update-starts-when-the-run-finishes", "other", &input, format!("all runs have finished and all done signals were handled, but the update requested meanwhile ({why:?}) was never started; events {:?}", events));
                }
                // the update requested LAST is never overridden by a later request: whether it started a run itself or was parked behind a
                // running one, a report run for exactly that request must have taken place by now
                if let Some(Op::Schedule(last)) = sc.iter().rev().find(|o| matches!(o, Op::Schedule(_))) {
                    let tag = format!("report stored (Some(Report), {last:?})");
                    if !events.iter().any(|e| *e == tag) { rep.fail("requested-update-starts-when-the-run-finishes", "dropped", &input, format!("the update requested last ({last:?}) never ran: no report was produced for it; events {:?}", events)); }
                }
                // and it starts only after the previous run finished (implied by the lock; checked on the log)
                let mut active = false;
                for e in &events { if e.ends_with("started") { if active { rep.fail("at-most-one-report-runs", "log", &input, format!("a run started before the previous one finished; events {:?}", events)); } active = true; } if e.ends_with("finished") { active = false; } }
            }
            if rep.only.is_some() { break; }
            match sched::next_prefix(out.trace) { Some(p) => prefix = p, None => break }
        }
    }
    rep.finish();
}
