//@unit dns_records_bx props=C36
// C36 — bounded second line (NOT a proof) behind the Verus unit `dns_records`: signed_packet_to_hickory_records_without_origin,
// extracted verbatim, against executable stand-ins of hickory's Name / Label / Record / RecordSet (faithful about what the
// function relies on: `num_labels()` does not count a leading `*`, label iteration is double-ended), on every answer section
// of up to the bound records whose owner names are built from a label alphabet.
#![allow(dead_code, unused_imports, unused_variables, unused_macros, unused_mut)]
use std::collections::{BTreeMap, btree_map};
use std::sync::Arc;
#[derive(Debug)] pub struct ProtoError;
pub type Result<T, E> = std::result::Result<T, E>;
// shims: key and packet (the DNS payload is what the harness scripted)
#[derive(Debug, Clone, Copy, PartialEq, Eq)] pub struct PublicKey(pub u8);
impl PublicKey { pub fn to_z32(&self) -> String { format!("zkey{}", self.0) } }
#[derive(Debug, Clone)] pub struct SignedPacket { pub key: PublicKey, pub answers: Vec<Record> }
impl SignedPacket { pub fn public_key(&self) -> PublicKey { self.key } }
// shims: hickory proto
#[derive(Debug, Clone, Eq)] pub struct Label(pub Vec<u8>);
impl PartialEq for Label { fn eq(&self, o: &Self) -> bool { self.0.eq_ignore_ascii_case(&o.0) } }
impl Label { pub fn as_bytes(&self) -> &[u8] { &self.0 } pub fn from_utf8(s: &str) -> Result<Label, ProtoError> { if s.is_empty() || s.len() > 63 { Err(ProtoError) } else { Ok(Label(s.as_bytes().to_vec())) } } }
pub trait IntoLabel { fn into_label(self) -> Result<Label, ProtoError>; }
impl IntoLabel for &[u8] { fn into_label(self) -> Result<Label, ProtoError> { if self.is_empty() || self.len() > 63 { Err(ProtoError) } else { Ok(Label(self.to_vec())) } } }
#[derive(Debug, Clone, PartialEq, Eq, PartialOrd, Ord)] pub struct Name { pub labels: Vec<Vec<u8>>, pub fqdn: bool }
pub struct LabelIter<'a> { it: std::slice::Iter<'a, Vec<u8>> }
impl<'a> Iterator for LabelIter<'a> { type Item = &'a [u8]; fn next(&mut self) -> Option<&'a [u8]> { self.it.next().map(|v| &v[..]) } }
impl<'a> DoubleEndedIterator for LabelIter<'a> { fn next_back(&mut self) -> Option<&'a [u8]> { self.it.next_back().map(|v| &v[..]) } }
impl<'a> ExactSizeIterator for LabelIter<'a> {}
impl Name {
    pub fn iter(&self) -> LabelIter<'_> { LabelIter { it: self.labels.iter() } }
    /// hickory: the number of labels, NOT counting a leading wildcard label `*`
    pub fn num_labels(&self) -> u8 { let n = self.labels.len() as u8; if self.labels.first().is_some_and(|l| l == b"*") { n - 1 } else { n } }
    pub fn is_wildcard(&self) -> bool { self.labels.first().is_some_and(|l| l == b"*") }
    pub fn from_labels<I, L>(labels: I) -> Result<Name, ProtoError> where I: IntoIterator<Item = L>, L: IntoLabel { let mut v = vec![]; for l in labels { v.push(l.into_label()?.0); } Ok(Name { labels: v, fqdn: true }) }
    pub fn len(&self) -> usize { self.labels.iter().map(|l| l.len() + 1).sum::<usize>() + 1 }
    pub fn is_empty(&self) -> bool { self.labels.is_empty() }
}
#[derive(Debug, Clone, PartialEq, Eq, PartialOrd, Ord)] pub struct LowerName(pub Name);
impl From<Name> for LowerName { fn from(n: Name) -> Self { LowerName(Name { labels: n.labels.iter().map(|l| l.to_ascii_lowercase()).collect(), fqdn: n.fqdn }) } }
impl From<&Name> for LowerName { fn from(n: &Name) -> Self { n.clone().into() } }
#[derive(Debug, Clone, Copy, PartialEq, Eq, PartialOrd, Ord)] pub enum RecordType { A, AAAA, TXT, SOA, NS, CNAME }
#[derive(Debug, Clone, PartialEq, Eq)] pub struct Record { pub name: Name, pub rtype: RecordType, pub data: u32 }
impl Record { pub fn record_type(&self) -> RecordType { self.rtype } pub fn name(&self) -> &Name { &self.name } }
#[derive(Debug, Default)] pub struct Message { pub answers: Vec<Record> }
pub fn signed_packet_to_hickory_message(p: &SignedPacket) -> Result<Message, ProtoError> { Ok(Message { answers: p.answers.clone() }) }
#[derive(Debug, Clone, PartialEq, Eq, PartialOrd, Ord)] pub struct RrKey { pub name: LowerName, pub record_type: RecordType }
impl RrKey { pub fn new(name: LowerName, record_type: RecordType) -> Self { RrKey { name, record_type } } }
#[derive(Debug, Clone, PartialEq, Eq)] pub struct RecordSet { pub name: Name, pub rtype: RecordType, pub records: Vec<Record>, pub serial: u32 }
impl From<Record> for RecordSet { fn from(r: Record) -> Self { RecordSet { name: r.name.clone(), rtype: r.rtype, records: vec![r], serial: 0 } } }
impl RecordSet { pub fn serial(&self) -> u32 { self.serial } pub fn insert(&mut self, r: Record, _serial: u32) -> bool { if self.records.contains(&r) { false } else { self.records.push(r); true } } pub fn records_without_rrsigs(&self) -> impl Iterator<Item = &Record> { self.records.iter() } }

//@fn iroh-dns-server/src/util.rs signed_packet_to_hickory_records_without_origin
//@end
// @extra-items-here (helpers a change newly calls are spliced in above this line)
//@include shims/harness.rs

fn main() {
    std::panic::set_hook(Box::new(|_| {}));
    let args: Vec<String> = std::env::args().collect();
    let max_records: usize = args.get(1).and_then(|s| s.parse().ok()).unwrap_or(2);
    let max_labels: usize = args.get(2).and_then(|s| s.parse().ok()).filter(|n| *n > 0).unwrap_or(3);
    let mut rep = Rep::new(args.get(3).cloned());
    let key = PublicKey(1);
    let zone = key.to_z32();
    // owner names: sequences of at most `max_labels` labels from the alphabet
    let alphabet: Vec<&str> = vec![zone.as_str(), "zkey2", "_iroh", "*", "example", "ZKEY1"];
    let mut names: Vec<Vec<&str>> = vec![vec![]];
    let mut frontier: Vec<Vec<&str>> = vec![vec![]];
    for _ in 0..max_labels { let mut next = vec![]; for n in &frontier { for l in &alphabet { let mut m = n.clone(); m.push(*l); next.push(m); } } names.extend(next.iter().cloned()); frontier = next; }
    // keep the interesting ones: all names of at most 2 labels, and longer ones that mention the zone label or a wildcard
    let names: Vec<Vec<&str>> = names.into_iter().filter(|n| n.len() <= 2 || n.iter().any(|l| l.eq_ignore_ascii_case(&zone) || *l == "*")).collect();
    let types = [RecordType::TXT, RecordType::A, RecordType::SOA, RecordType::NS];
    let mut cands: Vec<(usize, RecordType)> = vec![];
    for ni in 0..names.len() { for t in types { cands.push((ni, t)); } }
    let nc = cands.len();
    let mk = |ni: usize, t: RecordType, data: u32| Record { name: Name { labels: names[ni].iter().map(|l| l.as_bytes().to_vec()).collect(), fqdn: true }, rtype: t, data };
    let show = |r: &Record| format!("{} {:?} #{}", if r.name.labels.is_empty() { ".".to_string() } else { r.name.labels.iter().map(|l| String::from_utf8_lossy(l).to_string()).collect::<Vec<_>>().join(".") }, r.rtype, r.data);
    let mut idx: Vec<usize> = vec![0];
    loop {
        // with more than one record only every 7th candidate is used for the later positions (the first ranges over all)
        let ok = idx.iter().skip(1).all(|i| i % 7 == 0);
        if ok {
            let answers: Vec<Record> = idx.iter().enumerate().map(|(k, i)| mk(cands[*i].0, cands[*i].1, 100 + k as u32)).collect();
            let input = format!("answers=[{}]", answers.iter().map(|r| show(r)).collect::<Vec<_>>().join(", "));
            if !rep.skip(&input) {
                rep.evaluations += 1; if answers.iter().any(|a| a.name.labels.len() >= 2) { rep.nontrivial += 1; }
                if answers.len() == 2 && idx[0] == 30 { rep.sample(&input); }
                let packet = SignedPacket { key, answers: answers.clone() };
                for accept_all in [true, false] {
                    let filter = |r: &Record| accept_all || r.data % 2 == 0;
                    match std::panic::catch_unwind(std::panic::AssertUnwindSafe(|| signed_packet_to_hickory_records_without_origin(&packet, filter))) {
                        Err(_) => rep.fail("never-panics", "other", &input, "the record filter panicked".into()),
                        Ok(Err(_)) => {}     // refusing the whole packet serves nothing
                        Ok(Ok((label, out))) => {
                            if label != Label(zone.as_bytes().to_vec()) { rep.fail("zone-is-the-signers-key", "other", &input, format!("zone label {:?}", String::from_utf8_lossy(&label.0))); }
                            // every record served is an answer of this packet that lies under the signer's zone label (its LAST label), is neither
                            // SOA nor NS, passed the caller's filter, and is filed under its owner name without that zone label
                            let served_ok = |a: &Record| a.name.labels.last().is_some_and(|l| l.eq_ignore_ascii_case(zone.as_bytes())) && !matches!(a.rtype, RecordType::SOA | RecordType::NS) && filter(a);
                            for (k, set) in out.iter() { for r in set.records_without_rrsigs() {
                                match answers.iter().find(|a| a.data == r.data && a.rtype == r.rtype) {
                                    None => rep.fail("serves-only-records-of-the-packet", "other", &input, format!("served {} which is not in the packet", show(r))),
                                    Some(a) => {
                                        if !served_ok(a) { rep.fail("serves-only-records-under-the-signers-zone", if a.name.is_wildcard() { "wildcard-name" } else { "other" }, &input, format!("served {} (from the packet's record {}), which is not under the zone {zone}, or is SOA/NS, or was rejected by the filter", show(r), show(a))); }
                                        else if !a.name.is_wildcard() && r.name.labels != a.name.labels[..a.name.labels.len() - 1] { rep.fail("filed-under-the-name-without-the-zone", "other", &input, format!("{} was filed as {}", show(a), show(r))); }
                                        if k.record_type != r.rtype || k.name != LowerName::from(&r.name) { rep.fail("filed-under-its-own-name-and-type", "other", &input, format!("{} is in the set keyed {:?}", show(r), k)); }
                                    }
                                }
                            } }
                            // and nothing that should be served is lost
                            for a in answers.iter().filter(|a| served_ok(a)) {
                                if !out.values().any(|s| s.records_without_rrsigs().any(|r| r.data == a.data && r.rtype == a.rtype)) { rep.fail("serves-every-record-under-the-signers-zone", "other", &input, format!("{} is missing from the zone", show(a))); }
                            }
                        }
                    }
                }
            }
        }
        let mut k = idx.len();
        loop { if k == 0 { idx = vec![0; idx.len() + 1]; break; } k -= 1; if idx[k] + 1 < nc { idx[k] += 1; for j in k + 1..idx.len() { idx[j] = 0; } break; } }
        if idx.len() > max_records { break; }
    }
    rep.finish();
}
