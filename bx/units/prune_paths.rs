//@unit prune_paths props=C23
// C23 — bounded stand-in (NOT a proof): prune_non_relay_paths is extracted verbatim from /repo on every run, compiled with
// rustc against the small std-only shims below and executed on EVERY path population up to the stated bound.  The function's
// body is an iterator/sort/HashSet/retain pipeline that neither Verus nor CBMC (hashbrown) can take.
#![allow(dead_code, unused_imports, unused_variables, unused_macros)]
// tracing macros (shim: logging has no bearing on the property)
macro_rules! trace { ($($t:tt)*) => { () }; }
macro_rules! debug { ($($t:tt)*) => { () }; }
macro_rules! info { ($($t:tt)*) => { () }; }
macro_rules! warn { ($($t:tt)*) => { () }; }
macro_rules! error { ($($t:tt)*) => { () }; }
use std::collections::{HashMap, HashSet};
use std::time::{Duration, Instant};
// shim: rustc_hash::FxHashMap is std's HashMap with another hasher
type FxHashMap<K, V> = HashMap<K, V>;
// shim: transports::Addr — only identity and "is a relay address" matter to pruning
mod transports {
    #[derive(Clone, PartialEq, Eq, Hash, Debug, PartialOrd, Ord)]
    pub enum Addr { Ip(u32), Relay(u32) }
    impl Addr { pub fn is_relay(&self) -> bool { matches!(self, Addr::Relay(_)) } }
}
#[derive(Clone, PartialEq, Eq, Hash, Debug)]
pub enum Source { App }

//@item iroh/src/socket/remote_map/remote_state/path_state.rs const MAX_NON_RELAY_PATHS
//@item iroh/src/socket/remote_map/remote_state/path_state.rs const MAX_INACTIVE_NON_RELAY_PATHS
//@item iroh/src/socket/remote_map/remote_state/path_state.rs enum PathStatus derive=Debug,Clone
//@item iroh/src/socket/remote_map/remote_state/path_state.rs struct PathState derive=Debug
//@fn iroh/src/socket/remote_map/remote_state/path_state.rs prune_non_relay_paths
//@end

// @extra-items-here (helpers a change newly calls are spliced in above this line)
#[derive(Clone, Copy, Debug, PartialEq, Eq)]
enum Kind { Open, Unknown, Inactive(u32), Unusable, Relay(u8) }   // Relay(status): 0 unknown, 1 open, 2 inactive, 3 unusable

struct Failure { obligation: &'static str, class: &'static str, input: String, detail: String }

fn main() {
    let args: Vec<String> = std::env::args().collect();
    let max_paths: u32 = args.get(1).and_then(|s| s.parse().ok()).unwrap_or(34);
    let max_relay: u32 = args.get(2).and_then(|s| s.parse().ok()).unwrap_or(1);
    // optional third argument: one recorded input ("open=0 unknown=0 inactive=1 unusable=29 relay=0 close_order=0") to replay
    let only: Option<Vec<u32>> = args.get(3).map(|s| s.split_whitespace().map(|kv| kv.split('=').nth(1).unwrap().parse().unwrap()).collect());
    let base = Instant::now();
    let mut evaluations: u64 = 0;
    let mut nontrivial: u64 = 0;
    let mut failures: Vec<Failure> = Vec::new();
    let mut fail_counts: HashMap<(&'static str, &'static str), u64> = HashMap::new();
    let mut samples: Vec<String> = Vec::new();
    // every population (open, unknown, inactive, unusable, relay) within the bound; inactive paths get distinct close times
    // relay paths come in every status (a relay path must never be pruned, whatever its status)
    for relay_status in 0..4u8 { for relay in 0..=max_relay {
        if relay == 0 && relay_status != 0 { continue; }
        for open in 0..=max_paths {
            for unknown in 0..=(max_paths - open) {
                for inactive in 0..=(max_paths - open - unknown) {
                    for unusable in 0..=(max_paths - open - unknown - inactive) {
                        if let Some(o) = &only {
                            if o[..5] != [open, unknown, inactive, unusable, relay] || (o.len() > 6 && o[6] != relay_status as u32) { continue; }
                        }
                        // two orders of close times relative to the address numbering (ascending / descending)
                        for order in 0..2u32 {
                            evaluations += 1;
                            let mut paths: FxHashMap<transports::Addr, PathState> = FxHashMap::default();
                            let mut kinds: HashMap<transports::Addr, Kind> = HashMap::new();
                            let mut n = 0u32;
                            let mut add = |paths: &mut FxHashMap<transports::Addr, PathState>, kinds: &mut HashMap<transports::Addr, Kind>, a: transports::Addr, k: Kind| {
                                let status = match k {
                                    Kind::Open => PathStatus::Open,
                                    Kind::Unknown | Kind::Relay(0) => PathStatus::Unknown,
                                    Kind::Relay(1) => PathStatus::Open,
                                    Kind::Relay(2) => PathStatus::Inactive(base + Duration::from_secs(5)),
                                    Kind::Relay(_) => PathStatus::Unusable,
                                    Kind::Inactive(t) => PathStatus::Inactive(base + Duration::from_secs(t as u64)),
                                    Kind::Unusable => PathStatus::Unusable,
                                };
                                paths.insert(a.clone(), PathState { sources: HashMap::new(), status });
                                kinds.insert(a, k);
                            };
                            for _ in 0..open { add(&mut paths, &mut kinds, transports::Addr::Ip(n), Kind::Open); n += 1; }
                            for _ in 0..unknown { add(&mut paths, &mut kinds, transports::Addr::Ip(n), Kind::Unknown); n += 1; }
                            for i in 0..inactive {
                                let t = if order == 0 { i + 1 } else { inactive - i };
                                add(&mut paths, &mut kinds, transports::Addr::Ip(n), Kind::Inactive(t)); n += 1;
                            }
                            for _ in 0..unusable { add(&mut paths, &mut kinds, transports::Addr::Ip(n), Kind::Unusable); n += 1; }
                            for r in 0..relay { add(&mut paths, &mut kinds, transports::Addr::Relay(r), Kind::Relay(relay_status)); }
                            let non_relay = open + unknown + inactive + unusable;
                            let total = non_relay + relay;
                            if non_relay >= 30 { nontrivial += 1; }
                            let input = format!("open={open} unknown={unknown} inactive={inactive} unusable={unusable} relay={relay} close_order={order} relay_status={relay_status}");
                            if samples.len() < 4 && non_relay >= 30 && inactive > 0 && unusable > 0 { samples.push(input.clone()); }

                            prune_non_relay_paths(&mut paths);

                            let kept = |k: fn(&Kind) -> bool| kinds.iter().filter(|(a, kk)| k(kk) && paths.contains_key(*a)).count() as u32;
                            let kept_open = kept(|k| matches!(k, Kind::Open));
                            let kept_unknown = kept(|k| matches!(k, Kind::Unknown));
                            let kept_relay = kept(|k| matches!(k, Kind::Relay(_)));
                            let kept_unusable = kept(|k| matches!(k, Kind::Unusable));
                            let mut kept_inactive_times: Vec<u32> = kinds.iter().filter_map(|(a, k)| match k { Kind::Inactive(t) if paths.contains_key(a) => Some(*t), _ => None }).collect();
                            kept_inactive_times.sort();
                            let mut fail = |obligation: &'static str, class: &'static str, detail: String| {
                                *fail_counts.entry((obligation, class)).or_insert(0) += 1;
                                if failures.iter().filter(|f| f.obligation == obligation && f.class == class).count() < 3 {
                                    failures.push(Failure { obligation, class, input: input.clone(), detail });
                                }
                            };
                            // (1) never removes an open path, a path of unknown status, or a relay path
                            if kept_open != open || kept_unknown != unknown || kept_relay != relay {
                                fail("never-removes-open-unknown-relay", "other", format!("kept open {kept_open}/{open} unknown {kept_unknown}/{unknown} relay {kept_relay}/{relay}"));
                            }
                            // (2) fewer than 30 non-relay paths: nothing is pruned
                            if non_relay < 30 && paths.len() as u32 != total {
                                fail("no-pruning-below-30", "other", format!("{} of {} paths left", paths.len(), total));
                            }
                            if non_relay >= 30 {
                                if unusable == total {
                                    // (3) every path has failed: exactly 30 are kept
                                    if paths.len() != 30 { fail("all-failed-keeps-30", "other", format!("{} paths left", paths.len())); }
                                } else {
                                    // (4) every path that failed hole punching is removed
                                    if kept_unusable != 0 { fail("removes-failed", "other", format!("{kept_unusable} of {unusable} failed paths kept")); }
                                    // (5) all but the 10 most recently closed paths are removed: the kept ones are exactly the min(10, n) most recent
                                    let want: Vec<u32> = ((inactive.saturating_sub(10) + 1)..=inactive).collect();
                                    if kept_inactive_times != want {
                                        // signature of the known defect: the min(10, n) OLDEST are pruned, i.e. the max(0, n-10) most recent are kept
                                        let buggy: Vec<u32> = ((inactive.min(10) + 1)..=inactive).collect();
                                        let class = if kept_inactive_times == buggy { "prunes-min(10,n)-oldest" } else { "other" };
                                        fail("keeps-10-most-recent-inactive", class, format!("kept close times {:?}, expected {:?}", kept_inactive_times, want));
                                    }
                                }
                            }
                            // (6) pruning never empties a non-empty path set
                            if total > 0 && paths.is_empty() {
                                // consequence of the same known defect when every path is failed or inactive and at most 10 are inactive
                                let class = if non_relay >= 30 && open == 0 && unknown == 0 && relay == 0 && inactive >= 1 && inactive <= 10 { "prunes-min(10,n)-oldest" } else { "other" };
                                fail("never-empties", class, format!("all {total} paths removed"));
                            }
                        }
                    }
                }
            }
        }
    } }
    // JSON by hand (std only)
    let esc = |s: &str| s.replace('\\', "\\\\").replace('"', "\\\"");
    let mut out = String::new();
    out += &format!("{{\"evaluations\": {evaluations}, \"nontrivial\": {nontrivial}, \"max_paths\": {max_paths}, \"max_relay\": {max_relay}, ");
    out += "\"samples\": [";
    out += &samples.iter().map(|s| format!("\"{}\"", esc(s))).collect::<Vec<_>>().join(", ");
    out += "], \"fail_counts\": [";
    let mut fc: Vec<_> = fail_counts.iter().collect();
    fc.sort();
    out += &fc.iter().map(|((o, c), n)| format!("{{\"obligation\": \"{o}\", \"class\": \"{c}\", \"count\": {n}}}")).collect::<Vec<_>>().join(", ");
    out += "], \"failures\": [";
    out += &failures.iter().map(|f| format!("{{\"obligation\": \"{}\", \"class\": \"{}\", \"input\": \"{}\", \"detail\": \"{}\"}}", f.obligation, f.class, esc(&f.input), esc(&f.detail))).collect::<Vec<_>>().join(", ");
    out += "]}";
    println!("{out}");
}
