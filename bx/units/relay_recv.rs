//@unit relay_recv_bx props=C17
// C17 — bounded second line (NOT a proof) behind the Verus unit `relay_recv`: RelayTransport::{poll_recv, poll_recv_queue} with
// Datagrams::take_segments, extracted verbatim, on every queue of relay datagram batches up to the bound, for several receive
// buffer sizes and slot counts, with a waker that counts its wake-ups.
#![allow(dead_code, unused_imports, unused_variables, unused_macros, unused_mut)]
macro_rules! trace { ($($t:tt)*) => { () }; }
macro_rules! debug { ($($t:tt)*) => { () }; }
macro_rules! warn { ($($t:tt)*) => { () }; }
macro_rules! error { ($($t:tt)*) => { () }; }
use std::collections::VecDeque;
use std::io;
use std::num::NonZeroU16;
use std::sync::Arc;
use std::sync::atomic::{AtomicUsize, Ordering};
use std::task::{Context, Poll, Wake, Waker};
// shim: bytes::Bytes (what take_segments and poll_recv use; split_to panics beyond the length like the real one)
#[derive(Debug, Clone, PartialEq, Eq, Default)]
pub struct Bytes(pub Vec<u8>);
impl Bytes {
    pub fn len(&self) -> usize { self.0.len() }
    pub fn is_empty(&self) -> bool { self.0.is_empty() }
    pub fn split_to(&mut self, at: usize) -> Bytes { assert!(at <= self.0.len(), "split_to out of bounds"); let rest = self.0.split_off(at); Bytes(std::mem::replace(&mut self.0, rest)) }
    pub fn split_off(&mut self, at: usize) -> Bytes { assert!(at <= self.0.len(), "split_off out of bounds"); Bytes(self.0.split_off(at)) }
    pub fn truncate(&mut self, n: usize) { self.0.truncate(n) }
}
impl AsRef<[u8]> for Bytes { fn as_ref(&self) -> &[u8] { &self.0 } }
impl std::ops::Deref for Bytes { type Target = [u8]; fn deref(&self) -> &[u8] { &self.0 } }
pub mod noq_proto { #[derive(Debug, Clone, Copy, PartialEq, Eq)] pub enum EcnCodepoint { Ect0 = 0b10, Ect1 = 0b01, Ce = 0b11 } }
pub mod noq_udp { #[derive(Debug, Clone, Default, PartialEq)] pub struct RecvMeta { pub len: usize, pub stride: usize, pub ecn: Option<super::noq_proto::EcnCodepoint>, pub dst_ip: Option<std::net::IpAddr> } }
#[derive(Debug, Clone, PartialEq, Eq)] pub struct RelayUrl(pub u8);
#[derive(Debug, Clone, Copy, PartialEq, Eq)] pub struct EndpointId(pub u8);
#[derive(Debug, Clone, PartialEq, Eq)] pub enum Addr { Relay(RelayUrl, EndpointId) }
impl From<(RelayUrl, EndpointId)> for Addr { fn from(v: (RelayUrl, EndpointId)) -> Self { Addr::Relay(v.0, v.1) } }
#[derive(Debug, Clone, PartialEq)] pub struct RecvInfo { pub remote: Option<Addr> }
impl RecvInfo { pub fn from_addr(remote: Addr) -> Self { RecvInfo { remote: Some(remote) } } }
// shim: tokio mpsc receiver — poll_recv hands out the next queued item; on an empty queue it keeps the waker (registered = true)
pub mod mpsc {
    pub struct Receiver<T> { pub q: std::collections::VecDeque<T>, pub closed: bool, pub registered: bool }
    impl<T> std::fmt::Debug for Receiver<T> { fn fmt(&self, f: &mut std::fmt::Formatter<'_>) -> std::fmt::Result { f.write_str("Receiver") } }
    impl<T> Receiver<T> {
        pub fn poll_recv(&mut self, _cx: &mut std::task::Context<'_>) -> std::task::Poll<Option<T>> {
            match self.q.pop_front() { Some(x) => std::task::Poll::Ready(Some(x)), None if self.closed => std::task::Poll::Ready(None), None => { self.registered = true; std::task::Poll::Pending } }
        }
    }
}

//@item iroh-relay/src/protos/relay.rs struct Datagrams derive=Debug,Clone,PartialEq,Eq
impl Datagrams {
//@fn iroh-relay/src/protos/relay.rs Datagrams::take_segments
//@end
}
//@item iroh/src/socket/transports/relay/actor.rs struct RelayRecvDatagram derive=Debug
//@item iroh/src/socket/transports/relay.rs struct RelayTransport keep=relay_datagram_recv_queue,pending_item derive=Debug
impl RelayTransport {
//@fn iroh/src/socket/transports/relay.rs RelayTransport::poll_recv
//@end
//@fn iroh/src/socket/transports/relay.rs RelayTransport::poll_recv_queue stripattrs
//@end
}
// @extra-items-here (helpers a change newly calls are spliced in above this line)
//@include shims/harness.rs

struct CountWaker(AtomicUsize);
impl Wake for CountWaker { fn wake(self: Arc<Self>) { self.0.fetch_add(1, Ordering::SeqCst); } fn wake_by_ref(self: &Arc<Self>) { self.0.fetch_add(1, Ordering::SeqCst); } }

fn main() {
    std::panic::set_hook(Box::new(|_| {}));
    let args: Vec<String> = std::env::args().collect();
    let max_batches: usize = args.get(1).and_then(|s| s.parse().ok()).unwrap_or(2);
    let mut rep = Rep::new(args.get(3).cloned());
    // a batch: (content length, segment size or 0)
    let mut batches: Vec<(usize, usize)> = vec![];
    for len in [0usize, 1, 3, 4, 5, 8, 9, 12] { for ss in [0usize, 1, 2, 4, 5, 9] { if ss == 0 || len > ss { batches.push((len, ss)); } } }
    let nb = batches.len();
    let mut idx: Vec<usize> = vec![];
    loop {
        let queue: Vec<(usize, usize)> = idx.iter().map(|i| batches[*i]).collect();
        for buf_len in [1usize, 4, 8, 16] { for slots in [1usize, 2, 3] {
            let input = format!("queue(len,segment)={:?} buffer={buf_len}B slots={slots}", queue);
            if rep.skip(&input) { continue; }
            rep.evaluations += 1; if queue.iter().any(|b| b.1 != 0) { rep.nontrivial += 1; }
            if queue.len() == 2 && buf_len == 4 && slots == 2 && rep.evaluations % 97 == 1 { rep.sample(&input); }
            let q2 = queue.clone();
            let out = std::panic::catch_unwind(move || {
                let mut next_byte = 0u8;
                let items: VecDeque<RelayRecvDatagram> = q2.iter().enumerate().map(|(k, (len, ss))| RelayRecvDatagram { url: RelayUrl(k as u8), src: EndpointId(100 + k as u8),
                    datagrams: Datagrams { ecn: None, segment_size: NonZeroU16::new(*ss as u16), contents: Bytes((0..*len).map(|_| { next_byte = next_byte.wrapping_add(1); next_byte }).collect()) } }).collect();
                let mut t = RelayTransport { relay_datagram_recv_queue: mpsc::Receiver { q: items, closed: false, registered: false }, pending_item: None };
                let cw = Arc::new(CountWaker(AtomicUsize::new(0)));
                let waker = Waker::from(cw.clone());
                let mut cx = Context::from_waker(&waker);
                let mut delivered: Vec<(u8, Vec<u8>)> = vec![];   // (source, datagram bytes) in the order handed to QUIC
                let mut trouble: Option<(&'static str, String)> = None;
                for round in 0..200 {
                    let mut storage: Vec<Vec<u8>> = (0..slots).map(|_| vec![0u8; buf_len]).collect();
                    let mut bufs: Vec<io::IoSliceMut<'_>> = storage.iter_mut().map(|b| io::IoSliceMut::new(b)).collect();
                    let mut metas = vec![noq_udp::RecvMeta::default(); slots];
                    let mut infos = vec![RecvInfo { remote: None }; slots];
                    let wakes_before = cw.0.load(Ordering::SeqCst);
                    t.relay_datagram_recv_queue.registered = false;
                    let input_before = t.relay_datagram_recv_queue.q.len() + t.pending_item.is_some() as usize;
                    let r = t.poll_recv(&mut cx, &mut bufs, &mut metas, &mut infos);
                    let input_after = t.relay_datagram_recv_queue.q.len() + t.pending_item.is_some() as usize;
                    drop(bufs);
                    match r {
                        Poll::Ready(Ok(n)) => {
                            if n == 0 || n > slots { trouble = Some(("reports-the-slots-it-filled", format!("poll {} returned Ready({n}) with {slots} slots", round + 1))); break; }
                            for i in 0..n {
                                let m = &metas[i];
                                if m.len > buf_len || m.stride == 0 && m.len > 0 { trouble = Some(("reports-the-slots-it-filled", format!("slot {i}: len {} stride {} in a {buf_len}-byte buffer", m.len, m.stride))); break; }
                                let src = match &infos[i].remote { Some(Addr::Relay(_, e)) => e.0, None => 0 };
                                let data = &storage[i][..m.len];
                                if m.len == 0 { delivered.push((src, vec![])); } else { for chunk in data.chunks(m.stride.max(1)) { delivered.push((src, chunk.to_vec())); } }
                            }
                            if trouble.is_some() { break; }
                        }
                        Poll::Ready(Err(_)) => { trouble = Some(("never-errors-while-the-queue-is-open", format!("poll {} returned an error", round + 1))); break; }
                        Poll::Pending => {
                            let woke = cw.0.load(Ordering::SeqCst) > wakes_before;
                            if input_after > 0 && !woke { trouble = Some(("pending-only-with-a-wake-up-registered", format!("poll {} returned Pending with input still queued and no wake-up", round + 1))); break; }
                            if input_after == 0 && !woke && !t.relay_datagram_recv_queue.registered { trouble = Some(("pending-only-with-a-wake-up-registered", format!("poll {} returned Pending on an empty queue without registering the waker", round + 1))); break; }
                            if input_after == 0 { break; }       // drained
                            if input_after == input_before && !woke { trouble = Some(("every-poll-makes-progress", format!("poll {} consumed nothing and returned Pending", round + 1))); break; }
                        }
                    }
                    if round == 199 { trouble = Some(("every-poll-makes-progress", "still not drained after 200 polls".into())); }
                }
                (delivered, trouble)
            });
            match out {
                Err(_) => rep.fail("never-panics", "other", &input, "poll_recv panicked".into()),
                Ok((delivered, trouble)) => {
                    if let Some((ob, d)) = trouble { rep.fail(ob, "other", &input, d); continue; }
                    // every datagram that fits the buffer, in arrival order, exactly once; those that do not fit are dropped
                    let mut want: Vec<(u8, Vec<u8>)> = vec![]; let mut b = 0u8;
                    for (k, (len, ss)) in queue.iter().enumerate() {
                        let bytes: Vec<u8> = (0..*len).map(|_| { b = b.wrapping_add(1); b }).collect();
                        let chunks: Vec<Vec<u8>> = if *ss == 0 { vec![bytes] } else { bytes.chunks(*ss).map(|c| c.to_vec()).collect() };
                        for c in chunks { if c.len() <= buf_len { want.push((100 + k as u8, c)); } }
                    }
                    if delivered != want { rep.fail("hands-over-every-fitting-datagram-in-order-once", "other", &input, format!("handed to QUIC: {:?}; expected {:?}", delivered, want)); }
                }
            }
        } }
        let mut k = idx.len();
        loop { if k == 0 { idx = vec![0; idx.len() + 1]; break; } k -= 1; if idx[k] + 1 < nb { idx[k] += 1; for j in k + 1..idx.len() { idx[j] = 0; } break; } }
        if idx.len() > max_batches { break; }
    }
    rep.finish();
}
