//@unit home_relay_watch_bx props=C26
// C26 — bounded stand-in (NOT a proof): HomeRelayWatch::{default, set, clear, set_status, get} with RelayStatus and
// RelayConnectionState (incl. its PartialEq), extracted verbatim, run under the controlled scheduler: every interleaving of the
// relay actor choosing a new home relay with status updates of the demoted and of the new relay connection.  Scheduling points
// are the accesses to the shared watchable (each get and each set is atomic, as in n0_watcher).
#![allow(dead_code, unused_imports, unused_variables, unused_macros, unused_mut)]
//@include shims/sched.rs
// `std::sync::Mutex` / `std::sync::RwLock` written out in the extracted code must be the scheduler-aware shims (a thread that
// blocked inside a real lock would stall the controlled scheduler): this local `std` forwards everything else to the real one
mod std { pub use ::std::*; pub mod sync { pub use ::std::sync::*; pub use crate::sched::Mutex2 as Mutex; pub use crate::sched::RwLock; } }
use ::std::sync::Arc;
// shim: n0_watcher::Watchable — get() clones under the read lock; set() compares and replaces under the write lock
#[derive(Debug)] pub struct Watchable<T> { v: Arc<sched::RwLock<T>> }
impl<T> Clone for Watchable<T> { fn clone(&self) -> Self { Watchable { v: self.v.clone() } } }
impl<T: Clone + Eq> Watchable<T> {
    pub fn new(value: T) -> Self { Watchable { v: Arc::new(sched::RwLock::new(value)) } }
    pub fn get(&self) -> T { self.v.read().unwrap().clone() }
    pub fn set(&self, value: T) -> Result<T, T> { let mut g = self.v.write().unwrap(); if *g != value { Ok(std::mem::replace(&mut *g, value)) } else { Err(value) } }
}
#[derive(Debug, Clone, PartialEq, Eq, Hash, PartialOrd, Ord)] pub struct RelayUrl(pub u8);
#[derive(Debug)] pub struct AnyError;
//@item iroh/src/socket/transports/relay/actor.rs enum RelayConnectionState derive=Debug,Clone
impl RelayConnectionState {
//@fn iroh/src/socket/transports/relay/actor.rs RelayConnectionState::is_connected
//@end
}
impl PartialEq for RelayConnectionState {
//@fn iroh/src/socket/transports/relay/actor.rs PartialEq@RelayConnectionState::eq
//@end
}
impl Eq for RelayConnectionState {}
//@item iroh/src/endpoint.rs struct RelayStatus derive=Debug,Clone,PartialEq,Eq
impl RelayStatus {
//@fn iroh/src/endpoint.rs RelayStatus::new
//@end
//@fn iroh/src/endpoint.rs RelayStatus::url
//@end
//@fn iroh/src/endpoint.rs RelayStatus::is_connected
//@end
}
//@item iroh/src/socket/transports/relay/actor.rs struct HomeRelayWatch derive=Debug,Clone
impl Default for HomeRelayWatch {
//@fn iroh/src/socket/transports/relay/actor.rs Default@HomeRelayWatch::default
//@end
}
impl HomeRelayWatch {
//@fn iroh/src/socket/transports/relay/actor.rs HomeRelayWatch::set
//@end
//@fn iroh/src/socket/transports/relay/actor.rs HomeRelayWatch::clear
//@end
//@fn iroh/src/socket/transports/relay/actor.rs HomeRelayWatch::set_status
//@end
//@fn iroh/src/socket/transports/relay/actor.rs HomeRelayWatch::get
//@end
}
// @extra-items-here (helpers a change newly calls are spliced in above this line)
//@include shims/harness.rs

#[derive(Debug, Clone, Copy, PartialEq)] enum St { Connecting, Connected, Disconnected }
fn mk(s: St) -> RelayConnectionState { match s { St::Connecting => RelayConnectionState::Connecting, St::Connected => RelayConnectionState::Connected, St::Disconnected => RelayConnectionState::Disconnected { last_error: None } } }
// what the relay actor does (chooses a home relay / none) and what a relay connection does (reports its status under its own URL)
#[derive(Debug, Clone, Copy, PartialEq)] enum Op { Home(u8), NoHome, Status(u8, St) }
struct Scenario { initial_home: Option<u8>, threads: Vec<Vec<Op>> }

fn main() {
    std::panic::set_hook(Box::new(|_| {}));
    let args: Vec<String> = std::env::args().collect();
    let max_threads: usize = args.get(1).and_then(|s| s.parse().ok()).unwrap_or(2);
    let bound: usize = args.get(2).and_then(|s| s.parse().ok()).filter(|b| *b > 0).unwrap_or(usize::MAX);
    let mut rep = Rep::new(args.get(3).cloned());
    let mut scenarios: Vec<Scenario> = vec![];
    for old_status in [St::Connected, St::Disconnected, St::Connecting] {
        // relay 1 is home; the actor moves home to relay 2 while connection 1 reports a status
        scenarios.push(Scenario { initial_home: Some(1), threads: vec![vec![Op::Home(2)], vec![Op::Status(1, old_status)]] });
        scenarios.push(Scenario { initial_home: Some(1), threads: vec![vec![Op::Home(2)], vec![Op::Status(1, old_status), Op::Status(1, St::Connected)]] });
        scenarios.push(Scenario { initial_home: Some(1), threads: vec![vec![Op::NoHome], vec![Op::Status(1, old_status)]] });
        scenarios.push(Scenario { initial_home: Some(1), threads: vec![vec![Op::Home(2), Op::Home(1)], vec![Op::Status(1, old_status)]] });
        scenarios.push(Scenario { initial_home: None, threads: vec![vec![Op::Home(2)], vec![Op::Status(1, old_status)]] });
        if max_threads >= 3 {
            scenarios.push(Scenario { initial_home: Some(1), threads: vec![vec![Op::Home(2)], vec![Op::Status(1, old_status)], vec![Op::Status(2, St::Connected)]] });
            scenarios.push(Scenario { initial_home: Some(1), threads: vec![vec![Op::Home(2), Op::Home(3)], vec![Op::Status(1, old_status)], vec![Op::Status(2, St::Connected), Op::Status(2, St::Disconnected)]] });
        }
    }
    for sc in &scenarios {
        sched::PREEMPTION_BOUND.store(if sc.threads.len() >= 3 { bound } else { usize::MAX }, std::sync::atomic::Ordering::Relaxed);
        let mut prefix: Vec<usize> = vec![];
        let base = format!("home={:?} threads={:?}", sc.initial_home, sc.threads);
        if let Some(o) = &rep.only { if !o.starts_with(&format!("{base} ")) { continue; } if let Some(p) = o.split("choices=").nth(1) { prefix = p.trim_matches(|c| c == '[' || c == ']').split(',').filter_map(|x| x.trim().parse().ok()).collect(); } }
        loop {
            let watch = HomeRelayWatch::default();
            if let Some(h) = sc.initial_home { watch.set(RelayUrl(h), mk(St::Connecting)); watch.set_status(&RelayUrl(h), mk(St::Connected)); }
            // the log of completed steps: (thread, op) in the order they returned
            let log: Arc<::std::sync::Mutex<Vec<Op>>> = Default::default();
            let mut progs: Vec<Box<dyn FnOnce() + Send>> = vec![];
            for t in &sc.threads {
                let (w, ops, log2) = (watch.clone(), t.clone(), log.clone());
                progs.push(Box::new(move || { for op in ops {
                    match op { Op::Home(u) => w.set(RelayUrl(u), mk(St::Connecting)), Op::NoHome => w.clear(), Op::Status(u, s) => w.set_status(&RelayUrl(u), mk(s)) }
                    log2.lock().unwrap().push(op);
                } }));
            }
            let out = sched::run(progs, &prefix);
            let choices: Vec<usize> = out.trace.iter().map(|x| x.1).collect();
            let input = format!("{base} choices={:?}", choices);
            rep.evaluations += 1; if out.order.windows(2).any(|w| w[0] != w[1]) { rep.nontrivial += 1; }
            if rep.evaluations % 37 == 5 { rep.sample(&format!("{input} completed={:?}", log.lock().unwrap())); }
            if out.deadlock { rep.fail("never-deadlocks", "other", &input, "no thread can proceed".into()); }
            else if !out.panicked.is_empty() { rep.fail("never-panics", "other", &input, format!("thread(s) {:?} panicked", out.panicked)); }
            else {
                // the relay most recently chosen as home = the last Home/NoHome step of the relay actor (a single thread)
                let chosen: Option<u8> = sc.threads[0].iter().rev().find_map(|o| match o { Op::Home(u) => Some(Some(*u)), Op::NoHome => Some(None), _ => None }).unwrap_or(sc.initial_home);
                let got = watch.get();
                let got_url = got.as_ref().map(|s| s.url().0);
                if got_url != chosen {
                    rep.fail("advertised-home-is-the-one-chosen-last", "other", &input, format!("the relay actor last chose {:?} as home, but the advertised home relay is {:?} ({:?}); steps completed in the order {:?}", chosen, got_url, got, log.lock().unwrap()));
                }
            }
            if rep.only.is_some() { break; }
            match sched::next_prefix(out.trace) { Some(p) => prefix = p, None => break }
        }
    }
    rep.finish();
}
