//@unit relay_codec_bx props=C10
// C10 — bounded second line (NOT a proof) behind the Verus unit `relay_codec`, and the only line for what that unit leaves
// undecided (RelayToClientMsg::write_to and the byte-level round trip of the relay-to-client messages): the codec functions of
// protos/relay.rs and protos/common.rs and the client sink's size check, extracted verbatim, on message families in both
// directions, on every short byte string and on mutations of valid encodings.
#![allow(dead_code, unused_imports, unused_variables, unused_macros, unused_mut)]
macro_rules! trace { ($($t:tt)*) => { () }; }
macro_rules! debug { ($($t:tt)*) => { () }; }
macro_rules! warn { ($($t:tt)*) => { () }; }
// shims: n0_error — e!(Variant) / e!(Variant { fields }) / e!(Variant, source) build the error value (location meta dropped),
// ensure!(cond, err) returns Err(err.into()) when the condition is false
macro_rules! e {
    ($($p:ident)::+, $src:expr) => { $($p)::+ { source: $src } };
    ($($t:tt)*) => { $($t)* };
}
macro_rules! ensure { ($cond:expr, $($err:tt)*) => { if !($cond) { return Err(e!($($err)*).into()); } }; }
use std::num::NonZeroU16;
use std::pin::Pin;
use std::time::Duration;
// shim: bytes::{Bytes, BytesMut, Buf, BufMut} — byte-level put/get semantics, big-endian integers, panics like the real crate
pub mod bytes {
    #[derive(Debug, Clone, PartialEq, Eq, Default, PartialOrd, Ord)]
    pub struct Bytes(pub Vec<u8>);
    #[derive(Debug, Clone, PartialEq, Eq, Default)]
    pub struct BytesMut(pub Vec<u8>);
    pub trait Buf {
        fn remaining(&self) -> usize;
        fn get_u8(&mut self) -> u8;
        fn has_remaining(&self) -> bool { self.remaining() > 0 }
        fn get_u16(&mut self) -> u16 { let a = self.get_u8(); let b = self.get_u8(); u16::from_be_bytes([a, b]) }
    }
    impl Bytes {
        pub fn new() -> Self { Bytes(vec![]) }
        pub fn len(&self) -> usize { self.0.len() }
        pub fn is_empty(&self) -> bool { self.0.is_empty() }
        pub fn copy_from_slice(s: &[u8]) -> Self { Bytes(s.to_vec()) }
        pub fn slice(&self, r: impl std::ops::RangeBounds<usize>) -> Bytes {
            let lo = match r.start_bound() { std::ops::Bound::Included(x) => *x, std::ops::Bound::Excluded(x) => *x + 1, std::ops::Bound::Unbounded => 0 };
            let hi = match r.end_bound() { std::ops::Bound::Included(x) => *x + 1, std::ops::Bound::Excluded(x) => *x, std::ops::Bound::Unbounded => self.0.len() };
            assert!(lo <= hi && hi <= self.0.len(), "range out of bounds");
            Bytes(self.0[lo..hi].to_vec())
        }
    }
    impl Buf for Bytes {
        fn remaining(&self) -> usize { self.0.len() }
        fn get_u8(&mut self) -> u8 { assert!(!self.0.is_empty(), "buffer underflow"); self.0.remove(0) }
    }
    impl<B: Buf> Buf for &mut B { fn remaining(&self) -> usize { (**self).remaining() } fn get_u8(&mut self) -> u8 { (**self).get_u8() } }
    impl AsRef<[u8]> for Bytes { fn as_ref(&self) -> &[u8] { &self.0 } }
    impl std::ops::Deref for Bytes { type Target = [u8]; fn deref(&self) -> &[u8] { &self.0 } }
    impl From<Vec<u8>> for Bytes { fn from(v: Vec<u8>) -> Self { Bytes(v) } }
    impl From<&str> for Bytes { fn from(v: &str) -> Self { Bytes(v.as_bytes().to_vec()) } }
    pub trait BufMut {
        fn put_u8(&mut self, v: u8);
        fn put_u16(&mut self, v: u16) { for b in v.to_be_bytes() { self.put_u8(b); } }
        fn put_u32(&mut self, v: u32) { for b in v.to_be_bytes() { self.put_u8(b); } }
        fn put(&mut self, src: &[u8]) { for b in src { self.put_u8(*b); } }
        fn put_slice(&mut self, src: &[u8]) { self.put(src) }
    }
    impl BytesMut {
        pub fn new() -> Self { BytesMut(vec![]) }
        pub fn with_capacity(n: usize) -> Self { BytesMut(Vec::with_capacity(n)) }
        pub fn freeze(self) -> Bytes { Bytes(self.0) }
        pub fn len(&self) -> usize { self.0.len() }
    }
    impl BufMut for BytesMut { fn put_u8(&mut self, v: u8) { self.0.push(v); } fn put(&mut self, src: &[u8]) { self.0.extend_from_slice(src); } }
    impl BufMut for Vec<u8> { fn put_u8(&mut self, v: u8) { self.push(v); } fn put(&mut self, src: &[u8]) { self.extend_from_slice(src); } }
    impl<B: BufMut> BufMut for &mut B { fn put_u8(&mut self, v: u8) { (**self).put_u8(v) } fn put(&mut self, src: &[u8]) { (**self).put(src) } }
}
use bytes::{Buf, BufMut, Bytes, BytesMut};
// shim: noq_proto — the QUIC variable-length integer (RFC 9000 §16: two length bits, big endian) and the ECN code points
pub mod noq_proto {
    #[derive(Debug, Clone, Copy, PartialEq, Eq)] pub struct VarInt(pub u64);
    impl From<u32> for VarInt { fn from(v: u32) -> Self { VarInt(v as u64) } }
    impl From<VarInt> for u64 { fn from(v: VarInt) -> u64 { v.0 } }
    #[derive(Debug, Clone, Copy, PartialEq, Eq)] pub enum EcnCodepoint { Ect0 = 0b10, Ect1 = 0b01, Ce = 0b11 }
    impl EcnCodepoint { pub fn from_bits(x: u8) -> Option<Self> { match x { 0b10 => Some(Self::Ect0), 0b01 => Some(Self::Ect1), 0b11 => Some(Self::Ce), _ => None } } }
    pub mod coding {
        use super::VarInt;
        use crate::bytes::{Buf, BufMut};
        #[derive(Debug, Clone, Copy, PartialEq, Eq)] pub struct UnexpectedEnd;
        pub trait Decodable: Sized { fn decode<B: Buf>(buf: &mut B) -> Result<Self, UnexpectedEnd>; }
        pub trait Encodable { fn encode<B: BufMut>(&self, buf: &mut B); }
        impl Decodable for VarInt {
            fn decode<B: Buf>(r: &mut B) -> Result<Self, UnexpectedEnd> {
                if !r.has_remaining() { return Err(UnexpectedEnd); }
                let first = r.get_u8();
                let n = 1usize << (first >> 6);
                if r.remaining() < n - 1 { return Err(UnexpectedEnd); }
                let mut v = (first & 0x3f) as u64;
                for _ in 1..n { v = (v << 8) | r.get_u8() as u64; }
                Ok(VarInt(v))
            }
        }
        impl Encodable for VarInt {
            fn encode<B: BufMut>(&self, w: &mut B) {
                let x = self.0;
                if x < 1 << 6 { w.put_u8(x as u8) } else if x < 1 << 14 { w.put_u16(0b01 << 14 | x as u16) } else if x < 1 << 30 { w.put_u32(0b10 << 30 | x as u32) }
                else { w.put_u32((0b11u32 << 30) | (x >> 32) as u32); w.put_u32(x as u32) }
            }
        }
    }
}
use noq_proto::{VarInt, coding::{Decodable, Encodable, UnexpectedEnd}};
// shims: endpoint ids (32 bytes; "a valid curve point" stands for "first byte is not 0xEE") and the key cache
#[derive(Debug, Clone, Copy, PartialEq, Eq, Hash)] pub struct EndpointId(pub [u8; 32]);
impl EndpointId { pub const LENGTH: usize = 32; }
impl AsRef<[u8]> for EndpointId { fn as_ref(&self) -> &[u8] { &self.0 } }
#[derive(Debug, Clone, PartialEq, Eq)] pub struct KeyParsingError;
#[derive(Debug, Default)] pub struct KeyCache;
impl KeyCache { pub fn key_from_slice(&self, s: &[u8]) -> Result<EndpointId, KeyParsingError> { let a: [u8; 32] = s.try_into().map_err(|_| KeyParsingError)?; if a[0] == 0xEE { Err(KeyParsingError) } else { Ok(EndpointId(a)) } } }
// shims: the error enums of protos (their stack_error derive, location meta and From conversions)
#[derive(Debug, Clone, PartialEq, Eq)] pub enum FrameTypeError { UnexpectedEnd { source: UnexpectedEnd }, UnknownFrameType { tag: VarInt } }
#[derive(Debug, Clone, PartialEq, Eq)]
pub enum Error { UnexpectedFrame { got: FrameType, expected: FrameType }, FrameTooLarge { frame_len: usize }, FrameTypeError { source: FrameTypeError }, InvalidPublicKey { source: KeyParsingError },
                 InvalidFrame, InvalidFrameType { frame_type: FrameType }, InvalidProtocolMessageEncoding { source: std::str::Utf8Error }, FrameNotAllowedInVersion, TooSmall }
impl From<FrameTypeError> for Error { fn from(source: FrameTypeError) -> Self { Error::FrameTypeError { source } } }
impl From<KeyParsingError> for Error { fn from(source: KeyParsingError) -> Self { Error::InvalidPublicKey { source } } }
impl From<std::str::Utf8Error> for Error { fn from(source: std::str::Utf8Error) -> Self { Error::InvalidProtocolMessageEncoding { source } } }
#[derive(Debug, Clone, PartialEq, Eq)] pub struct WsError;
#[derive(Debug, Clone, PartialEq, Eq)] pub enum SendError { StreamError { source: WsError }, ExceedsMaxPacketSize { size: usize }, EmptyPacket }
impl From<WsError> for SendError { fn from(source: WsError) -> Self { SendError::StreamError { source } } }
// shims: what num_enum::IntoPrimitive and strum::FromRepr derive for FrameType
impl From<FrameType> for u32 { fn from(v: FrameType) -> u32 { v as u32 } }
pub const ALL_FRAME_TYPES: [FrameType; 14] = [FrameType::ServerChallenge, FrameType::ClientAuth, FrameType::ServerConfirmsAuth, FrameType::ServerDeniesAuth, FrameType::ClientToRelayDatagram,
    FrameType::ClientToRelayDatagramBatch, FrameType::RelayToClientDatagram, FrameType::RelayToClientDatagramBatch, FrameType::EndpointGone, FrameType::Ping, FrameType::Pong, FrameType::Health,
    FrameType::Restarting, FrameType::Status];
impl FrameType { pub fn from_repr(x: u32) -> Option<FrameType> { ALL_FRAME_TYPES.iter().copied().find(|v| *v as u32 == x) } }

//@item iroh-relay/src/protos/common.rs enum FrameType stripattrs derive=Copy,Clone,PartialEq,Eq,Debug
impl FrameType {
//@fn iroh-relay/src/protos/common.rs FrameType::write_to
//@end
//@fn iroh-relay/src/protos/common.rs FrameType::encoded_len
//@end
//@fn iroh-relay/src/protos/common.rs FrameType::from_bytes
//@end
}
impl From<FrameType> for VarInt {
//@fn iroh-relay/src/protos/common.rs From<FrameType>@VarInt::from
//@end
}
//@item iroh-relay/src/http.rs enum ProtocolVersion stripattrs derive=Debug,Clone,Copy,PartialEq,Eq,PartialOrd,Ord,Hash
//@item iroh-relay/src/protos/relay.rs const MAX_PACKET_SIZE
//@item iroh-relay/src/protos/relay.rs enum RelayToClientMsg stripattrs derive=Debug,Clone,PartialEq,Eq
//@item iroh-relay/src/protos/relay.rs enum Status stripattrs derive=Debug,Clone,PartialEq,Eq
//@item iroh-relay/src/protos/relay.rs enum ClientToRelayMsg stripattrs derive=Debug,Clone,PartialEq,Eq
//@item iroh-relay/src/protos/relay.rs struct Datagrams derive=Debug,Clone,PartialEq,Eq
impl Status {
//@fn iroh-relay/src/protos/relay.rs Status::write_to stripattrs
//@end
//@fn iroh-relay/src/protos/relay.rs Status::encoded_len stripattrs
//@end
//@fn iroh-relay/src/protos/relay.rs Status::from_bytes
//@end
}
impl Datagrams {
//@fn iroh-relay/src/protos/relay.rs Datagrams::write_to
//@end
//@fn iroh-relay/src/protos/relay.rs Datagrams::encoded_len
//@end
//@fn iroh-relay/src/protos/relay.rs Datagrams::from_bytes stripattrs
//@end
}
impl RelayToClientMsg {
//@fn iroh-relay/src/protos/relay.rs RelayToClientMsg::typ
//@end
//@fn iroh-relay/src/protos/relay.rs RelayToClientMsg::to_bytes stripattrs
//@end
//@fn iroh-relay/src/protos/relay.rs RelayToClientMsg::write_to stripattrs
//@end
//@fn iroh-relay/src/protos/relay.rs RelayToClientMsg::encoded_len stripattrs
//@end
//@fn iroh-relay/src/protos/relay.rs RelayToClientMsg::from_bytes stripattrs
//@end
}
impl ClientToRelayMsg {
//@fn iroh-relay/src/protos/relay.rs ClientToRelayMsg::typ
//@end
//@fn iroh-relay/src/protos/relay.rs ClientToRelayMsg::to_bytes
//@end
//@fn iroh-relay/src/protos/relay.rs ClientToRelayMsg::write_to
//@end
//@fn iroh-relay/src/protos/relay.rs ClientToRelayMsg::encoded_len
//@end
//@fn iroh-relay/src/protos/relay.rs ClientToRelayMsg::from_bytes stripattrs
//@end
}
// the client's connection: the websocket sink underneath takes whole binary frames (it records them here)
pub trait Sink<T> { type Error; fn start_send(self: Pin<&mut Self>, item: T) -> Result<(), Self::Error>; }
#[derive(Debug, Default)] pub struct WsSink { pub sent: Vec<Bytes> }
impl Sink<Bytes> for WsSink { type Error = WsError; fn start_send(mut self: Pin<&mut Self>, item: Bytes) -> Result<(), WsError> { self.sent.push(item); Ok(()) } }
#[derive(Debug, Default)] pub struct Conn { pub conn: WsSink }
impl Sink<ClientToRelayMsg> for Conn {
    type Error = SendError;
//@fn iroh-relay/src/client/conn.rs Sink<ClientToRelayMsg>@Conn::start_send
//@end
}
// @extra-items-here (helpers a change newly calls are spliced in above this line)
//@include shims/harness.rs

fn key(b: u8) -> EndpointId { let mut a = [b; 32]; a[31] = b.wrapping_add(1); EndpointId(a) }
fn quiet<T>(f: impl FnOnce() -> T) -> Result<T, ()> { std::panic::catch_unwind(std::panic::AssertUnwindSafe(f)).map_err(|_| ()) }

fn main() {
    std::panic::set_hook(Box::new(|_| {}));
    let args: Vec<String> = std::env::args().collect();
    let short_len: usize = args.get(1).and_then(|s| s.parse().ok()).unwrap_or(2);
    let mut rep = Rep::new(args.get(3).cloned());
    let cache = KeyCache;
    let ecns = [None, Some(noq_proto::EcnCodepoint::Ect0), Some(noq_proto::EcnCodepoint::Ect1), Some(noq_proto::EcnCodepoint::Ce)];
    let segs = [None, NonZeroU16::new(1), NonZeroU16::new(1200), NonZeroU16::new(u16::MAX)];
    let payloads: [[u8; 8]; 3] = [[0; 8], [0xff; 8], [1, 2, 3, 4, 5, 6, 7, 8]];
    // content lengths: small ones and the ones around the size limit (frame type 1 + key 32 + ecn 1 [+ segment size 2] + contents)
    let mut lens: Vec<usize> = vec![1, 2, 3, 100, 1200];
    for d in 0..6 { lens.push(MAX_PACKET_SIZE - 32 - d); }
    let mut valid_encodings: Vec<(String, Vec<u8>, bool)> = vec![];   // (name, bytes, client-to-relay?)
    // ---- client -> relay
    let mut c2r: Vec<ClientToRelayMsg> = vec![];
    for p in payloads { c2r.push(ClientToRelayMsg::Ping(p)); c2r.push(ClientToRelayMsg::Pong(p)); }
    for ecn in ecns { for seg in segs { for &n in &lens { c2r.push(ClientToRelayMsg::Datagrams { dst_endpoint_id: key(3), datagrams: Datagrams { ecn, segment_size: seg, contents: Bytes((0..n).map(|i| (i * 7) as u8).collect()) } }); } } }
    for m in &c2r {
        let input = match m { ClientToRelayMsg::Datagrams { datagrams, .. } => format!("client->relay Datagrams ecn={:?} segment_size={:?} contents={}B", datagrams.ecn, datagrams.segment_size, datagrams.contents.len()), other => format!("client->relay {:?}", other) };
        if rep.skip(&input) { continue; }
        rep.evaluations += 1; rep.nontrivial += 1;
        if rep.samples.is_empty() { rep.sample(&input); }
        let m2 = m.clone();
        match quiet(move || { let b = m2.to_bytes().freeze(); let len = m2.encoded_len(); let mut conn = Conn::default(); let sent = Pin::new(&mut conn).start_send(m2.clone()); let dec = ClientToRelayMsg::from_bytes(b.clone(), &KeyCache); (b, len, sent, dec, conn.conn.sent) }) {
            Err(()) => rep.fail("never-panics", "client-to-relay", &input, "encoding, the sink's size check or decoding panicked".into()),
            Ok((b, len, sent, dec, wire)) => {
                if len != b.len() { rep.fail("predicted-length-is-actual-length", "client-to-relay", &input, format!("encoded_len() = {len}, to_bytes() has {} bytes", b.len())); }
                match (&sent, &dec) {
                    (Ok(()), Ok(d)) => { if d != m { rep.fail("decodes-back-to-itself", "client-to-relay", &input, format!("decoded {:?}", d).chars().take(300).collect()); } if wire != vec![b.clone()] { rep.fail("sink-sends-the-encoding", "client-to-relay", &input, "the sink handed something other than to_bytes() to the websocket".into()); } }
                    (Ok(()), Err(e)) => rep.fail("sender-accepts-implies-receiver-accepts", "client-to-relay", &input, format!("the sending side's checks accept this message ({} bytes) but the relay's decoder rejects it: {:?}", b.len(), e)),
                    (Err(_), _) => { if !wire.is_empty() { rep.fail("sink-sends-the-encoding", "client-to-relay", &input, "the sink rejected the message but sent bytes".into()); } }
                }
                if sent.is_ok() && b.len() < 4000 { valid_encodings.push((input.clone(), b.0.clone(), true)); }
            }
        }
    }
    // ---- relay -> client
    let mut r2c: Vec<(RelayToClientMsg, ProtocolVersion)> = vec![];
    for v in [ProtocolVersion::V1, ProtocolVersion::V2] {
        for p in payloads { r2c.push((RelayToClientMsg::Ping(p), v)); r2c.push((RelayToClientMsg::Pong(p), v)); }
        r2c.push((RelayToClientMsg::EndpointGone(key(9)), v));
        for (a, b) in [(0u64, 0u64), (1, u32::MAX as u64), (u32::MAX as u64, 7), (10, 20)] { r2c.push((RelayToClientMsg::Restarting { reconnect_in: Duration::from_millis(a), try_for: Duration::from_millis(b) }, v)); }
        for ecn in ecns { for seg in segs { for &n in &[0usize, 1, 2, 100, MAX_PACKET_SIZE - 36, MAX_PACKET_SIZE - 35, MAX_PACKET_SIZE - 34, MAX_PACKET_SIZE - 33] { if 32 + 1 + seg.map_or(0, |_| 2) + n > MAX_PACKET_SIZE { continue; }   /* beyond the wire format's range */ r2c.push((RelayToClientMsg::Datagrams { remote_endpoint_id: key(5), datagrams: Datagrams { ecn, segment_size: seg, contents: Bytes((0..n).map(|i| (i * 3) as u8).collect()) } }, v)); } } }
    }
    for s in [Status::Healthy, Status::SameEndpointIdConnected, Status::RateLimited] { r2c.push((RelayToClientMsg::Status(s), ProtocolVersion::V2)); }
    for n in 3..=255u8 { r2c.push((RelayToClientMsg::Status(Status::Unknown(n)), ProtocolVersion::V2)); }
    for p in ["", "x", "Hello? Yes this is dog.", "ünï 🦀"] { r2c.push((RelayToClientMsg::Health { problem: p.to_string() }, ProtocolVersion::V1)); }
    for (m, v) in &r2c {
        let input = match m { RelayToClientMsg::Datagrams { datagrams, .. } => format!("relay->client {:?} Datagrams ecn={:?} segment_size={:?} contents={}B", v, datagrams.ecn, datagrams.segment_size, datagrams.contents.len()), other => format!("relay->client {:?} {:?}", v, other) };
        if rep.skip(&input) { continue; }
        rep.evaluations += 1; rep.nontrivial += 1;
        let (m2, v2) = (m.clone(), *v);
        match quiet(move || { let b = m2.to_bytes().freeze(); (b.clone(), m2.encoded_len(), RelayToClientMsg::from_bytes(b.clone(), &KeyCache, v2), RelayToClientMsg::from_bytes(b, &KeyCache, if v2 == ProtocolVersion::V1 { ProtocolVersion::V2 } else { ProtocolVersion::V1 })) }) {
            Err(()) => rep.fail("never-panics", "relay-to-client", &input, "encoding or decoding panicked".into()),
            Ok((b, len, dec, dec_other)) => {
                if len != b.len() { rep.fail("predicted-length-is-actual-length", "relay-to-client", &input, format!("encoded_len() = {len}, to_bytes() has {} bytes", b.len())); }
                match &dec { Ok(d) if d == m => {}, other => rep.fail("decodes-back-to-itself", "relay-to-client", &input, format!("decoded {:?}", other).chars().take(300).collect()) }
                // frames only valid in another protocol version are rejected there
                let version_bound = matches!(m, RelayToClientMsg::Health { .. } | RelayToClientMsg::Status(_));
                if version_bound && dec_other.is_ok() { rep.fail("frames-of-another-version-are-rejected", "relay-to-client", &input, "accepted under the other protocol version too".into()); }
                if !version_bound && dec_other.as_ref().ok() != Some(m) { rep.fail("decodes-back-to-itself", "relay-to-client", &input, "not decoded under the other protocol version".into()); }
                if b.len() < 4000 { valid_encodings.push((input.clone(), b.0.clone(), false)); }
            }
        }
    }
    // ---- decoding any byte string never panics: every string of at most `short_len` bytes, and mutations of valid encodings
    let decode_all = |w: &[u8]| -> Result<(), ()> { quiet(|| { let _ = ClientToRelayMsg::from_bytes(Bytes(w.to_vec()), &cache); let _ = RelayToClientMsg::from_bytes(Bytes(w.to_vec()), &cache, ProtocolVersion::V1); let _ = RelayToClientMsg::from_bytes(Bytes(w.to_vec()), &cache, ProtocolVersion::V2);
        let _ = Datagrams::from_bytes(Bytes(w.to_vec()), false); let _ = Datagrams::from_bytes(Bytes(w.to_vec()), true); let _ = Status::from_bytes(Bytes(w.to_vec())); let _ = FrameType::from_bytes(&mut Bytes(w.to_vec())); }) };
    if rep.only.is_none() {
        let mut w: Vec<u8> = vec![];
        loop {
            rep.evaluations += 1;
            if decode_all(&w).is_err() { rep.fail("decoding-never-panics", "short-strings", &format!("bytes={:?}", w), "a decoder panicked".into()); }
            let mut k = w.len();
            loop { if k == 0 { w = vec![0; w.len() + 1]; break; } k -= 1; if w[k] < 255 { w[k] += 1; for j in k + 1..w.len() { w[j] = 0; } break; } }
            if w.len() > short_len { break; }
        }
        for (name, enc, _) in &valid_encodings {
            rep.evaluations += 1;
            for cut in 0..enc.len().min(120) { if decode_all(&enc[..cut]).is_err() { rep.fail("decoding-never-panics", "truncations", &format!("first {cut} bytes of the encoding of {name}"), "a decoder panicked".into()); } }
            for i in 0..enc.len().min(48) { for mask in [0x01u8, 0x40, 0x80, 0xff] { let mut x = enc.clone(); x[i] ^= mask; if decode_all(&x).is_err() { rep.fail("decoding-never-panics", "mutations", &format!("byte {i} xor {mask:#x} of the encoding of {name}"), "a decoder panicked".into()); } } }
            for first in [0x40u8, 0x80, 0xc0, 0x7f, 0x3f, 14, 15, 63] { let mut x = enc.clone(); x[0] = first; if decode_all(&x).is_err() { rep.fail("decoding-never-panics", "frame-type-bytes", &format!("first byte {first:#x} on the encoding of {name}"), "a decoder panicked".into()); } }
        }
    }
    rep.finish();
}
