//@unit net_report_bx props=C27
// C27 — bounded second line behind the Verus unit `net_report` (NOT a proof): Report::update and the RelayLatencies methods,
// extracted verbatim, on every sequence of probe reports up to the bound, against an independent statement of the property.
#![allow(dead_code, unused_imports, unused_variables, unused_macros)]
macro_rules! trace { ($($t:tt)*) => { () }; }
macro_rules! debug { ($($t:tt)*) => { () }; }
macro_rules! info { ($($t:tt)*) => { () }; }
macro_rules! warn { ($($t:tt)*) => { () }; }
macro_rules! error { ($($t:tt)*) => { () }; }
use std::collections::BTreeMap;
use std::net::{Ipv4Addr, Ipv6Addr, SocketAddr, SocketAddrV4, SocketAddrV6};
use std::time::Duration;
// shim: iroh_base::RelayUrl — an ordered, cloneable identifier
#[derive(Debug, Clone, PartialEq, Eq, PartialOrd, Ord, Hash)]
pub struct RelayUrl(pub u8);

//@item iroh/src/net_report/probes.rs enum Probe derive=Debug,Clone,Copy,PartialEq,Eq
//@item iroh/src/net_report/reportgen.rs struct QadProbeReport derive=Debug,Clone,PartialEq,Eq
//@item iroh/src/net_report/reportgen.rs struct HttpsProbeReport derive=Debug,Clone,PartialEq,Eq
//@item iroh/src/net_report/reportgen.rs enum ProbeReport derive=Debug,Clone
//@item iroh/src/net_report/report.rs struct RelayLatencies derive=Debug,Default,PartialEq,Eq,Clone
//@item iroh/src/net_report/report.rs struct Report derive=Default,Debug,PartialEq,Eq,Clone
impl RelayLatencies {
//@fn iroh/src/net_report/report.rs RelayLatencies::update_relay stripattrs
//@end
//@fn iroh/src/net_report/report.rs RelayLatencies::merge stripattrs
//@end
//@fn iroh/src/net_report/report.rs RelayLatencies::iter
//@end
//@fn iroh/src/net_report/report.rs RelayLatencies::get stripattrs
//@end
}
impl Report {
//@fn iroh/src/net_report/report.rs Report::update stripattrs
//@end
//@fn iroh/src/net_report/report.rs Report::mapping_varies_by_dest stripattrs
//@end
}
// @extra-items-here (helpers a change newly calls are spliced in above this line)
//@include shims/harness.rs

// one probe report of the alphabet: (kind 0=https 1=qad4 2=qad6, relay, latency ms, address index; 9 = address of the other family)
type Ev = (u8, u8, u64, u8);
fn v4(i: u8) -> SocketAddr { SocketAddr::V4(SocketAddrV4::new(Ipv4Addr::new(192, 0, 2, 1 + i / 2), 4000 + (i % 2) as u16)) }
fn v6(i: u8) -> SocketAddr { SocketAddr::V6(SocketAddrV6::new(Ipv6Addr::new(0x2001, 0xdb8, 0, 0, 0, 0, 0, 1 + (i / 2) as u16), 4000 + (i % 2) as u16, 0, 0)) }
fn mk(e: &Ev) -> ProbeReport {
    let lat = Duration::from_millis(e.2);
    match e.0 {
        0 => ProbeReport::Https(HttpsProbeReport { relay: RelayUrl(e.1), latency: lat }),
        1 => ProbeReport::QadIpv4(QadProbeReport { relay: RelayUrl(e.1), latency: lat, addr: if e.3 == 9 { v6(0) } else { v4(e.3) } }),
        _ => ProbeReport::QadIpv6(QadProbeReport { relay: RelayUrl(e.1), latency: lat, addr: if e.3 == 9 { v4(0) } else { v6(e.3) } }),
    }
}
fn table(l: &RelayLatencies) -> Vec<(u8, u8, u128)> {
    let mut t: Vec<(u8, u8, u128)> = l.iter().map(|(p, u, d)| (match p { Probe::Https => 0, Probe::QadIpv4 => 1, Probe::QadIpv6 => 2 }, u.0, d.as_millis())).collect();
    t.sort(); t
}

fn main() {
    let args: Vec<String> = std::env::args().collect();
    let max_len: usize = args.get(1).and_then(|s| s.parse().ok()).unwrap_or(4);
    let mut rep = Rep::new(args.get(3).cloned());
    let mut alphabet: Vec<Ev> = Vec::new();
    for relay in [0u8, 1] { for lat in [20u64, 10, 0] { alphabet.push((0, relay, lat, 0)); } }
    for kind in [1u8, 2] {
        for (relay, lat, a) in [(0u8, 20u64, 0u8), (0, 10, 1), (1, 15, 0), (1, 0, 2), (0, 30, 9)] { alphabet.push((kind, relay, lat, a)); }
    }
    let n = alphabet.len();
    let mut idx: Vec<usize> = vec![];
    loop {
        let seq: Vec<Ev> = idx.iter().map(|i| alphabet[*i]).collect();
        let input = format!("{:?}", seq);
        if !rep.skip(&input) {
            rep.evaluations += 1; if seq.len() >= 2 { rep.nontrivial += 1; }
            if seq.len() == 3 { rep.sample(&input); }
            let seq2 = seq.clone();
            let out = std::panic::catch_unwind(move || {
                let mut r = Report::default();
                let mut states = vec![];
                for e in &seq2 { r.update(&mk(e)); states.push(r.clone()); }
                // the same observations split over two tables and merged in both orders
                let mut merges = vec![];
                for cut in 0..=seq2.len() {
                    let (mut a, mut b) = (RelayLatencies::default(), RelayLatencies::default());
                    for (k, e) in seq2.iter().enumerate() {
                        let p = match e.0 { 0 => Probe::Https, 1 => Probe::QadIpv4, _ => Probe::QadIpv6 };
                        if k < cut { a.update_relay(RelayUrl(e.1), Duration::from_millis(e.2), p) } else { b.update_relay(RelayUrl(e.1), Duration::from_millis(e.2), p) }
                    }
                    let (mut ab, mut ba) = (a.clone(), b.clone());
                    ab.merge(&b); ba.merge(&a);
                    merges.push((cut, ab, ba));
                }
                (states, merges)
            });
            match out {
                Err(_) => rep.fail("never-panics", "other", &input, "Report::update / RelayLatencies::merge panicked".into()),
                Ok((states, merges)) => {
                    // independent statement of the property over the observation sequence
                    for (k, st) in states.iter().enumerate() {
                        let pre = &seq[..=k];
                        let obs4: Vec<SocketAddr> = pre.iter().filter(|e| e.0 == 1 && e.3 != 9).map(|e| v4(e.3)).collect();
                        let obs6: Vec<SocketAddr> = pre.iter().filter(|e| e.0 == 2 && e.3 != 9).map(|e| v6(e.3)).collect();
                        let want4 = obs4.first().map(|a| match a { SocketAddr::V4(x) => *x, _ => unreachable!() });
                        let want6 = obs6.first().map(|a| match a { SocketAddr::V6(x) => *x, _ => unreachable!() });
                        if st.global_v4 != want4 { rep.fail("global-is-first-observed", "v4", &input, format!("after {} reports global_v4 = {:?}, first observed {:?}", k + 1, st.global_v4, want4)); }
                        if st.global_v6 != want6 { rep.fail("global-is-first-observed", "v6", &input, format!("after {} reports global_v6 = {:?}, first observed {:?}", k + 1, st.global_v6, want6)); }
                        let varies = |o: &Vec<SocketAddr>| if o.len() < 2 { None } else { Some(o.iter().any(|a| a != &o[0])) };
                        if st.mapping_varies_by_dest_ipv4 != varies(&obs4) { rep.fail("mapping-varies-exact", "v4", &input, format!("after {} reports mapping_varies_by_dest_ipv4 = {:?}, expected {:?}", k + 1, st.mapping_varies_by_dest_ipv4, varies(&obs4))); }
                        if st.mapping_varies_by_dest_ipv6 != varies(&obs6) { rep.fail("mapping-varies-exact", "v6", &input, format!("after {} reports mapping_varies_by_dest_ipv6 = {:?}, expected {:?}", k + 1, st.mapping_varies_by_dest_ipv6, varies(&obs6))); }
                        // latency table: minimum per (probe kind, relay), nothing else
                        let mut want: BTreeMap<(u8, u8), u128> = BTreeMap::new();
                        for e in pre { let w = want.entry((e.0, e.1)).or_insert(e.2 as u128); if (e.2 as u128) < *w { *w = e.2 as u128; } }
                        let want_t: Vec<(u8, u8, u128)> = want.iter().map(|((p, u), l)| (*p, *u, *l)).collect();
                        if table(&st.relay_latency) != want_t { rep.fail("latency-is-minimum-per-probe-kind", "other", &input, format!("after {} reports table = {:?}, expected {:?}", k + 1, table(&st.relay_latency), want_t)); }
                        for u in [0u8, 1] {
                            let lo = want.iter().filter(|((_, r), _)| *r == u).map(|(_, l)| *l).min();
                            if st.relay_latency.get(&RelayUrl(u)).map(|d| d.as_millis()) != lo { rep.fail("get-is-lowest", "other", &input, format!("get(relay {u}) = {:?}, lowest observed {:?}", st.relay_latency.get(&RelayUrl(u)), lo)); }
                        }
                    }
                    let fin = states.last().map(|s| table(&s.relay_latency)).unwrap_or_default();
                    for (cut, ab, ba) in &merges {
                        if ab != ba { rep.fail("merge-commutative", "other", &input, format!("split at {cut}: a.merge(b) = {:?}, b.merge(a) = {:?}", table(ab), table(ba))); }
                        if table(ab) != fin { rep.fail("merge-keeps-minima", "other", &input, format!("split at {cut}: merged = {:?}, minima = {:?}", table(ab), fin)); }
                    }
                }
            }
        }
        // next sequence (length-lexicographic)
        let mut k = idx.len();
        loop {
            if k == 0 { idx = vec![0; idx.len() + 1]; break; }
            k -= 1;
            if idx[k] + 1 < n { idx[k] += 1; for j in k + 1..idx.len() { idx[j] = 0; } break; }
        }
        if idx.len() > max_len { break; }
    }
    rep.finish();
}
