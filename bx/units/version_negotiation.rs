//@unit version_negotiation_bx props=C11
// C11 — bounded stand-in (NOT a proof): the relay's choice of the sub-protocol version (the `let protocol_version = ...`
// statement of RelayServiceWithNotify::handle_relay_ws_upgrade: split / trim / match_from_str / max) and the client's check of
// the server's answer (the `let protocol_version = ...` statement of ClientBuilder::connect), each sliced out verbatim as a
// function over its free variables (rule R4c), with ProtocolVersion and its helpers, on every header built from the token set.
#![allow(dead_code, unused_imports, unused_variables, unused_macros, unused_mut)]
// shim: n0_error::e! builds the error value (location meta dropped)
macro_rules! e { ($($t:tt)*) => { $($t)* }; }
// shims: what strum derives for ProtocolVersion (`#[strum(serialize = "iroh-relay-vN")]`: EnumString / IntoStaticStr) —
// a variant added without extending these two matches makes the unit undecided, not silently wrong
#[derive(Debug)] pub struct UnsupportedRelayProtocolVersion;
impl TryFrom<&str> for ProtocolVersion {
    type Error = UnsupportedRelayProtocolVersion;
    fn try_from(s: &str) -> Result<Self, Self::Error> { match s { "iroh-relay-v1" => Ok(ProtocolVersion::V1), "iroh-relay-v2" => Ok(ProtocolVersion::V2), _ => Err(UnsupportedRelayProtocolVersion) } }
}
impl From<&ProtocolVersion> for &'static str { fn from(v: &ProtocolVersion) -> &'static str { match v { ProtocolVersion::V1 => "iroh-relay-v1", ProtocolVersion::V2 => "iroh-relay-v2" } } }
#[derive(Debug)] pub enum RelayUpgradeReqError { UnsupportedRelayVersion { we_support: String, you_support: String } }
#[derive(Debug)] pub enum ConnectError { BadVersionHeader { server_version: Option<String> } }

//@item iroh-relay/src/http.rs enum ProtocolVersion stripattrs derive=Debug,Clone,Copy,PartialEq,Eq,PartialOrd,Ord,Hash
impl ProtocolVersion {
//@item iroh-relay/src/http.rs const ProtocolVersion::ALL
//@fn iroh-relay/src/http.rs ProtocolVersion::all
//@end
//@fn iroh-relay/src/http.rs ProtocolVersion::all_joined
//@end
//@fn iroh-relay/src/http.rs ProtocolVersion::to_str
//@end
//@fn iroh-relay/src/http.rs ProtocolVersion::match_from_str
//@end
}
//@arm iroh-relay/src/server/http_server.rs RelayServiceWithNotify::handle_relay_ws_upgrade name=server_choice stmt
//@- let protocol_version = || let Some(protocol_version) = || let Ok(protocol_version) =
//@| pub fn server_choice(subprotocols: &str) -> Result<ProtocolVersion, RelayUpgradeReqError>
//@tail Ok(protocol_version)
//@end
//@arm iroh-relay/src/client.rs ClientBuilder::connect name=client_accept stmt
//@- let protocol_version = || let Some(protocol_version) = || let Ok(protocol_version) =
//@| pub fn client_accept(protocol_version_str: Option<&str>) -> Result<ProtocolVersion, ConnectError>
//@tail Ok(protocol_version)
//@end
// @extra-items-here (helpers a change newly calls are spliced in above this line)
//@include shims/harness.rs

fn main() {
    let args: Vec<String> = std::env::args().collect();
    let max_tokens: usize = args.get(1).and_then(|s| s.parse().ok()).unwrap_or(3);
    let mut rep = Rep::new(args.get(3).cloned());
    // the wire names of the supported versions, oldest first (the property's vocabulary)
    let supported = ["iroh-relay-v1", "iroh-relay-v2"];
    let newest_of = |hdr: &str| -> Option<usize> { hdr.split(',').filter_map(|t| supported.iter().position(|s| *s == t.trim())).max() };
    let tokens = ["iroh-relay-v1", "iroh-relay-v2", " iroh-relay-v1", "iroh-relay-v2 ", "\tiroh-relay-v2\t", "iroh-relay-v3", "iroh-relay-v0", "IROH-RELAY-V2", "iroh-relay-v", "iroh-relay-v22",
                  "iroh-relay-v1;q=1", "", " ", "foo", "iroh-relay-v1 iroh-relay-v2", "v2", "iroh-relay-v2\u{a0}"];
    let n = tokens.len();
    let mut idx: Vec<usize> = vec![];
    loop {
        let hdr: String = idx.iter().map(|i| tokens[*i]).collect::<Vec<_>>().join(",");
        let input = format!("offered={:?}", hdr);
        if !rep.skip(&input) {
            rep.evaluations += 1; if idx.len() >= 2 { rep.nontrivial += 1; }
            if idx.len() == 3 && idx[0] == 5 && idx[1] == 0 { rep.sample(&input); }
            let h2 = hdr.clone();
            match std::panic::catch_unwind(move || server_choice(&h2)) {
                Err(_) => rep.fail("never-panics", "server", &input, "the server's choice panicked".into()),
                Ok(r) => {
                    let want = newest_of(&hdr);
                    match (&r, want) {
                        (Ok(v), None) => rep.fail("upgrades-only-if-a-supported-version-is-offered", "server", &input, format!("upgraded with {:?} although no supported version was offered", v)),
                        (Err(_), Some(w)) => rep.fail("upgrades-if-a-supported-version-is-offered", "server", &input, format!("refused although {} was offered", supported[w])),
                        (Ok(v), Some(w)) => {
                            if v.to_str() != supported[w] { rep.fail("uses-the-newest-version-offered", "server", &input, format!("chose {} but the newest supported version the client offered is {}", v.to_str(), supported[w])); }
                            // both ends then speak that version: the client accepts the server's answer and reads the same version out of it
                            match client_accept(Some(v.to_str())) { Ok(c) if c == *v => {}, other => rep.fail("both-ends-speak-the-chosen-version", "client", &input, format!("the server answers {:?}, the client makes of it {:?}", v.to_str(), other)) }
                        }
                        (Err(_), None) => {}
                    }
                }
            }
            // the client accepts an answer only if it names exactly one version the client supports
            if idx.len() <= 1 {
                let ans: Option<&str> = if idx.is_empty() { None } else { Some(tokens[idx[0]]) };
                let input2 = format!("answer={:?}", ans);
                if !rep.skip(&input2) {
                    rep.evaluations += 1;
                    let want = ans.and_then(|a| supported.iter().position(|s| *s == a));
                    // an answer that names a supported version with padding around it: the property does not say; either is fine
                    let padded = want.is_none() && ans.is_some_and(|a| supported.contains(&a.trim()));
                    match (client_accept(ans), want) {
                        (Ok(v), None) if padded && Some(v.to_str()) == ans.map(str::trim) => {}
                        (Ok(v), None) => rep.fail("accepts-only-a-supported-version", "client", &input2, format!("accepted the answer as {:?}", v)),
                        (Err(_), Some(w)) => rep.fail("accepts-a-supported-version", "client", &input2, format!("rejected {}", supported[w])),
                        (Ok(v), Some(w)) if v.to_str() != supported[w] => rep.fail("both-ends-speak-the-chosen-version", "client", &input2, format!("the answer {} was read as {}", supported[w], v.to_str())),
                        _ => {}
                    }
                }
            }
        }
        let mut k = idx.len();
        loop {
            if k == 0 { idx = vec![0; idx.len() + 1]; break; }
            k -= 1;
            if idx[k] + 1 < n { idx[k] += 1; for j in k + 1..idx.len() { idx[j] = 0; } break; }
        }
        if idx.len() > max_tokens { break; }
    }
    rep.finish();
}
