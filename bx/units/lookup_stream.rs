//@unit lookup_stream_bx props=C29
// C29 — bounded second line (NOT a proof) behind the Verus unit `lookup_stream`: AddressLookupServices::resolve and
// AddressLookupStream::{empty, new, poll_next}, extracted verbatim, with scripted lookup services (items, errors, pending polls,
// services that do not resolve at all) merged by a stand-in for n0_future's MergeBounded.
#![allow(dead_code, unused_imports, unused_variables, unused_macros, unused_mut)]
macro_rules! trace { ($($t:tt)*) => { () }; }
macro_rules! debug { ($($t:tt)*) => { () }; }
macro_rules! e { ($($t:tt)*) => { $($t)* }; }
use std::pin::Pin;
use std::sync::{Arc, RwLock};
use std::task::{Context, Poll, ready};
// shims: futures' Stream, boxed streams, and MergeBounded (polls its streams in turn; ends when all have ended)
pub trait Stream { type Item; fn poll_next(self: Pin<&mut Self>, cx: &mut Context<'_>) -> Poll<Option<Self::Item>>; }
pub type BoxStream<T> = Pin<Box<dyn Stream<Item = T> + Send>>;
impl<S: Stream + ?Sized + Unpin> Stream for &mut S { type Item = S::Item; fn poll_next(mut self: Pin<&mut Self>, cx: &mut Context<'_>) -> Poll<Option<S::Item>> { Pin::new(&mut **self).poll_next(cx) } }
impl<S: Stream + ?Sized> Stream for Pin<Box<S>> { type Item = S::Item; fn poll_next(mut self: Pin<&mut Self>, cx: &mut Context<'_>) -> Poll<Option<S::Item>> { self.as_mut().get_mut().as_mut().poll_next(cx) } }
pub struct MergeBounded<S> { streams: Vec<Option<S>>, next: usize }
impl<S> FromIterator<S> for MergeBounded<S> { fn from_iter<I: IntoIterator<Item = S>>(it: I) -> Self { MergeBounded { streams: it.into_iter().map(Some).collect(), next: 0 } } }
impl<S: Stream + Unpin> Stream for MergeBounded<S> {
    type Item = S::Item;
    fn poll_next(self: Pin<&mut Self>, cx: &mut Context<'_>) -> Poll<Option<S::Item>> {
        let this = self.get_mut();
        let n = this.streams.len();
        let mut any_live = false;
        for k in 0..n {
            let i = (this.next + k) % n;
            if let Some(s) = this.streams[i].as_mut() {
                match Pin::new(s).poll_next(cx) { Poll::Ready(Some(x)) => { this.next = (i + 1) % n; return Poll::Ready(Some(x)); } Poll::Ready(None) => { this.streams[i] = None; } Poll::Pending => { any_live = true; } }
            }
        }
        if any_live { Poll::Pending } else { Poll::Ready(None) }
    }
}
impl<S> Unpin for MergeBounded<S> {}
#[derive(Debug, Clone, Copy, PartialEq, Eq)] pub struct EndpointId(pub u8);
#[derive(Debug, Clone, PartialEq)] pub struct Item(pub u8);
#[derive(Debug, Clone, PartialEq)] pub struct Error(pub u8);
#[derive(Debug, Clone, PartialEq)] pub enum AddressLookupFailed { NoServiceConfigured, NoResults { errors: Vec<Error> } }
#[derive(Debug, Clone)] pub struct EndpointData; #[derive(Debug, Clone)] pub struct AddrFilter;
pub trait AddressLookup: std::fmt::Debug + Send + Sync + 'static { fn publish(&self, _data: &EndpointData) {} fn resolve(&self, _endpoint_id: EndpointId) -> Option<BoxStream<Result<Item, Error>>> { None } }

//@item iroh/src/address_lookup.rs struct AddressLookupServices derive=Debug,Default,Clone
//@item iroh/src/address_lookup.rs struct AddressLookupStream derive=
impl AddressLookupServices {
//@fn iroh/src/address_lookup.rs AddressLookupServices::add_boxed
//@end
//@fn iroh/src/address_lookup.rs AddressLookupServices::resolve
//@end
}
impl AddressLookupStream {
//@fn iroh/src/address_lookup.rs AddressLookupStream::empty
//@end
//@fn iroh/src/address_lookup.rs AddressLookupStream::new
//@end
}
impl Stream for AddressLookupStream {
    type Item = Result<Result<Item, Error>, AddressLookupFailed>;
//@fn iroh/src/address_lookup.rs Stream@AddressLookupStream::poll_next
//@end
}
// @extra-items-here (helpers a change newly calls are spliced in above this line)
//@include shims/harness.rs

#[derive(Debug, Clone, Copy, PartialEq)] enum Ev { I, E, P }
struct Scripted { evs: Vec<(Ev, u8)>, pos: usize }
impl Stream for Scripted {
    type Item = Result<Item, Error>;
    fn poll_next(self: Pin<&mut Self>, _cx: &mut Context<'_>) -> Poll<Option<Self::Item>> {
        let this = self.get_mut();
        if this.pos >= this.evs.len() { return Poll::Ready(None); }
        let (e, id) = this.evs[this.pos]; this.pos += 1;
        match e { Ev::I => Poll::Ready(Some(Ok(Item(id)))), Ev::E => Poll::Ready(Some(Err(Error(id)))), Ev::P => Poll::Pending }
    }
}
#[derive(Debug)] struct Svc { script: Option<Vec<(Ev, u8)>> }
impl AddressLookup for Svc { fn resolve(&self, _id: EndpointId) -> Option<BoxStream<Result<Item, Error>>> { self.script.clone().map(|evs| Box::pin(Scripted { evs, pos: 0 }) as BoxStream<_>) } }

fn main() {
    std::panic::set_hook(Box::new(|_| {}));
    let args: Vec<String> = std::env::args().collect();
    let max_events: usize = args.get(1).and_then(|s| s.parse().ok()).unwrap_or(3);
    let mut rep = Rep::new(args.get(3).cloned());
    // every script of at most `max_events` events, and "this service does not resolve"
    let mut scripts: Vec<Option<Vec<Ev>>> = vec![None, Some(vec![])];
    let mut frontier: Vec<Vec<Ev>> = vec![vec![]];
    for _ in 0..max_events { let mut next = vec![]; for s in &frontier { for e in [Ev::I, Ev::E, Ev::P] { let mut t = s.clone(); t.push(e); next.push(t); } } scripts.extend(next.iter().cloned().map(Some)); frontier = next; }
    let mut configs: Vec<Vec<Option<Vec<Ev>>>> = vec![vec![]];
    for a in &scripts { configs.push(vec![a.clone()]); }
    for a in &scripts { for b in &scripts { configs.push(vec![a.clone(), b.clone()]); } }
    for cfg in &configs {
        let input = format!("services={:?}", cfg);
        if rep.skip(&input) { continue; }
        rep.evaluations += 1; if cfg.len() == 2 { rep.nontrivial += 1; }
        if cfg.len() == 2 && rep.evaluations % 301 == 7 { rep.sample(&input); }
        let cfg2 = cfg.clone();
        let out = std::panic::catch_unwind(move || {
            let svcs = AddressLookupServices::default();
            let mut id = 0u8;
            let mut all_items: Vec<u8> = vec![]; let mut all_errs: Vec<u8> = vec![];
            for s in &cfg2 {
                let script = s.as_ref().map(|evs| evs.iter().map(|e| { id += 1; match e { Ev::I => all_items.push(id), Ev::E => all_errs.push(id), Ev::P => {} } (*e, id) }).collect::<Vec<_>>());
                svcs.add_boxed(Box::new(Svc { script }));
            }
            let mut stream = Box::pin(svcs.resolve(EndpointId(1)));
            let mut cx = Context::from_waker(std::task::Waker::noop());
            let mut yielded = vec![]; let mut ended = false; let mut after_end = 0;
            for _ in 0..64 { match stream.as_mut().poll_next(&mut cx) { Poll::Pending => {}, Poll::Ready(Some(x)) => { if ended { after_end += 1; } yielded.push(x); } Poll::Ready(None) => { if ended { break; } ended = true; } } }
            (yielded, ended, after_end, all_items, all_errs)
        });
        match out {
            Err(_) => rep.fail("never-panics", "other", &input, "the lookup stream panicked".into()),
            Ok((yielded, ended, after_end, all_items, all_errs)) => {
                let shown: Vec<String> = yielded.iter().map(|y| match y { Ok(Ok(i)) => format!("item{}", i.0), Ok(Err(e)) => format!("error{}", e.0), Err(AddressLookupFailed::NoServiceConfigured) => "END:no-services".into(), Err(AddressLookupFailed::NoResults { errors }) => format!("END:no-results{:?}", errors.iter().map(|e| e.0).collect::<Vec<_>>()) }).collect();
                if !ended { rep.fail("ends", "other", &input, format!("the stream did not end within 64 polls; yielded {:?}", shown)); continue; }
                if after_end > 0 { rep.fail("nothing-after-the-end", "other", &input, format!("yielded {:?} — something came after the end", shown)); }
                let mut items: Vec<u8> = yielded.iter().filter_map(|y| if let Ok(Ok(i)) = y { Some(i.0) } else { None }).collect(); items.sort();
                let errs: Vec<u8> = yielded.iter().filter_map(|y| if let Ok(Err(e)) = y { Some(e.0) } else { None }).collect();
                let (mut se, mut sa) = (errs.clone(), all_errs.clone()); se.sort(); sa.sort();
                if items != all_items { rep.fail("yields-every-item", "other", &input, format!("yielded {:?}; the services produced items {:?}", shown, all_items)); }
                if se != sa { rep.fail("yields-every-error", "other", &input, format!("yielded {:?}; the services produced errors {:?}", shown, all_errs)); }
                let terminal: Vec<&Result<Result<Item, Error>, AddressLookupFailed>> = yielded.iter().filter(|y| y.is_err()).collect();
                let want_terminal = if cfg.is_empty() { Some("END:no-services".to_string()) } else if all_items.is_empty() { Some(format!("END:no-results{:?}", errs)) } else { None };
                let got_terminal: Vec<String> = shown.iter().filter(|s| s.starts_with("END")).cloned().collect();
                match want_terminal {
                    None => if !got_terminal.is_empty() { rep.fail("failure-only-when-no-item-was-produced", "other", &input, format!("yielded {:?} although an item was produced", shown)); },
                    Some(w) => if got_terminal != vec![w.clone()] || !shown.last().is_some_and(|l| l.starts_with("END")) { rep.fail("single-terminal-failure-when-no-item-was-produced", "other", &input, format!("yielded {:?}, expected everything followed by exactly one {}", shown, w)); },
                }
            }
        }
    }
    rep.finish();
}
