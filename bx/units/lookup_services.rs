//@unit lookup_services_bx props=C30
// C30 — bounded stand-in (NOT a proof): AddressLookupServices::{add, add_boxed, set_addr_filter, publish}, extracted verbatim,
// run under a controlled scheduler (shims/sched.rs) that enumerates EVERY interleaving of the lock acquisitions and service
// calls of the scenario's threads; at the end every registered service must have been given, last, the data a service added
// later would be given (the stored latest data), with the address filter applied.
#![allow(dead_code, unused_imports, unused_variables, unused_macros, unused_mut)]
use std::borrow::Cow;
use std::sync::Arc;
//@include shims/sched.rs
use sched::RwLock;
// shims: the published data (an identifier and whether the filter was applied), the filter, the service trait
#[derive(Debug, Clone, PartialEq, Eq)] pub struct EndpointData { pub id: u8, pub filtered: bool }
#[derive(Debug, Clone)] pub struct AddrFilter;
impl EndpointData {
    pub fn apply_filter(&self, _filter: &AddrFilter) -> Cow<'_, Self> { if self.filtered { Cow::Borrowed(self) } else { Cow::Owned(EndpointData { id: self.id, filtered: true }) } }
}
pub trait AddressLookup: std::fmt::Debug + Send + Sync + 'static { fn publish(&self, _data: &EndpointData) {} }

//@item iroh/src/address_lookup.rs struct AddressLookupServices derive=Debug,Default,Clone
impl AddressLookupServices {
//@fn iroh/src/address_lookup.rs AddressLookupServices::set_addr_filter
//@end
//@fn iroh/src/address_lookup.rs AddressLookupServices::add
//@end
//@fn iroh/src/address_lookup.rs AddressLookupServices::add_boxed
//@end
//@fn iroh/src/address_lookup.rs AddressLookupServices::len
//@end
//@fn iroh/src/address_lookup.rs AddressLookupServices::publish
//@end
}
// @extra-items-here (helpers a change newly calls are spliced in above this line)
//@include shims/harness.rs

type Log = Arc<std::sync::Mutex<Vec<(u8, bool)>>>;
#[derive(Debug)] struct Recording { log: Log }
impl AddressLookup for Recording {
    fn publish(&self, data: &EndpointData) { sched::yield_point(false); self.log.lock().unwrap().push((data.id, data.filtered)); }
}
#[derive(Debug, Clone, Copy, PartialEq)] enum Op { Add, Publish(u8) }
struct Scenario { name: &'static str, filter: bool, initial_services: usize, initial_publish: Option<u8>, threads: Vec<Vec<Op>> }

fn main() {
    std::panic::set_hook(Box::new(|_| {}));
    let args: Vec<String> = std::env::args().collect();
    let max_threads: usize = args.get(1).and_then(|s| s.parse().ok()).unwrap_or(2);
    let bound: usize = args.get(2).and_then(|s| s.parse().ok()).filter(|b| *b > 0).unwrap_or(usize::MAX);   // 0 = every schedule
    let mut rep = Rep::new(args.get(3).cloned());
    let mut scenarios: Vec<Scenario> = vec![];
    for filter in [false, true] { for initial_services in [0usize, 1] { for initial_publish in [None, Some(1u8)] {
        scenarios.push(Scenario { name: "add|publish", filter, initial_services, initial_publish, threads: vec![vec![Op::Add], vec![Op::Publish(2)]] });
        scenarios.push(Scenario { name: "add|publish;publish", filter, initial_services, initial_publish, threads: vec![vec![Op::Add], vec![Op::Publish(2), Op::Publish(3)]] });
    } } }
    scenarios.push(Scenario { name: "publish|publish", filter: false, initial_services: 2, initial_publish: Some(1), threads: vec![vec![Op::Publish(2)], vec![Op::Publish(3)]] });
    scenarios.push(Scenario { name: "add|add", filter: true, initial_services: 0, initial_publish: Some(1), threads: vec![vec![Op::Add], vec![Op::Add]] });
    if max_threads >= 3 {
        for initial_publish in [None, Some(1u8)] {
            scenarios.push(Scenario { name: "add|publish|publish", filter: false, initial_services: 1, initial_publish, threads: vec![vec![Op::Add], vec![Op::Publish(2)], vec![Op::Publish(3)]] });
            scenarios.push(Scenario { name: "add|add|publish", filter: true, initial_services: 0, initial_publish, threads: vec![vec![Op::Add], vec![Op::Add], vec![Op::Publish(2)]] });
        }
    }
    for sc in &scenarios {
        // two-task scenarios: every schedule; three tasks: every schedule with at most `bound` pre-emptions
        sched::PREEMPTION_BOUND.store(if sc.threads.len() >= 3 { bound } else { usize::MAX }, std::sync::atomic::Ordering::Relaxed);
        let mut prefix: Vec<usize> = vec![];
        let base = format!("scenario={} filter={} services={} published={:?}", sc.name, sc.filter, sc.initial_services, sc.initial_publish);
        // replay of one recorded schedule
        if let Some(o) = &rep.only { if !o.starts_with(&base) { continue; } if let Some(p) = o.split("choices=").nth(1) { prefix = p.trim_matches(|c| c == '[' || c == ']').split(',').filter_map(|x| x.trim().parse().ok()).collect(); } }
        loop {
            let svcs = AddressLookupServices::default();
            let mut logs: Vec<Log> = vec![];
            if sc.filter { svcs.set_addr_filter(AddrFilter); }
            for _ in 0..sc.initial_services { let l: Log = Default::default(); logs.push(l.clone()); svcs.add(Recording { log: l }); }
            if let Some(d) = sc.initial_publish { svcs.publish(&EndpointData { id: d, filtered: false }); }
            let mut progs: Vec<Box<dyn FnOnce() + Send>> = vec![];
            for t in &sc.threads {
                let (svcs2, ops) = (svcs.clone(), t.clone());
                let mut my_logs: Vec<Log> = vec![];
                for op in &ops { if *op == Op::Add { let l: Log = Default::default(); logs.push(l.clone()); my_logs.push(l); } }
                progs.push(Box::new(move || { let mut it = my_logs.into_iter(); for op in ops { match op { Op::Add => svcs2.add(Recording { log: it.next().unwrap() }), Op::Publish(d) => svcs2.publish(&EndpointData { id: d, filtered: false }) } } }));
            }
            let out = sched::run(progs, &prefix);
            let choices: Vec<usize> = out.trace.iter().map(|x| x.1).collect();
            let input = format!("{base} choices={:?}", choices);
            rep.evaluations += 1; if out.order.windows(2).any(|w| w[0] != w[1]) { rep.nontrivial += 1; }
            if rep.evaluations % 97 == 5 { rep.sample(&format!("{input} (threads ran in the order {:?})", out.order)); }
            if out.deadlock { rep.fail("never-deadlocks", "other", &input, format!("no thread can proceed; threads ran in the order {:?}", out.order)); }
            else if !out.panicked.is_empty() { rep.fail("never-panics", "other", &input, format!("thread(s) {:?} panicked", out.panicked)); }
            else {
                // what a service added from now on would be given = the latest published data
                let probe: Log = Default::default();
                svcs.add(Recording { log: probe.clone() });
                let latest = probe.lock().unwrap().last().cloned();
                let any_publish = sc.initial_publish.is_some() || sc.threads.iter().flatten().any(|o| matches!(o, Op::Publish(_)));
                if any_publish && latest.is_none() { rep.fail("latest-data-is-kept", "other", &input, "data was published but a service added afterwards is given nothing".into()); }
                if svcs.len() != logs.len() + 1 { rep.fail("every-added-service-is-registered", "other", &input, format!("{} services registered, {} were added", svcs.len() - 1, logs.len())); }
                for (k, l) in logs.iter().enumerate() {
                    let got = l.lock().unwrap().clone();
                    if let Some(lat) = latest && got.last() != Some(&lat) {
                        rep.fail("every-service-has-the-latest-data", if k < sc.initial_services { "existing-service" } else { "added-service" }, &input,
                                 format!("service {k} was given {:?} (last = {:?}) but the latest published data is {:?}; threads ran in the order {:?}", got, got.last(), lat, out.order));
                    }
                    if sc.filter && got.iter().any(|(_, f)| !*f) { rep.fail("address-filter-applied", "other", &input, format!("service {k} was given unfiltered data: {:?}", got)); }
                }
            }
            if rep.only.is_some() { break; }
            match sched::next_prefix(out.trace) { Some(p) => prefix = p, None => break }
        }
    }
    rep.finish();
}
