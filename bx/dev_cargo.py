#!/usr/bin/env python3
"""bx/dev_cargo.py <group> [quick|thorough] — run a registered cargo-based BX group (development aid)."""
import json, sys, os
sys.path.insert(0, os.path.dirname(os.path.abspath(__file__)))
import bx_run
g = sys.argv[1]
r = bx_run.run_group(g, bx_run.GROUPS[g]['props'][0], sys.argv[2] if len(sys.argv) > 2 else 'quick', sys.argv[3] if len(sys.argv) > 3 else None)
r.pop('rewrites', None); r.pop('functions', None)
print(json.dumps(r, indent=1)[:8000])
