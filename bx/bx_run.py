"""BX engine — bounded stand-in (never counted as proof): functions sliced verbatim out of /repo on every run (the VX
extractor), compiled with rustc against std-only shims given in the unit template, and executed on EVERY input of a stated
finite space.  Used only where neither Verus nor Kani/CBMC can take the function (DESIGN.md §9.7)."""
import hashlib
import json
import os
import shutil
import subprocess
import sys
import time

HERE = os.path.dirname(os.path.abspath(__file__))
VERIF = os.path.dirname(HERE)
sys.path.insert(0, os.path.join(VERIF, 'vx'))
import extract  # noqa: E402
import rustlex  # noqa: E402

CACHE = os.path.join(VERIF, '.cache', 'bx')

# group -> (unit file, properties, bounds per tier, description of the enumerated space)
GROUPS = {
    'prune_paths': dict(
        unit='prune_paths.rs', props=['C23'],
        bounds=dict(quick=['34', '1'], thorough=['42', '2']),
        space='every population (open, unknown, inactive, unusable, relay) of paths with open+unknown+inactive+unusable <= {0} and relay <= {1}, '
              'inactive paths with pairwise distinct close times in two orders relative to the address numbering',
        nontrivial='populations with at least 30 non-relay paths (below that pruning must do nothing)',
        functions=['prune_non_relay_paths'],
    ),
}


def groups_for(prop):
    return [g for g, d in GROUPS.items() if prop in d['props']]


def all_props():
    return sorted({p for d in GROUPS.values() for p in d['props']})


def run_group(g, prop, tier='quick', only=None):
    t0 = time.time()
    d = GROUPS[g]
    res = dict(group=g, status='undecided', reason=None, failures=[], cmds=[], functions=[], trusted_base=[], bounded=True)
    work = os.path.join(CACHE, f'{g}.{os.getpid()}')
    os.makedirs(work, exist_ok=True)
    try:
        old_mode = rustlex.VERUS_MODE
        try:
            text, regions, log, unit = extract.generate(os.path.join(HERE, 'units', d['unit']))
        except extract.LostAnchor as e:
            res['reason'] = f'lost anchor: {e}'
            return res
        except (extract.UnitError, rustlex.LexError) as e:
            res['reason'] = f'unit error: {e}'
            return res
        finally:
            rustlex.VERUS_MODE = old_mode
        src = os.path.join(work, 'main.rs')
        with open(src, 'w') as f:
            f.write(text)
        res['generated_sha256'] = hashlib.sha256(text.encode()).hexdigest()
        res['rewrites'] = log
        for r in regions:
            if r.kind == 'fn':
                i = r.info
                res['functions'].append(dict(unit=f'bx:{g}', function=r.name, file=i['src_file'], lines=[i['src_start'], i['src_end']], sha256=i['sha256'],
                                             dropped_attrs=i.get('dropped_attrs', [])))
        res['trusted_base'] = [
            'std HashMap stands in for rustc_hash::FxHashMap (same API, different hasher)',
            'transports::Addr reduced to identity + is_relay(); Source/sources unused by pruning',
            'rustc and std are correct; the harness oracle restates the property (see bx/units/%s)' % d['unit'],
        ]
        cmd = ['rustc', '--edition', '2021', '-O', '-o', os.path.join(work, 'main'), src]
        res['cmds'].append(' '.join(cmd).replace(work, '<generated ' + g + '>'))
        p = subprocess.run(cmd, capture_output=True, text=True, timeout=600)
        if p.returncode != 0:
            res['reason'] = 'rustc rejected the extracted text (changed code uses something the shims lack): ' + ' | '.join(
                l for l in p.stderr.split('\n') if l.startswith('error'))[:600]
            res['tool_output'] = [p.stderr[-3000:]]
            return res
        bounds = list(d['bounds'][tier if tier in d['bounds'] else 'quick'])
        args = [os.path.join(work, 'main')] + bounds + ([only] if only else [])
        res['cmds'].append(('<generated %s>/main ' % g) + ' '.join(bounds + ([only] if only else [])))
        try:
            p = subprocess.run(args, capture_output=True, text=True, timeout=3000)
        except subprocess.TimeoutExpired:
            res['reason'] = 'bounded run timed out'
            return res
        if p.returncode != 0:
            # a panic inside the function under test is itself a violation of "never panics"; report it as a failure
            res['status'] = 'failed'
            res['failures'].append(dict(obligation='no-panic', class_='other', message='the extracted function panicked: ' + p.stderr.strip()[-400:],
                                        concrete=dict(stderr=p.stderr[-1500:])))
            return res
        out = json.loads(p.stdout)
        res['evaluations'] = out['evaluations']
        res['nontrivial'] = out['nontrivial']
        res['samples'] = out['samples']
        res['bound'] = d['space'].format(*bounds)
        res['nontrivial_rule'] = d['nontrivial']
        res['fail_counts'] = out['fail_counts']
        seen = set()
        for f in out['failures']:
            key = (f['obligation'], f['class'])
            if key in seen:
                continue
            seen.add(key)
            n = next((c['count'] for c in out['fail_counts'] if c['obligation'] == f['obligation'] and c['class'] == f['class']), None)
            res['failures'].append(dict(obligation=f'{f["obligation"]}[{f["class"]}]', class_=f['class'],
                                        message=f'{f["detail"]} on input {f["input"]} ({n} failing inputs of this kind within the bound)',
                                        concrete=dict(input=f['input'], detail=f['detail'], failing_inputs_of_this_kind=n,
                                                      rerun=f'{" ".join(bounds)} <open,unknown,inactive,unusable,relay>')))
        res['status'] = 'failed' if res['failures'] else 'ok'
        return res
    finally:
        res['wall_s'] = round(time.time() - t0, 2)
        shutil.rmtree(work, ignore_errors=True)


if __name__ == '__main__':
    r = run_group(sys.argv[1], GROUPS[sys.argv[1]]['props'][0], sys.argv[2] if len(sys.argv) > 2 else 'quick')
    r.pop('rewrites', None)
    print(json.dumps(r, indent=1))
